"""The translator half of the tie between /repo's source and the Lean model.

On every run it regenerates lean/Mctp/Gen/Source.lean from /repo's *current working tree*:

  * the MIR (rustc +nightly --emit=mir, mir-opt-level 0) of the scalar table functions
      <MessageType|CommandCode|CompletionCode as From<u8>>::from,
      MCTPControlMessageRequest::get_request_data_len / get_response_data_len
    parsed into values of `Mctp.Mir.Fn` (Mctp/Mir/Sem.lean gives them their meaning);
  * every field-less enum of the crate with its discriminants (`const E::V::{constant#0}` items of the
    same MIR dump) as a Lean inductive type `Gen.E` with `Gen.E.discr`;
  * every `bitfield!` declaration (struct, bit order, value type, getter/setter names, msb, lsb) as
    `Mctp.Field` records;
  * the crate's integer constants.

`Mctp/Tie/*.lean` (hand-written, committed) then proves, for all inputs, that what was generated
computes exactly what the hand-written model says.  The step performed here is purely syntactic; a
construct outside the supported fragment is emitted as `Term.unsupported` (evaluation gets stuck) and
reported as "fragment not translated", never silently dropped."""
import glob
import os
import re
import subprocess

VERIF = os.path.dirname(os.path.dirname(os.path.abspath(__file__)))
LEAN = os.path.join(VERIF, "lean")
GEN = os.environ.get("VERIF_GEN_OUT") or os.path.join(LEAN, "Mctp", "Gen", "Source.lean")
MIR_TARGET = os.environ.get("VERIF_MIR_TARGET") or os.path.join(VERIF, ".build", "mir")
REPO = os.environ.get("VERIF_REPO") or "/repo"


class Unsupported(Exception):
    pass


# ----------------------------------------------------------------------------- MIR text

def emit_mir():
    """MIR of the library crate of /repo's working tree, as text (None, log on failure)"""
    env = dict(os.environ)
    env.update({"CARGO_TARGET_DIR": MIR_TARGET, "CARGO_NET_OFFLINE": "true"})
    import shutil
    cmd = ["cargo", "+nightly", "rustc", "--offline", "--lib", "--", "--emit=mir", "-Zmir-opt-level=0"]
    p = subprocess.run(cmd, cwd=REPO, env=env, stdout=subprocess.PIPE, stderr=subprocess.STDOUT, text=True, timeout=900)
    files = glob.glob(os.path.join(MIR_TARGET, "debug", "deps", "libmctp-*.mir"))
    if p.returncode == 0 and not files:
        # cargo thinks the crate is fresh but the MIR file is gone: forget the fingerprint and build again
        for d in glob.glob(os.path.join(MIR_TARGET, "debug", ".fingerprint", "libmctp-*")):
            shutil.rmtree(d, ignore_errors=True)
        p = subprocess.run(cmd, cwd=REPO, env=env, stdout=subprocess.PIPE, stderr=subprocess.STDOUT, text=True, timeout=900)
        files = glob.glob(os.path.join(MIR_TARGET, "debug", "deps", "libmctp-*.mir"))
    if p.returncode != 0 or not files:
        return None, p.stdout[-2000:]
    # cargo re-emits the file whenever a source file changed (its own freshness check); the newest one is current
    return open(max(files, key=os.path.getmtime)).read(), ""


FN_RE = re.compile(r"^fn (.+?)\((.*?)\) -> (.+?) \{$")


def split_functions(mir):
    """[(name, params, ret, body lines)] of the top-level `fn` items"""
    out = []
    lines = mir.splitlines()
    i = 0
    while i < len(lines):
        m = FN_RE.match(lines[i])
        if m:
            j = i + 1
            while j < len(lines) and lines[j] != "}":
                j += 1
            out.append((m.group(1), m.group(2), m.group(3), lines[i + 1:j]))
            i = j
        i += 1
    return out


def enum_consts(mir):
    """{enum: [(variant, discriminant)]} in declaration order"""
    enums = {}
    for m in re.finditer(r"^const (\w+)::(\w+)::\{constant#0\}: isize = const (-?\d+)_isize;$", mir, flags=re.M):
        enums.setdefault(m.group(1), []).append((m.group(2), int(m.group(3))))
    return enums


def _int_const(s):
    m = re.match(r"const (-?\d+)_(u8|u16|u32|u64|usize|i8|i16|i32|i64|isize)$", s)
    if m:
        return int(m.group(1))
    if s == "const true":
        return 1
    if s == "const false":
        return 0
    return None


class FnTranslator:
    def __init__(self, enums, fn_index):
        self.enums = enums
        self.fn_index = fn_index      # {(kind, key): index in program}

    def operand(self, s):
        s = s.strip()
        m = re.match(r"(?:copy|move) _(\d+)$", s)
        if m:
            return "(.loc %s)" % m.group(1)
        c = _int_const(s)
        if c is not None and c >= 0:
            return "(.const %d)" % c
        raise Unsupported("operand: " + s)

    def rvalue(self, dst, rhs):
        rhs = rhs.strip()
        m = re.match(r"(?:copy|move) _(\d+)$", rhs)
        if m:
            return "(.assign %s (.loc %s))" % (dst, m.group(1))
        c = _int_const(rhs)
        if c is not None and c >= 0:
            return "(.assign %s (.const %d))" % (dst, c)
        m = re.match(r"&\(\*_(\d+)\)$", rhs) or re.match(r"&_(\d+)$", rhs)
        if m:
            return "(.assign %s (.loc %s))" % (dst, m.group(1))
        m = re.match(r"discriminant\(_(\d+)\)$", rhs)
        if m:
            return "(.assign %s (.loc %s))" % (dst, m.group(1))
        m = re.match(r"(?:[\w:]+::)?(\w+)::(\w+)$", rhs)
        if m and m.group(1) in self.enums:
            d = dict(self.enums[m.group(1)])
            if m.group(2) in d and d[m.group(2)] >= 0:
                return "(.assign %s (.const %d))" % (dst, d[m.group(2)])
        m = re.match(r"(BitAnd|BitOr|BitXor|Eq|Ne|Lt|Le|Gt|Ge)\((.+), (.+)\)$", rhs)
        if m:
            op = {"BitAnd": "bitAnd", "BitOr": "bitOr", "BitXor": "bitXor", "Eq": "eq", "Ne": "ne", "Lt": "lt", "Le": "le",
                  "Gt": "gt", "Ge": "ge"}[m.group(1)]
            return "(.binop %s .%s %s %s)" % (dst, op, self.operand(m.group(2)), self.operand(m.group(3)))
        m = re.match(r"(.+) as (u8|u16|u32|u64|usize) \(IntToInt\)$", rhs)
        if m:
            bits = {"u8": 8, "u16": 16, "u32": 32, "u64": 64, "usize": 64}[m.group(2)]
            return "(.cast %s %s %d)" % (dst, self.operand(m.group(1)), bits)
        raise Unsupported("rvalue: " + rhs)

    def callee(self, f):
        f = f.strip()
        m = re.match(r"<u8 as Into<(?:[\w:]+::)?(\w+)>>::into$", f) or re.match(r"<(?:[\w:]+::)?(\w+) as From<u8>>::from$", f)
        if m and ("from", m.group(1)) in self.fn_index:
            return self.fn_index[("from", m.group(1))]
        return None

    def terminator(self, s):
        s = s.strip()
        m = re.match(r"goto -> bb(\d+);$", s)
        if m:
            return "(.goto %s)" % m.group(1)
        if s == "return;":
            return ".ret"
        if s == "unreachable;":
            return ".unreachable"
        m = re.match(r"switchInt\((.+?)\) -> \[(.*)\];$", s)
        if m:
            arms, other = [], None
            for a in m.group(2).split(","):
                k, bb = a.strip().split(":")
                bb = re.match(r"bb(\d+)$", bb.strip()).group(1)
                if k.strip() == "otherwise":
                    other = bb
                else:
                    arms.append("(%d, %s)" % (int(k), bb))
            if other is None:
                raise Unsupported("switch without otherwise")
            return "(.switch %s [%s] %s)" % (self.operand(m.group(1)), ", ".join(arms), other)
        m = re.match(r"_(\d+) = (?:core::panicking::)?panic\(const \"(.*)\"\) -> unwind continue;$", s)
        if m:
            msg = m.group(2)
            k = "unimplemented" if msg.startswith("not implemented") else \
                "unreachable" if "entered unreachable code" in msg else "other"
            return "(.panic .%s)" % k
        m = re.match(r"_(\d+) = (.+?)\((.*)\) -> \[return: bb(\d+), unwind continue\];$", s)
        if m:
            dst, f, args, nxt = m.groups()
            if re.match(r"<Self as (?:[\w:]+::)?MCTPControlMessageRequest>::command_code$", f.strip()):
                # abstract accessor: `self` stands for the command byte
                return ("CALLSELF", dst, self.operand(args), nxt)
            g = self.callee(f)
            if g is None:
                raise Unsupported("call of " + f)
            return "(.call %s %d [%s] %s)" % (dst, g, ", ".join(self.operand(a) for a in args.split(",") if a.strip()), nxt)
        raise Unsupported("terminator: " + s)

    def function(self, body):
        """Lean term of type Mir.Fn"""
        nlocals = 1
        for l in body:
            m = re.match(r"\s+(?:let (?:mut )?_(\d+)|debug \w+ => _(\d+))", l)
            if m:
                nlocals = max(nlocals, int(m.group(1) or m.group(2)) + 1)
        blocks = {}
        cur = None
        for l in body:
            m = re.match(r"\s+bb(\d+)(?: \(cleanup\))?: \{$", l)
            if m:
                cur = int(m.group(1))
                blocks[cur] = []
                continue
            if cur is None:
                continue
            if l.strip() == "}":
                cur = None
                continue
            if l.strip():
                blocks[cur].append(l.strip())
        out = []
        for i in range(len(blocks)):
            if i not in blocks or not blocks[i]:
                raise Unsupported("block numbering")
            stmts = []
            for s in blocks[i][:-1]:
                if re.match(r"(StorageLive|StorageDead|FakeRead|PlaceMention|AscribeUserType|Retag|nop)\b", s) or s.startswith("//"):
                    continue
                m = re.match(r"_(\d+) = (.+);$", s)
                if not m:
                    raise Unsupported("statement: " + s)
                stmts.append(self.rvalue(m.group(1), m.group(2)))
            t = self.terminator(blocks[i][-1])
            if isinstance(t, tuple):       # abstract self accessor: an assignment followed by a goto
                stmts.append("(.assign %s %s)" % (t[1], t[2]))
                t = "(.goto %s)" % t[3]
            out.append("    ⟨[%s], %s⟩" % (", ".join(stmts), t))
        return "⟨%d, [\n%s]⟩" % (nlocals, ",\n".join(out))


def encoder_headers(fns, enums):
    """([(module::method, rq, d, instance, CommandCode variant, back end)], [skipped]) for every public encoder of
    smbus_request.rs / smbus_response.rs that builds its control header with exactly one call
    MCTPControlMessageHeader::new(<const>, <const>, <const>, CommandCode::V) and hands its data to one back end"""
    out, skipped = [], []
    for name, params, ret, body in fns:
        m = re.match(r"(smbus_request|smbus_response)::<impl at [^>]*>::(\w+)$", name)
        if not m or "Result<usize, ()>" not in ret:
            continue
        full = "%s::%s" % (m.group(1), m.group(2))
        calls = [l.strip() for l in body if "MCTPControlMessageHeader::<[u8; 2]>::new(" in l]
        back = sorted({b for l in body for b in re.findall(r"SMBusMCTPRequestResponse>::(generate_\w+)\(", l)})
        c = re.match(r"_\d+ = MCTPControlMessageHeader::<\[u8; 2\]>::new\(const (true|false), const (true|false), const (\d+)_u8, move _(\d+)\) ->", calls[0]) if len(calls) == 1 else None
        var = []
        if c:
            var = [re.match(r"\s*_%s = (?:[\w:]+::)?CommandCode::(\w+);$" % c.group(4), l) for l in body]
            var = [v.group(1) for v in var if v]
        if not c or len(var) != 1 or var[0] not in dict(enums.get("CommandCode", [])) or len(back) != 1:
            skipped.append(full)
            continue
        out.append((full, c.group(1), c.group(2), int(c.group(3)), var[0], back[0]))
    return out, skipped


def encoder_data(fns):
    """[(module::method, [element])] for every request encoder whose message data is one array literal of
    parameters, enum parameters cast `as u8` and constants (or the empty array) handed unchanged to
    generate_control_packet_bytes; encoders that fill their data any other way are skipped (listed in the
    second result)."""
    out, skipped = [], []
    for name, params, ret, body in fns:
        m = re.match(r"(smbus_request)::<impl at [^>]*>::(\w+)$", name)
        if not m or "Result<usize, ()>" not in ret:
            continue
        full = "%s::%s" % (m.group(1), m.group(2))
        nparams = len([x for x in params.split(", _") if x.strip()])
        asg = {}
        multi = set()
        writes_into = set()
        for l in body:
            l = l.strip()
            a = re.match(r"_(\d+) = (.+);$", l)
            if a and "->" not in l:
                if a.group(1) in asg:
                    multi.add(a.group(1))
                asg[a.group(1)] = a.group(2)
            w = re.match(r"(?:\(\*)?_(\d+)\)?\[", l)
            if w:
                writes_into.add(w.group(1))
        call = [l.strip() for l in body if "SMBusMCTPRequestResponse>::generate_control_packet_bytes(" in l]
        if len(call) != 1:
            skipped.append(full + ": no single call of generate_control_packet_bytes")
            continue
        args = re.search(r"generate_control_packet_bytes\((.*)\) ->", call[0]).group(1).split(", ")
        if len(args) != 5:
            skipped.append(full + ": unexpected argument list")
            continue

        def resolve(v, depth=0):
            """follow copies / moves / reborrows / unsizing back to where the value was made"""
            if depth > 20 or v in multi:
                return None
            if int(v) <= nparams:
                return None if v in asg else ("param", int(v))
            r = asg.get(v)
            if r is None:
                return None
            for pat in (r"(?:copy|move) _(\d+)$", r"&\(\*_(\d+)\)$", r"&_(\d+)$", r"move _(\d+) as &\[u8\] \(PointerCoercion\(Unsize, \w+\)\)$"):
                mm = re.match(pat, r)
                if mm:
                    return resolve(mm.group(1), depth + 1)
            mm = re.match(r"move _(\d+) as u8 \(IntToInt\)$", r)
            if mm:
                inner = asg.get(mm.group(1), "")
                d = re.match(r"discriminant\(_(\d+)\)$", inner)
                if d and mm.group(1) not in multi:
                    src = resolve(d.group(1), depth + 1)
                    if src and src[0] == "param":
                        return ("enumU8", src[1])
                return None
            c = _int_const(r)
            if c is not None:
                return ("const", c)
            mm = re.match(r"\[(.*)\]$", r)
            if mm:
                if v in writes_into or any(re.search(r"&mut \(?\*?_%s\b" % v, l) for l in body):
                    return None
                inner = mm.group(1).strip()
                rep = re.match(r"const (\d+)_u8; (\d+)$", inner)
                if rep:
                    return ("array", [("const", int(rep.group(1)))] * int(rep.group(2)))
                if not inner:
                    return ("array", [])
                elems = []
                for e in inner.split(", "):
                    em = re.match(r"(?:copy|move) _(\d+)$", e)
                    ev = resolve(em.group(1), depth + 1) if em else (("const", _int_const(e)) if _int_const(e) is not None else None)
                    if ev is None or ev[0] == "array":
                        return None
                    elems.append(ev)
                return ("array", elems)
            return None

        dm = re.match(r"(?:copy|move) _(\d+)$", args[3])
        val = resolve(dm.group(1)) if dm else None
        if val is None or val[0] != "array":
            skipped.append(full + ": message data is not one array literal of parameters and constants")
            continue
        out.append((full, val[1]))
    return out, skipped


def process_dispatch(fns, enums):
    """For every CommandCode variant: what the arm of process_packet's dispatch on the request's command does
    that no other arm does - which response encoders it calls, whether it stores an EID, which panics it
    contains - as a sorted list of tokens.  Raises Unsupported when the dispatch is not one switch over the
    discriminant of a CommandCode with an arm per variant."""
    cands = [f for f in fns if re.match(r"smbus::<impl at [^>]*>::process_packet$", f[0])]
    if len(cands) != 1:
        raise Unsupported("%d bodies named process_packet" % len(cands))
    body = cands[0][3]
    blocks, cur = {}, None
    for l in body:
        m = re.match(r"\s+bb(\d+)(?: \(cleanup\))?: \{$", l)
        if m:
            cur = int(m.group(1))
            blocks[cur] = []
            continue
        if cur is not None:
            if l.strip() == "}":
                cur = None
            elif l.strip():
                blocks[cur].append(l.strip())
    variants = enums.get("CommandCode", [])
    sw = []
    for b, ls in blocks.items():
        m = re.match(r"switchInt\(move _(\d+)\) -> \[(.*)\];$", ls[-1]) if ls else None
        if m and any(re.match(r"_%s = discriminant\(_\d+\);$" % m.group(1), x) for x in ls):
            arms, other = {}, None
            for a in m.group(2).split(","):
                k, t = a.strip().split(":")
                if k.strip() != "otherwise":
                    arms[int(k)] = int(t.strip()[2:])
                else:
                    other = int(t.strip()[2:])
            ds = [d for _, d in variants]
            if set(arms) <= set(ds) and len(arms) >= len(ds) - 2 and other is not None:
                for d in ds:
                    arms.setdefault(d, other)      # variants handled by the wildcard arm
                sw.append(arms)
    if len(sw) != 1:
        raise Unsupported("%d switches over all CommandCode variants in process_packet" % len(sw))
    arms = sw[0]

    def succ(b):
        t = blocks[b][-1]
        t = re.sub(r"unwind: bb\d+", "", t)
        return [int(x) for x in re.findall(r"bb(\d+)", t)]

    def reach(b):
        seen, todo = set(), [b]
        while todo:
            x = todo.pop()
            if x in seen or x not in blocks:
                continue
            seen.add(x)
            todo += succ(x)
        return seen
    R = {d: reach(t) for d, t in arms.items()}
    out = []
    for v, d in variants:
        others = set().union(*[R[o] for o in R if o != d and arms[o] != arms[d]])
        toks = set()
        for b in sorted(R[d] - others):
            for l in blocks[b]:
                m = re.search(r"= MCTPSMBusContextResponse::(\w+)\(", l)
                if m:
                    toks.add("respond:" + m.group(1))
                m = re.search(r"= <MCTPSMBusContext(Request|Response) as SMBusMCTPRequestResponse>::set_eid\(", l)
                if m:
                    toks.add("store-eid:" + m.group(1).lower())
                m = re.search(r"= (?:core::panicking::)?panic\(const \"(.*?)\"\)", l)
                if m:
                    toks.add("panic:" + ("unimplemented" if m.group(1).startswith("not implemented") else
                                         "unreachable" if "unreachable" in m.group(1) else "other"))
        out.append((v, sorted(toks)))
    return out


# ----------------------------------------------------------------------------- source text: bitfield! and constants

def strip_comments(src):
    src = re.sub(r"/\*.*?\*/", "", src, flags=re.S)
    return "\n".join(l.split("//")[0] for l in src.splitlines())


def non_test(src):
    i = src.find("#[cfg(test)]")
    return src if i < 0 else src[:i]


def bitfields():
    """[(file, struct, msb0, default value bits, [(getter, setter, msb, lsb, value bits)])]; raises Unsupported"""
    out = []
    for path in sorted(glob.glob(os.path.join(REPO, "src", "*.rs"))):
        src = strip_comments(non_test(open(path).read()))
        for m in re.finditer(r"bitfield!\s*\{(.*?)\n\}", src, flags=re.S):
            items = [x.strip() for x in m.group(1).split(";") if x.strip()]
            items = [re.sub(r"#\[[^\]]*\]\s*", "", x).strip() for x in items]
            h = re.match(r"(?:pub )?struct (\w+)\((MSB0 )?\[u8\]\)$", items[0])
            if not h:
                raise Unsupported("bitfield header in %s: %s" % (os.path.basename(path), items[0]))
            bits = {"u8": 8, "u16": 16, "u32": 32, "u64": 64}
            dflt = None
            fields = []
            for it in items[1:]:
                if it in bits:
                    dflt = bits[it]
                    continue
                f = re.match(r"(?:pub(?:\([a-z]+\))? )?(?:(u8|u16|u32|u64), )?(\w+), (\w+) ?: ?(\d+), ?(\d+)$", it)
                if not f:
                    raise Unsupported("bitfield item in %s: %s" % (os.path.basename(path), it))
                vb = bits[f.group(1)] if f.group(1) else dflt
                if vb is None:
                    raise Unsupported("bitfield item without a value type: " + it)
                fields.append((f.group(2), f.group(3), int(f.group(4)), int(f.group(5)), vb))
            out.append((os.path.basename(path), h.group(1), bool(h.group(2)), dflt, fields))
    return out


def constants():
    """[(name, value)] of the integer `const` items of the non-test source"""
    out = []
    for path in sorted(glob.glob(os.path.join(REPO, "src", "*.rs"))):
        src = strip_comments(non_test(open(path).read()))
        for m in re.finditer(r"^\s*(?:pub(?:\([a-z]+\))? )?const (\w+): (u8|u16|u32|u64|usize) = ([^;]+);", src, flags=re.M):
            v = m.group(3).strip().replace("_", "")
            try:
                val = int(v, 0)
            except ValueError:
                val = None
            out.append((m.group(1), val, m.group(3).strip()))
    return out


# ----------------------------------------------------------------------------- generation

FROM_ENUMS = ["MessageType", "CommandCode", "CompletionCode"]
LEN_FNS = ["get_request_data_len", "get_response_data_len"]


def generate():
    """writes GEN; returns {fragment: "translated" | "not translated: why"}"""
    status = {}
    mir, log = emit_mir()
    L = ["/- GENERATED by checker/translate.py from /repo's working tree on every run - do not edit.",
         "   (the committed copy is the translation of the pinned tree, so that a fresh checkout builds) -/",
         "import Mctp.Mir.Sem", "import Mctp.Mir.Data", "import Mctp.Model.Views", "namespace Mctp.Gen", "open Mctp.Mir", ""]
    enums = enum_consts(mir) if mir else {}
    if mir is None:
        status["mir"] = "not translated: rustc +nightly --emit=mir failed: " + log[-300:]
    # enums
    for e in sorted(enums):
        vs = enums[e]
        if any(d < 0 for _, d in vs):
            status["enum:" + e] = "not translated: negative discriminant"
            continue
        L.append("inductive %s\n  | %s\n  deriving DecidableEq, Repr" % (e, " | ".join(v for v, _ in vs)))
        L.append("def %s.discr : %s → Nat\n%s" % (e, e, "\n".join("  | .%s => %d" % (v, d) for v, d in vs)))
        L.append("def %s.all : List %s := [%s]\n" % (e, e, ", ".join("." + v for v, _ in vs)))
        status["enum:" + e] = "translated"
    L.append("def enumNames : List String := [%s]\n" % ", ".join('"%s"' % e for e in sorted(enums) if status.get("enum:" + e) == "translated"))
    # functions
    fns = split_functions(mir) if mir else []
    prog = []
    index = {}
    tr = FnTranslator(enums, index)
    want = []
    for e in FROM_ENUMS:
        cands = [f for f in fns if f[0].endswith("::from") and f[1].strip().endswith(": u8") and f[2].split("::")[-1] == e
                 and "::tests::" not in f[0]]
        want.append((("from", e), "from_" + e, cands))
    for n in LEN_FNS:
        cands = [f for f in fns if f[0] == "MCTPControlMessageRequest::" + n]
        want.append((("len", n), n, cands))
    for key, lname, cands in want:
        idx = len(prog)
        index[key] = idx
        if len(cands) != 1:
            prog.append((lname, "⟨1, [⟨[], .unsupported⟩]⟩"))
            status["fn:" + lname] = "not translated: %d candidate MIR bodies" % len(cands)
            continue
        try:
            prog.append((lname, tr.function(cands[0][3])))
            status["fn:" + lname] = "translated"
        except Unsupported as ex:
            prog.append((lname, "⟨1, [⟨[], .unsupported⟩]⟩"))
            status["fn:" + lname] = "not translated: outside the MIR fragment: " + str(ex)[:200]
    for lname, body in prog:
        L.append("def fn_%s : Fn :=\n  %s\n" % (lname, body))
    # control-header constants of the public encoders
    if mir is not None and "CommandCode" in enums:
        eh, eh_skipped = encoder_headers(fns, enums)
        L.append("/-- (module::method, Rq, D, instance id, command code, back end) of every public control encoder -/")
        L.append("def encoderHeaders : List (String × Bool × Bool × Nat × CommandCode × String) := [\n%s]\n" % ",\n".join(
            '  ("%s", %s, %s, %d, .%s, "%s")' % e for e in eh))
        L.append("def encoderHeadersSkipped : List String := [%s]\n" % ", ".join('"%s"' % x for x in eh_skipped))
        status["encoder-headers"] = "translated"
        status["encoder-headers:coverage"] = "translated (%d methods read; not read: %s)" % (len(eh), ", ".join(eh_skipped) or "none")
    else:
        status["encoder-headers"] = "not translated: no MIR"
    # the dispatch of process_packet on the request's command
    try:
        if mir is None or "CommandCode" not in enums:
            raise Unsupported("no MIR")
        pd = process_dispatch(fns, enums)
        L.append("/-- per command: what only that arm of process_packet's dispatch does (response encoders called, EID stores, panics) -/")
        L.append("def processDispatch : List (CommandCode × List String) := [\n%s]\n" % ",\n".join(
            "  (.%s, [%s])" % (v, ", ".join('"%s"' % t for t in ts)) for v, ts in pd))
        status["process-dispatch"] = "translated"
    except Unsupported as ex:
        status["process-dispatch"] = "not translated: " + str(ex)[:200]
    # message data of the request encoders that build it as one array literal
    if mir is not None:
        ed, skipped = encoder_data(fns)
        L.append("/-- (module::method, message data as written: parameters by MIR index, `as u8` casts of enum parameters, constants) -/")
        L.append("def encoderData : List (String × List DataElem) := [\n%s]\n" % ",\n".join(
            '  ("%s", [%s])' % (n, ", ".join(".%s %d" % e for e in es)) for n, es in ed))
        L.append("def encoderDataSkipped : List String := [%s]\n" % ", ".join('"%s"' % x.split(": ")[0] for x in skipped))
        status["encoder-data"] = "translated"
        status["encoder-data:coverage"] = "translated (%d methods resolved; not resolved: %s)" % (len(ed), "; ".join(skipped)[:400] or "none")
    else:
        status["encoder-data"] = "not translated: no MIR"
    L.append("def prog : Prog := [%s]" % ", ".join("fn_" + n for n, _ in prog))
    for i, (lname, _) in enumerate(prog):
        L.append("def idx_%s : Nat := %d" % (lname, i))
    L.append("")
    # bitfields
    try:
        for fname, struct, msb0, dflt, fields in bitfields():
            L.append("namespace %s   -- %s, %s" % (struct, fname, "MSB0" if msb0 else "LSB0"))
            for g, s, msb, lsb, vb in fields:
                L.append("def «%s» : Field := ⟨%s, %d, %d, %d⟩" % (g, "true" if msb0 else "false", msb, lsb, vb))
            L.append("def fields : List (String × String × Field) := [%s]" % ", ".join(
                '("%s", "%s", «%s»)' % (g, s, g) for g, s, _, _, _ in fields))
            L.append("end %s\n" % struct)
        L.append("def bitfieldStructs : List String := [%s]\n" % ", ".join('"%s"' % b[1] for b in bitfields()))
        status["bitfields"] = "translated"
    except Unsupported as ex:
        status["bitfields"] = "not translated: " + str(ex)[:200]
    # constants
    for name, val, text in constants():
        if val is None:
            status["const:" + name] = "not translated: initialiser is not a literal: " + text[:80]
        else:
            L.append("def %s : Nat := %d" % (name, val))
            status["const:" + name] = "translated"
    L.append("\nend Mctp.Gen")
    text = "\n".join(L) + "\n"
    os.makedirs(os.path.dirname(GEN), exist_ok=True)
    old = open(GEN).read() if os.path.exists(GEN) else None
    if old != text:
        with open(GEN, "w") as f:
            f.write(text)
    return status


if __name__ == "__main__":
    import json
    print(json.dumps(generate(), indent=1))
