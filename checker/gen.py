"""Case generators for the correspondence checks.

Every generator returns a list of (op_line, family) pairs in the line protocol shared by the
Rust executor (/verif/harness) and the Lean driver (/verif/lean/Driver.lean).  Packets for the
receive path are forged here from scratch (own bitwise CRC-8), never by the library's encoders.
All random choices come from one random.Random(seed).
"""
import random

# ----------------------------------------------------------------------------- helpers


def crc8(bs):
    c = 0
    for b in bs:
        c ^= b
        for _ in range(8):
            c = ((c << 1) ^ 7) & 0xFF if c & 0x80 else (c << 1) & 0xFF
    return c


def hx(bs):
    return "-" if len(bs) == 0 else bytes(bs).hex()


def hb(b):
    return "%02x" % (b & 0xFF)


def forge(dst7, src7, dst_eid, src_eid, typebyte, body, flags=0xC8, ver=1, count=None, cmd=0x0F,
          pec=None):
    """SMBus + transport header + message, PEC fixed unless given."""
    n = 4 + 4 + 1 + len(body) + 1
    if count is None:
        count = (n - 4) & 0xFF
    p = [(dst7 << 1) & 0xFF, cmd, count, ((src7 << 1) | 1) & 0xFF, ver & 0xFF, dst_eid, src_eid,
         flags, typebyte] + list(body)
    p.append(crc8(p) if pec is None else pec)
    return p


def refix(p):
    """recompute the PEC of a (mutated) packet"""
    return p[:-1] + [crc8(p[:-1])] if p else p


def ctrl_req(cmd, data, iid=0, d=0, rsvd=0):
    return [0x80 | (d << 6) | (rsvd << 5) | (iid & 0x1F), cmd] + list(data)


def ctrl_resp(cmd, cc, data, iid=0, d=0, rsvd=0):
    return [(d << 6) | (rsvd << 5) | (iid & 0x1F), cmd, cc] + list(data)


REQ_FIXED = {1: 2, 4: 1, 6: 1, 7: 1, 8: 3}
RESP_LEN_LIB = {1: 3, 2: 4, 3: 16, 4: 5, 8: 4, 9: 1}
MSG_TYPES = [0x00, 0x05, 0x06, 0x7E, 0x7F]


def rflags(r):
    """transport flags byte: mostly the single-packet value, otherwise any SOM/EOM/seq/TO/tag mix"""
    return r.choice([0xC8, 0xC8, 0xC8, 0x88, 0x08, 0x48, 0x00, 0xFF, 0xC0, 0xCF, r.randrange(256)])


class G:
    """accumulates op lines"""

    def __init__(self, seed):
        self.r = random.Random(seed)
        self.lines = []
        self.nctx = 0

    def add(self, line, fam):
        self.lines.append((line, fam))

    def rb(self):
        return self.r.randrange(256)

    def rbytes(self, n):
        return [self.r.randrange(256) for _ in range(n)]

    def ctx(self, addr, types=(), vendors=(), fam="ctx"):
        """vendors: list of (format, data, numeric)"""
        self.nctx += 1
        cid = "c%d" % self.nctx
        v = "-" if not vendors else ",".join("%02x.%08x.%04x" % t for t in vendors)
        self.add("ctx %s %s %s %s" % (cid, hb(addr), hx(types), v), fam)
        return cid

    def rand_vendors(self, n):
        out = []
        for _ in range(n):
            f = self.r.randrange(2)
            out.append((f, self.r.randrange(1 << 32), self.r.randrange(1 << 16)))
        return out

    def buf(self, n, fill=None):
        if fill is None:
            if n >= 14 and self.r.random() < 0.25:
                return self.stale(n)
            return self.rbytes(n)
        return [fill] * n

    def stale(self, n):
        """a buffer that still holds an older, well-formed MCTP packet (as a reused transmit or
        response buffer does), followed by filler"""
        r = self.r
        k = r.randrange(0, max(1, n - 10))
        body = ctrl_resp(r.choice([1, 2, 3, 4, 5]), 0, self.rbytes(k)) if r.random() < 0.5 else ctrl_req(r.choice([1, 2, 9, 0x10]), self.rbytes(k))
        old = forge(r.randrange(128), r.randrange(128), self.rb(), self.rb(), r.choice([0, 0, 0x7E, 0x05]), body)[:n]
        return old + [r.choice([0x00, 0xFF, 0x0F])] * (n - len(old))


# ----------------------------------------------------------------------------- encoder calls

REQ_ENC_SIMPLE = ["reqGetEid", "reqGetUuid", "reqMsgTypes", "reqPrepare", "reqDiscovery", "reqNotify",
                  "reqNetworkId", "reqQueryRate"]
STUBS = ["reqTxRate", "reqUpdateRate", "reqQueryIfaces"]
VERSION_Q = [0xFF, 0, 1, 2, 3]
HOP_TYPES = [0x00, 0x05, 0x06, 0x7E, 0x7F, 0xFF]
TYPE_NAMES = ["control", "spdm", "secured", "pci", "iana", "invalid"]


def enc_calls(g, tier, heavy=False):
    """(name, args) for every public encoder, parameters swept / randomised; valid shapes only"""
    r = g.r
    calls = []
    sweep = range(256) if (tier == "thorough" or heavy) else sorted(set(list(range(0, 256, 7)) + [0, 1, 2, 0x7F, 0x80, 0xFE, 0xFF]))
    for op in range(4):
        for e in sweep:
            calls.append(("reqSetEid", [hb(op), hb(e)]))
    for n in REQ_ENC_SIMPLE:
        calls.append((n, []))
    for q in VERSION_Q:
        calls.append(("reqVersion", [hb(q)]))
    for s in sweep:
        calls.append(("reqVendor", [hb(s)]))
        calls.append(("reqResolveEid", [hb(s)]))
        calls.append(("reqGetRouting", [hb(s)]))
    for op in range(3):
        for _ in range(6):
            calls.append(("reqAllocate", [hb(op), hb(g.rb()), hb(g.rb())]))
        for v in (0, 0xFF):
            calls.append(("reqAllocate", [hb(op), hb(v), hb(0xFF - v)]))
    for n in range(0, 11):
        for _ in range(3 if n < 8 else 1):
            calls.append(("reqRouting", [hx(g.rbytes(4 * n))]))
    calls.append(("reqRouting", [hx([0xFF] * 28)]))
    for t in HOP_TYPES:
        for _ in range(3):
            calls.append(("reqQueryHop", [hb(g.rb()), hb(t)]))
    for _ in range(8):
        calls.append(("reqResolveUuid", [hx(g.rbytes(16)), hb(g.rb())]))
    calls.append(("reqResolveUuid", [hx([0] * 16), hb(0)]))
    calls.append(("reqResolveUuid", [hx([0xFF] * 16), hb(0xFF)]))
    # vendor defined
    for f in ([0, 1] * 6 + [2, 3, 0x80, 0xFF] + ([r.randrange(2, 256) for _ in range(8)])):
        data = r.choice([0, 0xFFFFFFFF, 0x12345678, r.randrange(1 << 32), r.randrange(1 << 16), 0x1414,
                         0x00FF, 0xFF00, 0x0001_0000 | r.randrange(1 << 16)])
        m = g.rbytes(r.choice([0, 1, 2, 5, 17, 64]))
        calls.append(("vendorDefined", ["%02x.%08x.%04x" % (f, data, r.randrange(1 << 16)), hx(m)]))
    # products of special values over every pair of parameters
    SP = (0x00, 0x01, 0x7F, 0x80, 0xFE, 0xFF)
    for a_ in SP:
        for b_ in SP:
            calls.append(("reqAllocate", [hb(a_ % 3), hb(a_), hb(b_)]))
            calls.append(("reqQueryHop", [hb(a_), hb(r.choice(HOP_TYPES))]))
            calls.append(("respVendor", [hb(a_ % 6), hb(b_), hx([a_, b_, a_])]))
    for u in ([0] * 16, [0xFF] * 16, g.rbytes(16), [0] * 15 + [1], [0xFF] * 15 + [0]):
        for h_ in (0x00, 0xFF, 0x01, 0x80):
            calls.append(("reqResolveUuid", [hx(u), hb(h_)]))
        for cc in (0, 1, 5):
            calls.append(("respUuid", [hb(cc), hx(u)]))
    for (f, data, num) in ((0, 0, 0), (0, 0, 0xBEEF), (0, 0, 1), (1, 0, 0), (1, 0, 0xFFFF), (0, 0xFFFF, 0xFFFF), (1, 0xFFFFFFFF, 0), (0, 0x10000, 7)):
        for m_ in ([], [1, 2, 3]):
            calls.append(("vendorDefined", ["%02x.%08x.%04x" % (f, data, num), hx(m_)]))
    # vendor bodies that begin with what the encoder is about to emit itself, or with other headers
    for (f, data) in ((0, 0x1234), (0, 0x7E7E), (1, 0x00C0FFEE), (1, 0x7F000001), (0, 0x0F01)):
        hdr = [(data >> 8) & 0xFF, data & 0xFF] if f == 0 else [(data >> 24) & 0xFF, (data >> 16) & 0xFF, (data >> 8) & 0xFF, data & 0xFF]
        tb = 0x7E if f == 0 else 0x7F
        for msg in ([tb] + hdr + [5, 6], [tb] + hdr, hdr + [1], [tb], [tb, tb] + hdr, [0x00, 0x80, 0x02], hdr + hdr):
            calls.append(("vendorDefined", ["%02x.%08x.%04x" % (f, data, 0), hx(msg)]))
    # routing tables as a bus owner would build them: contiguous EID ranges behind one bridge,
    # single endpoints whose physical address is their EID shifted left, …
    for _ in range(40):
        n = r.randrange(1, 8)
        es = []
        first = r.randrange(8, 0x40)
        phys = r.choice([first << 1, r.randrange(256), 0x42])
        for k in range(n):
            style = r.randrange(4)
            if style == 0:
                size = r.randrange(1, 9)
                es += [0x03, size, first, phys]           # range continuing the previous one
                first = (first + size) & 0xFF
            elif style == 1:
                es += [r.choice([0x00, 0x02]), 1, first, (first << 1) & 0xFF]
                first = (first + 1) & 0xFF
            elif style == 2:
                es += [0x01, r.randrange(1, 5), first, phys]
                first = (first + r.randrange(1, 6)) & 0xFF
            else:
                es += [r.randrange(4), r.choice([0, 1, 0xFF]), r.choice([first, 0, 0xFF]), phys]
        calls.append(("reqRouting", [hx(es)]))
        if all(es[k] < 4 for k in range(0, len(es), 4)):
            calls.append(("reqRoutingNew", [hx(es)]))
    # entries built by the constructor, every physical address / EID pattern a bus owner might use
    for ph in (0x61, 0x10, 0x00, 0xFF, 0xC2):
        for first in (0x00, 0x01, 0x08, 0x30, 0xFF):
            for size in (0, 1, 2, 0xFF):
                calls.append(("reqRoutingNew", [hx([r.randrange(4), size, first, ph])]))
    # responses
    for cc in range(6):
        for rej in (0, 1):
            for al in range(3):
                calls.append(("respSetEid", [hb(cc), str(rej), hb(al)]))
        for et in range(2):
            for it in range(4):
                for f in (0, 1):
                    calls.append(("respGetEid", [hb(cc), hb(et), hb(it), str(f)]))
        calls.append(("respUuid", [hb(cc), hx(g.rbytes(16))]))
        calls.append(("respVersion", [hb(cc)]))
        for n in ([0, 1, 2, 7, 29, 30, 31, 32, 40] if cc in (0, 3) else [0, 3, 30, 31]):
            calls.append(("respMsgTypes", [hb(cc), hx(g.rbytes(n))]))
        for n in range(0, 8):
            calls.append(("respVendor", [hb(cc), hb(g.rb()), hx(g.rbytes(n))]))
            calls.append(("respVendor", [hb(cc), hb(r.choice([0, 0xFF])), hx([r.choice([0x00, 0xFF, 0x01]) for _ in range(n)])]))
        for ts in ([0], [1, 0, 0x7E], [0] * 5, [0xFF] * 30, [0] * 30, [0x7E, 0x00], list(range(30))):
            calls.append(("respMsgTypes", [hb(cc), hx(ts)]))
        calls.append(("respUuid", [hb(cc), hx([0] * 16)]))
        calls.append(("respUuid", [hb(cc), hx([0xFF] * 16)]))
    # generic writers
    for name in ("genControl", "genPci", "genIana"):
        for h in ("none", "-", hx(g.rbytes(2)), hx(g.rbytes(5))):
            for n in (0, 1, 9, 33):
                calls.append((name, [h, hx(g.rbytes(n))]))
    for t in TYPE_NAMES:
        for h in ("none", hx(g.rbytes(3))):
            for n in (0, 4, 21):
                calls.append(("genSpdm", [t, h, hx(g.rbytes(n))]))
    for s in STUBS:
        calls.append((s, []))
    return calls


def call_size(name, args):
    """upper bound of the packet the call can produce (to size buffers)"""
    tot = 16
    for a in args:
        if a not in ("none", "-") and "." not in a:
            tot += len(a) // 2
        if "." in a:
            tot += 8
    return tot


def gen_encoders(g, tier, addr_mode, bufs=("exact+", "rand")):
    """every encoder call on several contexts/destinations/buffers.
    addr_mode: 'few' | 'sweep' (all 256 src / dst for a small set of calls)"""
    r = g.r
    calls = enc_calls(g, tier)
    ctxs = []
    for a in (0x23, 0x7F, 0x00, 0x90 + r.randrange(0x60), r.randrange(128)):
        cid = g.ctx(a, g.rbytes(r.randrange(4)), g.rand_vendors(1 + r.randrange(2)))
        # distinct EIDs in both halves, different from the address
        g.add("seteid %s req %s" % (cid, hb((a + 0x31) & 0xFF)), "setup")
        g.add("seteid %s resp %s" % (cid, hb((a + 0x57) & 0xFF)), "setup")
        ctxs.append(cid)
    reps = 8 if tier == "thorough" else 3
    for rep in range(reps - 1):
        calls = calls + enc_calls(g, "quick")
    if True:
        # every stored EID value behind the response encoders
        for e in (range(256) if tier == "thorough" else list(range(0, 256, 5)) + [0xFF, 0xFE, 0x7F, 0x80]):
            cid = g.ctx(g.rb(), [], [(0, 1, 1)])
            g.add("seteid %s resp %s" % (cid, hb(e)), "setup")
            g.add("seteid %s req %s" % (cid, hb(e ^ 0xFF)), "setup")
            for cc in (0, r.randrange(1, 6)):
                g.add("enc %s %s respSetEid %s %d %s %s" % (cid, hb(g.rb()), hb(cc), r.randrange(2), hb(r.randrange(3)), hx(g.buf(20))), "eid-sweep:respSetEid")
                g.add("enc %s %s respGetEid %s %s %s %d %s" % (cid, hb(g.rb()), hb(cc), hb(r.randrange(2)), hb(r.randrange(4)), r.randrange(2), hx(g.buf(20))), "eid-sweep:respGetEid")
    addr_of = {}
    for l, f in g.lines:
        t = l.split()
        if t[0] == "ctx":
            addr_of[t[1]] = int(t[2], 16)
    for (name, args) in calls:
        cid = r.choice(ctxs)
        a = addr_of.get(cid, 0)
        # destinations include the context's own address and both stored EIDs
        dst = r.choice([0x34, 0x00, 0x7F, 0x80, 0xFF, r.randrange(256), a, (a + 0x31) & 0xFF, (a + 0x57) & 0xFF])
        if name in ("genPci", "genIana", "genSpdm", "genControl") and r.random() < 0.5:
            # the additional header as a view into the data slice itself
            data = g.rbytes(r.choice([2, 4, 9]))
            k = r.randrange(0, len(data) + 1)
            g.add("encalias %s %s %s %d %s %s" % (cid, hb(dst), name, k, hx(data), hx(g.buf(len(data) * 2 + 20))), "alias:" + name)
        if name == "vendorDefined" and r.random() < 0.6:
            # bodies that are themselves packets, or begin with this very call's headers
            nested = forge(r.randrange(128), r.randrange(128), g.rb(), g.rb(), r.choice([0, 0x7E, 0x05]), g.rbytes(r.randrange(0, 8)))
            own_tr = [0x01, dst, a, 0xC8]
            own_sm = [((dst & 0x7F) << 1) & 0xFF, 0x0F]
            for body in (nested, own_tr + g.rbytes(3), own_tr, own_sm + g.rbytes(4), [0x01, dst, a], nested[:9]):
                for f in ("00.00001234.0000", "01.00c0ffee.0000"):
                    g.add("enc %s %s vendorDefined %s %s %s" % (cid, hb(dst), f, hx(body), hx(g.buf(len(body) + 30))), "nested-body")
                g.add("enc %s %s genSpdm spdm none %s %s" % (cid, hb(dst), hx(body), hx(g.buf(len(body) + 30))), "nested-body")
        size = call_size(name, args)
        for mode in bufs:
            if mode == "exact+":
                b = g.buf(size + r.choice([0, 1, 17]), r.choice([0x00, 0xFF, None]))
            elif r.random() < 0.04:
                b = g.buf(r.choice([65535, 65536, 65537, 65536 + size, 131072]), 0x00)
            elif r.random() < 0.25:
                # large caller buffers, around the one-byte and two-byte boundaries
                b = g.buf(r.choice([255, 256, 257, 259, 260, 261, 262, 270, 276, 300, 511, 512, 513, 516, 530, 1024]) + (size if size > 250 else 0), r.choice([0x00, 0xA5]))
            else:
                b = g.buf(size + 40)
            verb = "encr" if (name.startswith("gen") and r.random() < 0.5) else "enc"
            g.add("%s %s %s %s %s %s" % (verb, cid, hb(dst), name, " ".join(args), hx(b)) if args else
                  "%s %s %s %s %s" % (verb, cid, hb(dst), name, hx(b)), "enc:" + name)
    if addr_mode == "sweep":
        reps = [("reqGetEid", []), ("respVersion", ["00"]), ("genPci", ["none", "aa55"]),
                ("genSpdm", ["spdm", "none", "01"]), ("vendorDefined", ["01.00abcdef.0000", "10"])]
        if tier == "thorough":
            reps += [("reqSetEid", ["00", "09"]), ("respGetEid", ["00", "00", "00", "0"]),
                     ("genIana", ["0102", "-"]), ("genControl", ["8002", "-"])]
        for (name, args) in reps:
            srcs = range(256) if tier == "thorough" else list(range(0, 128, 3)) + [0x7F, 0x80, 0xFF, 0xAA]
            for src in srcs:
                cid = g.ctx(src, [], [(0, 1, 1)])
                dsts = (range(256) if tier == "thorough" and name in ("reqGetEid", "respVersion") else
                        [0, 1, 0x23, 0x7F, 0x80, 0xFE, 0xFF, r.randrange(256)])
                for dst in dsts:
                    b = g.buf(40, 0)
                    g.add(("enc %s %s %s %s %s" % (cid, hb(dst), name, " ".join(args), hx(b))).replace("  ", " "),
                          "addr:" + name)
    return g


def gen_sizes(g, tier):
    """message bodies of every size from empty to beyond the SMBus limit (C04, C03, C16)"""
    r = g.r
    cid = g.ctx(0x51, [], [(0, 1, 1)])
    sizes = list(range(0, 300)) if tier == "thorough" else (list(range(0, 300, 9)) + list(range(236, 262)))
    for n in sorted(set(sizes)):
        msg = g.rbytes(n)
        dst = r.randrange(256)
        b = g.buf(n + 30, r.choice([0, 0xFF]))
        which = r.randrange(5)
        if which == 0:
            g.add("enc %s %s vendorDefined 00.0000beef.0000 %s %s" % (cid, hb(dst), hx(msg), hx(b)), "size:pci")
        elif which == 1:
            g.add("enc %s %s vendorDefined 01.deadbeef.0000 %s %s" % (cid, hb(dst), hx(msg), hx(b)), "size:iana")
        elif which == 2:
            g.add("enc %s %s genSpdm spdm none %s %s" % (cid, hb(dst), hx(msg), hx(b)), "size:spdm")
        elif which == 3:
            g.add("encr %s %s genSpdm secured 0102 %s %s" % (cid, hb(dst), hx(msg), hx(b)), "size:secured")
        else:
            g.add("enc %s %s genControl 8002 %s %s" % (cid, hb(dst), hx(msg), hx(b)), "size:control")
    # long optional headers with short data (the size check must count the header)
    for hl in (200, 247, 248, 249, 250, 251, 255, 256, 300, 65536):
        for name in ("genSpdm spdm", "genSpdm secured", "genControl", "genPci", "genIana"):
            for dl in (0, 1, 3):
                g.add("enc %s 20 %s %s %s %s" % (cid, name, hx([0xA1] * hl), hx(g.rbytes(dl)), hx([0] * min(hl + dl + 20, 400))), "size:long-header")
    # far beyond the limit: lengths that wrap a 16-bit counter back into the acceptable range
    for n in (65533, 65536, 65536 + 100, 131072 + 7):
        d = [0x11] * n
        g.add("enc %s 20 vendorDefined 00.0000beef.0000 %s %s" % (cid, hx(d), hx([0] * 64)), "size:huge")
        g.add("enc %s 20 genSpdm spdm none %s %s" % (cid, hx(d), hx([0] * 64)), "size:huge")
        g.add("enc %s 20 genControl 8002 %s %s" % (cid, hx(d), hx([0] * 64)), "size:huge")
        g.add("enc %s 20 genIana none %s %s" % (cid, hx(d), hx([0] * 64)), "size:huge")
    # exact boundaries for every writer: message length 250 / 251 (hdr + data = 249 / 250)
    for n in (247, 248, 249, 250, 251, 252, 255, 256, 259, 260, 300):
        for name, h in (("genControl", "8002"), ("genPci", "none"), ("genIana", "-"), ("genSpdm spdm", "aa")):
            hl = 0 if h in ("none", "-") else len(h) // 2
            d = g.rbytes(max(0, n - hl))
            b = g.buf(n + 20, 0x5A)
            g.add("enc %s 20 %s %s %s %s" % (cid, name, h, hx(d), hx(b)), "size:boundary")
    return g


# ----------------------------------------------------------------------------- receive path


def valid_packets(g, full=False):
    """one or more well-formed packets per message type and control command/direction
    returns list of (packet, label)"""
    r = g.r
    out = []
    for t in (0x05, 0x06, 0x7E, 0x7F):
        for n in (0, 1, 6, 20):
            out.append((forge(0x23, 0x34, 0x23, 0x34, t, g.rbytes(n)), "msg%02x" % t))
    cmds = list(range(0, 0x17)) + [0x20, 0x7F, 0xFF] if full else [0, 1, 2, 3, 4, 5, 6, 7, 8, 9, 0x0A, 0x0F, 0x14, 0x15, 0xFF]
    for cmd in cmds:
        n = REQ_FIXED.get(cmd, 0)
        out.append((forge(0x23, 0x34, 0x23, 0x34, 0x00, ctrl_req(cmd, g.rbytes(n), iid=r.randrange(32))), "req%02x" % cmd))
        m = RESP_LEN_LIB.get(cmd, r.choice([0, 2, 5]))
        out.append((forge(0x23, 0x34, 0x23, 0x34, 0x00, ctrl_resp(cmd, 0, g.rbytes(m), iid=r.randrange(32))), "resp%02x" % cmd))
    return out


def gen_decode_families(g, tier, verb="dec", ctxs=None, proc_buf=None):
    """systematic families for the decoder / processor.  verb: 'dec' or 'proc'.
    ctxs: context ids to spread the calls over (decoder must not depend on them)"""
    r = g.r
    if ctxs is None:
        ctxs = [g.ctx(0x23, [0x7E], [(0, 0x1234, 0xAB)]),
                g.ctx(0x77, [1, 2, 3], g.rand_vendors(3)),
                g.ctx(0x00, [], [(1, 0xCAFEBABE, 7)])]
        g.add("seteid %s req 42" % ctxs[1], "setup")
        g.add("seteid %s resp 99" % ctxs[1], "setup")

    def emit(p, fam):
        cid = r.choice(ctxs)
        if verb == "dec":
            g.add("dec %s %s" % (cid, hx(p)), fam)
        else:
            b = proc_buf() if proc_buf else g.buf(64 + r.randrange(40))
            g.add("proc %s %s %s" % (cid, hx(p), hx(b)), fam)

    vp = valid_packets(g, full=(tier == "thorough"))
    for p, lab in vp:
        emit(p, "valid:" + lab)
    # header byte sweeps, PEC re-fixed and stale
    stride = 1 if tier == "thorough" else 5
    for p, lab in vp[::(1 if tier == "thorough" else 3)]:
        for pos in (4, 8, 9, 10, 11, 7, 5, 6, 0, 1, 2, 3):
            if pos >= len(p) - 1:
                continue
            for v in range(0, 256, stride if pos in (4, 8, 9, 10, 11) else stride * 5 + 2):
                q = list(p)
                q[pos] = v
                emit(refix(q), "sweep%d" % pos)
                if v % (stride * 8) == 0:
                    emit(q, "sweep%d-stale" % pos)
    # count-prefixed payloads as DSP0236 allows them (several version entries, several types, …):
    # consistent and inconsistent (count, length) pairs
    for cmd, per in ((4, 4), (5, 1), (9, 4), (6, 1), (1, 1), (3, 4)):
        for k in range(0, 6):
            for extra in (0, 1, -1):
                n = max(0, 1 + per * k + extra)
                data = [k] + g.rbytes(max(0, n - 1))
                emit(forge(0x23, 0x34, 0x23, 0x34, 0, ctrl_resp(cmd, 0, data[:n])), "counted:resp%02x" % cmd)
                emit(forge(0x23, 0x34, 0x23, 0x34, 0, ctrl_req(cmd, data[:n])), "counted:req%02x" % cmd)
    # control byte (Rq, D, reserved, instance) x completion code x command
    for b9 in (0x00, 0x40, 0x20, 0x60, 0x1F, 0x5F, 0x7F):
        for cc in range(0, 8):
            for cmd, n in ((1, 3), (3, 16), (4, 5), (5, 2), (2, 4)):
                emit(forge(0x23, 0x34, 0x23, 0x34, 0, [b9, cmd, cc] + g.rbytes(n)), "ctl-byte-x-cc")
    # every value of every data byte of the fixed-length requests and responses
    for cmd, n in sorted(REQ_FIXED.items()):
        base = forge(0x23, 0x34, 0x23, 0x34, 0, ctrl_req(cmd, g.rbytes(n)))
        for k in range(n):
            for v in range(256):
                q = list(base)
                q[11 + k] = v
                emit(refix(q), "data-sweep:req%02x" % cmd)
    for cmd, n in ((1, 3), (4, 5), (3, 16)):
        base = forge(0x23, 0x34, 0x23, 0x34, 0, ctrl_resp(cmd, 0, g.rbytes(n)))
        for k in (0, n - 1):
            for v in range(0, 256, stride):
                q = list(base)
                q[12 + k] = v
                emit(refix(q), "data-sweep:resp%02x" % cmd)
    # every value of the two header-validation bytes on minimal-length packets (10..15 bytes)
    for n in range(0, 6):
        base = forge(0x23, 0x34, 0x23, 0x34, 0x05, g.rbytes(n))
        for pos in (4, 8):
            for v in range(256):
                q = list(base)
                q[pos] = v
                emit(refix(q), "minimal-sweep%d" % pos)
    # command x direction x completion code x data length
    cmds = range(256) if tier == "thorough" else list(range(0, 0x18)) + [0x40, 0x80, 0xFE, 0xFF]
    for cmd in cmds:
        for n in (range(0, 21) if tier == "thorough" else (0, 1, 2, 3, 4, 5, 16, 17)):
            emit(forge(0x10, 0x20, 0x10, 0x20, 0, ctrl_req(cmd, g.rbytes(n), iid=r.randrange(32), d=r.randrange(2), rsvd=r.randrange(2)), flags=rflags(r)), "req-len")
            for cc in (0, r.choice([1, 2, 3, 4, 5])):
                emit(forge(0x10, 0x20, 0x10, 0x20, 0, ctrl_resp(cmd, cc, g.rbytes(n), iid=r.randrange(32)), flags=rflags(r)), "resp-len")
    # fragments: a packet that opens a message (SOM, no EOM) followed on the same context by short
    # packets without SOM, for every command with a fixed length
    for cmd in (1, 4, 6, 7, 8, 2, 3):
        for first in (0x88, 0x80, 0x98):
            cid = r.choice(ctxs)
            opener = forge(0x10, 0x20, 0x10, 0x20, 0, ctrl_req(r.choice([2, 3, 5]), []), flags=first)
            for n in range(0, REQ_FIXED.get(cmd, 0) + 2):
                for second in (0x08, 0x48, 0x00, 0x18):
                    cont = forge(0x10, 0x20, 0x10, 0x20, 0, ctrl_req(cmd, g.rbytes(n)), flags=second)
                    if verb == "dec":
                        g.add("dec %s %s" % (cid, hx(opener)), "fragment:open")
                        g.add("dec %s %s" % (cid, hx(cont)), "fragment:continue")
                    else:
                        g.add("proc %s %s %s" % (cid, hx(opener), hx(proc_buf() if proc_buf else g.buf(64))), "fragment:open")
                        g.add("proc %s %s %s" % (cid, hx(cont), hx(proc_buf() if proc_buf else g.buf(64))), "fragment:continue")
    for cc in range(256):
        emit(forge(0x10, 0x20, 0x10, 0x20, 0, ctrl_resp(r.choice([1, 3, 4, 5, 6]), cc, g.rbytes(r.choice([0, 3, 16])))), "resp-cc")
    # all 255 wrong PECs on a few packets, single bit flips everywhere
    for p, lab in vp[::5][:8]:
        for x in range(1, 256):
            q = list(p)
            q[-1] ^= x
            emit(q, "wrong-pec")
    for p, lab in vp[::4][:10]:
        for i in range(len(p) * 8):
            q = list(p)
            q[i // 8] ^= 0x80 >> (i % 8)
            emit(q, "bitflip")
    # PEC computed over the wrong range: last byte = CRC of a proper prefix / of the bytes from offset 1
    for n in (12, 20, 100, 258, 259, 260, 261, 262, 300, 400):
        for t in (0x7E, 0x05, 0x00):
            body = ctrl_req(r.choice([2, 3, 5]), g.rbytes(max(0, n - 12))) if t == 0 else g.rbytes(max(0, n - 10))
            p = forge(0x10, 0x20, 0x10, 0x20, t, body)
            L = len(p)
            for k in sorted(set([L - 2, L - 3, L // 2, 255, 256, 257, 258, 259, 260, 8, 9])):
                if 0 < k < L - 1:
                    q = list(p)
                    q[-1] = crc8(q[:k])
                    emit(q, "pec-of-prefix")
            q = list(p)
            q[-1] = crc8(q[1:-1])
            emit(q, "pec-from-offset1")
            q = list(p)
            q[-1] = crc8(q)            # PEC over the packet including the (old) PEC position
            emit(q, "pec-incl-last")
    # truncations and extensions
    for p, lab in vp:
        for k in range(0, len(p)):
            emit(p[:k], "trunc")
            if k >= 9 and k % 3 == 0:
                emit(refix(p[:k]), "trunc-refixed")
        emit(p + [0], "ext0")
        emit(p + [g.rb()], "ext")
        for v in (0xFF, 0x00, p[-1], 0x01):
            for k in (1, 2, 5):
                emit(p + [v] * k, "ext-pad")
    # short strings that hit the length guards with a matching PEC
    for n in range(0, 14):
        for _ in range(12):
            q = g.rbytes(n)
            if n >= 5:
                q[4] = 1
            if n >= 9:
                q[8] = r.choice(MSG_TYPES)
            if n >= 10 and r.random() < 0.5:
                q[9] = r.choice([0x00, 0x80, 0x85])
            emit(refix(q) if r.random() < 0.7 else q, "short")
    # 9-byte packets whose type byte equals the PEC of the first eight
    for t in MSG_TYPES:
        for _ in range(40):
            q = g.rbytes(8)
            q[4] = 1
            if crc8(q) == t:
                emit(q + [t], "short9-pec-eq-type")
    # random strings of every length
    lens = range(0, 264) if tier == "thorough" else list(range(0, 40)) + list(range(40, 264, 13)) + [252, 253, 254, 255, 256, 257, 258, 259, 260]
    for n in lens:
        for _ in range(3 if tier == "thorough" else 1):
            emit(g.rbytes(n), "random")
            q = g.rbytes(n)
            if n >= 10:
                q[4] = 1
                q[8] = r.choice(MSG_TYPES)
                q[9] = r.choice([q[9], 0x80, 0x00])
                emit(refix(q), "random-wellformed")
    # the length probe on a prefix, then the whole receive buffer (packet + stray bytes) on the same context
    for p, lab in vp[::2]:
        cid = r.choice(ctxs)
        for stray in ([0x11, 0x22], [0xFF], [0x00, 0x00, 0x00], g.rbytes(4)):
            g.add("len %s %s" % (cid, hx(p[:3])), "probe-then:probe")
            if verb == "dec":
                g.add("dec %s %s" % (cid, hx(p + stray)), "probe-then:decode")
            else:
                g.add("proc %s %s %s" % (cid, hx(p + stray), hx(proc_buf() if proc_buf else g.buf(64))), "probe-then:process")
    # inputs far beyond any SMBus block: good and bad PEC
    for n in (513, 514, 600, 1024, 2048, 4096, 70000):
        for t, body in ((0x7E, g.rbytes(n - 10)), (0, ctrl_req(2, g.rbytes(n - 12))), (0, ctrl_resp(5, 0, g.rbytes(n - 13)))):
            p = forge(0x10, 0x20, 0x10, 0x20, t, body)
            emit(p, "huge-input")
            q = list(p)
            q[-1] ^= 0x01
            emit(q, "huge-input-badpec")
    # long control packets (D8: byte count arithmetic on the incoming packet)
    for n in (240, 243, 244, 245, 246, 247, 248, 249, 250, 251, 252, 300):
        emit(forge(0x10, 0x20, 0x10, 0x20, 0, ctrl_req(2, g.rbytes(n))), "long-req")
        emit(forge(0x10, 0x20, 0x10, 0x20, 0, ctrl_resp(5, 0, g.rbytes(n))), "long-resp")
        emit(forge(0x10, 0x20, 0x10, 0x20, 0x7E, g.rbytes(n + 2)), "long-pci")
    return ctxs


def gen_bursts(g, tier, verb="dec", ctxs=None):
    """bursts of every width 1-8 at every bit offset of valid packets"""
    r = g.r
    if ctxs is None:
        ctxs = [g.ctx(0x23, [0x7E], [(0, 0x1234, 0xAB)])]
    vp = valid_packets(g)
    pick = vp if tier == "thorough" else vp[::4]
    for p, lab in pick:
        nbits = len(p) * 8
        for w in range(1, 9):
            for off in range(0, nbits - w + 1, 1 if tier == "thorough" else 3):
                pats = range(1, 1 << w) if (tier == "thorough" and w <= 4) else [r.randrange(1, 1 << w) | 1 | (1 << (w - 1))]
                for pat in pats:
                    if not (pat & 1 and pat >> (w - 1) & 1):
                        continue
                    q = list(p)
                    for k in range(w):
                        if pat >> (w - 1 - k) & 1:
                            i = off + k
                            q[i // 8] ^= 0x80 >> (i % 8)
                    cid = r.choice(ctxs)
                    if verb == "dec":
                        g.add("dec %s %s" % (cid, hx(q)), "burst%d" % w)
                    else:
                        g.add("proc %s %s %s" % (cid, hx(q), hx(g.buf(64))), "burst%d" % w)
    return ctxs


def answerable_requests(g, nvendors, eid_values, full=False):
    """forged control requests the responder answers; returns list of (body, label)"""
    r = g.r
    out = []
    for e in eid_values:
        for op in (0, 1, 3):
            out.append((ctrl_req(1, [op, e], iid=r.randrange(32)), "seteid-op%d" % op))
    for cmd in (2, 3, 5):
        for n in ((0, 1, 4) if full else (0,)):
            out.append((ctrl_req(cmd, g.rbytes(n), iid=r.randrange(32)), "cmd%d" % cmd))
    for q in VERSION_Q + [7, 0x80]:
        out.append((ctrl_req(4, [q], iid=r.randrange(32)), "cmd4"))
    for s in range(nvendors):
        out.append((ctrl_req(6, [s], iid=r.randrange(32)), "cmd6"))
    return out


def gen_history(g, nops, cid, cfg, fam, eid_pool=None):
    """a random history on one context mixing assigning requests, other traffic, corrupted
    packets, decode-only calls and accessor writes"""
    r = g.r
    addr, types, vendors = cfg
    nv = len(vendors)
    recent = []
    for _ in range(nops):
        k = r.random()
        src7 = r.randrange(128)
        src_eid = r.choice([src7, r.randrange(256)])
        if k < 0.22:
            e = r.choice(eid_pool) if eid_pool else r.randrange(1, 255)
            if recent and r.random() < 0.4:
                e = r.choice(recent)      # the same value an accessor (or an earlier request) stored
            op = r.choice([0, 1, 0, 1, 3])
            p = forge(addr & 0x7F, src7, r.randrange(256), src_eid, 0, ctrl_req(1, [op, e], iid=r.randrange(32)), flags=rflags(r))
            recent.append(e)
            kind = "hist:seteid"
        elif k < 0.40:
            body, lab = r.choice(answerable_requests(g, nv, [r.randrange(1, 255)]))
            p = forge(addr & 0x7F, src7, r.randrange(256), src_eid, 0, body, flags=rflags(r))
            kind = "hist:request"
        elif k < 0.50:
            cmd = r.choice([1, 2, 3, 4, 5, 6])
            cc = r.choice([0, 0, 1, 2, 5])
            p = forge(addr & 0x7F, src7, addr, src_eid, 0, ctrl_resp(cmd, cc, g.rbytes(RESP_LEN_LIB.get(cmd, 3))))
            kind = "hist:response"
        elif k < 0.58:
            p = forge(addr & 0x7F, src7, addr, src_eid, r.choice([0x05, 0x06, 0x7E, 0x7F]), g.rbytes(r.randrange(12)))
            kind = "hist:vendor"
        elif k < 0.72:
            # corrupted / truncated Set EID request
            e = r.randrange(1, 255)
            p = forge(addr & 0x7F, src7, 0, src_eid, 0, ctrl_req(1, [r.choice([0, 1]), e]))
            m = r.randrange(5)
            if m == 0:
                p[-1] ^= r.randrange(1, 256)
            elif m == 1:
                i = r.randrange(len(p) * 8)
                p[i // 8] ^= 0x80 >> (i % 8)
            elif m == 2:
                p = p[:r.randrange(len(p))]
            elif m == 3:
                p = refix(p[:-1] + [g.rb()] + [0])       # one byte too long
            else:
                p[4] = r.choice([0, 2, 0x11])
                p = refix(p)
            kind = "hist:corrupt"
        elif k < 0.80:
            e = r.randrange(256)
            which = r.choice(["req", "resp"])
            recent.append(e)
            g.add("seteid %s %s %s" % (cid, which, hb(e)), fam + "|hist:accessor")
            continue
        elif k < 0.84:
            g.add("setuuid %s %s" % (cid, hx(g.rbytes(16))), fam + "|hist:setuuid")
            continue
        elif k < 0.90:
            e = r.randrange(1, 255)
            p = forge(addr & 0x7F, src7, 0, src_eid, 0, ctrl_req(1, [r.choice([0, 1]), e]))
            g.add("dec %s %s" % (cid, hx(p)), fam + "|hist:decode-only")
            continue
        elif k < 0.93:
            # the length probe on a partial (or whole) packet of some other length
            p = forge(addr & 0x7F, src7, 0, src_eid, 0, ctrl_req(r.choice([2, 3, 4, 1]), g.rbytes(r.choice([0, 1, 2]))))
            g.add("len %s %s" % (cid, hx(p[:r.choice([3, 4, 8, len(p)])])), fam + "|hist:probe")
            continue
        else:
            # an encoder call in between (must not change anything)
            g.add("enc %s %s reqGetEid %s" % (cid, hb(g.rb()), hx(g.buf(16))), fam + "|hist:encoder")
            continue
        g.add("proc %s %s %s" % (cid, hx(p), hx(g.buf(64 + r.randrange(24) if r.random() < 0.9 else r.choice([255, 256, 260, 270, 300, 516])))), fam + "|" + kind)
        if r.random() < 0.35:
            # observe the EID through a Get Endpoint ID request
            q = forge(addr & 0x7F, src7, 0, src_eid, 0, ctrl_req(2, [], iid=r.randrange(32)))
            g.add("proc %s %s %s" % (cid, hx(q), hx(g.buf(64))), fam + "|hist:geteid")


def gen_state_probes(g, tier, with_decode=False):
    """state left behind by an earlier call: special EID values assigned by packet or accessor, then
    every answerable request (and some other traffic) from sources that coincide with that state"""
    r = g.r
    for addr in (0x23, 0xFF, 0x00):
        for e in (0x00, 0xFF, 0x01, 0xFE, addr, 0x56):
            for how in ("packet", "accessor-both", "accessor-req", "accessor-resp"):
                vendors = g.rand_vendors(2)
                cid = g.ctx(addr, [0x7E, 0x00, 0x01], vendors)
                if how == "packet":
                    p = forge(addr & 0x7F, 0x34, 0, 0x34, 0, ctrl_req(1, [r.choice([0, 1]), e], iid=r.randrange(32)))
                    g.add("proc %s %s %s" % (cid, hx(p), hx(g.buf(64))), "state:assign")
                else:
                    if how in ("accessor-both", "accessor-req"):
                        g.add("seteid %s req %s" % (cid, hb(e)), "state:accessor")
                    if how in ("accessor-both", "accessor-resp"):
                        g.add("seteid %s resp %s" % (cid, hb(e)), "state:accessor")
                for src_eid in (e, addr, 0x34, e ^ 0x80):
                    for body, lab in answerable_requests(g, len(vendors), [e if e not in (0,) else 9]):
                        p = forge(addr & 0x7F, src_eid & 0x7F, r.choice([e, addr, 0x99]), src_eid, 0, body)
                        g.add("proc %s %s %s" % (cid, hx(p), hx(g.buf(64))), "state:request:" + lab)
                        if with_decode and r.random() < 0.3:
                            g.add("dec %s %s" % (cid, hx(p)), "state:decode")
                    q = forge(addr & 0x7F, 0x11, r.choice([e, 0x77]), src_eid, r.choice([0x05, 0x06, 0x7E, 0x7F]), g.rbytes(3))
                    g.add("proc %s %s %s" % (cid, hx(q), hx(g.buf(64))), "state:vendor")
                    if with_decode:
                        g.add("dec %s %s" % (cid, hx(q)), "state:decode")
                    q = forge(addr & 0x7F, 0x11, r.choice([e, 0x77]), src_eid, 0, ctrl_resp(r.choice([1, 3, 4, 5, 6]), 0, g.rbytes(r.choice([3, 16, 5]))))
                    g.add("proc %s %s %s" % (cid, hx(q), hx(g.buf(64))), "state:response")


def gen_sweeps(g, verb="dec", n_templates=6):
    """thorough tier: exhaustive two-byte sweeps (65 536 variants each, PEC re-fixed) over pairs of
    header / control positions of valid packets, compared by digest"""
    r = g.r
    templ = [forge(0x23, 0x34, 0x23, 0x34, 0, ctrl_req(1, [0, 9])),
             forge(0x23, 0x34, 0x23, 0x34, 0, ctrl_req(6, [0])),
             forge(0x23, 0x34, 0x23, 0x34, 0, ctrl_resp(3, 0, g.rbytes(16))),
             forge(0x23, 0x34, 0x23, 0x34, 0, ctrl_resp(1, 0, [0, 9, 0])),
             forge(0x23, 0x34, 0x23, 0x34, 0x7E, g.rbytes(4)),
             forge(0x23, 0x34, 0x23, 0x34, 0, ctrl_req(2, []))][:n_templates]
    pairs = [(4, 8), (8, 9), (9, 10), (10, 11), (9, 11), (11, 12), (4, 10), (8, 10)]
    if verb == "dec":
        for p in templ:
            for (i, j) in pairs:
                if j < len(p) - 1:
                    g.add("decsweep %s %d %d fix" % (hx(p), i, j), "sweep:%d,%d" % (i, j))
            g.add("decsweep %s %d %d stale" % (hx(p), 10, len(p) - 1), "sweep:cmd,pec")
            g.add("decsweep %s %d %d stale" % (hx(p), 8, len(p) - 1), "sweep:type,pec")
    else:
        cid = g.ctx(0x23, [0x7E, 0x01], g.rand_vendors(3))
        for p in templ[:3]:
            for (i, j) in ((10, 11), (9, 10), (11, 12)):
                if j < len(p) - 1:
                    g.add("procsweep %s %s %d %d %s" % (cid, hx(p), i, j, hx([0x5A] * 64)), "procsweep:%d,%d" % (i, j))


def resp_len(cmd, types, vendors, sel=0):
    """total length of the response the responder writes for an answerable request"""
    if cmd in (1, 2):
        return 16
    if cmd == 3:
        return 29
    if cmd == 4:
        return 18
    if cmd == 5:
        return 14 + len(types)
    if cmd == 6:
        return 19 if vendors[sel][0] == 0 else 21
    return 64


def gen_exact_buffers(g, tier):
    """answerable requests processed into response buffers of exactly the response length, one more,
    one less (the last must not succeed), for several configurations"""
    r = g.r
    for (addr, types, vendors) in [(0x23, [0x7E], [(0, 0x1234, 0xAB), (1, 0xC0FFEE01, 2)]),
                                   (0x41, g.rbytes(30), g.rand_vendors(3)), (0x05, [], [(1, 1, 1)]),
                                   (0x6C, g.rbytes(r.randrange(1, 30)), g.rand_vendors(2))]:
        cid = g.ctx(addr, types, vendors)
        for rep in range(2):
            for body, lab in answerable_requests(g, len(vendors), [0x56, 0x01]):
                cmd = body[1]
                L = resp_len(cmd, types, vendors, body[2] if cmd == 6 else 0)
                for bl in (L, L + 1, L, L - 1):
                    p = forge(addr & 0x7F, 0x34, r.choice([addr, 0x56]), 0x34, 0, body)
                    g.add("proc %s %s %s" % (cid, hx(p), hx(g.buf(bl, r.choice([0x00, 0xFF, None])))), "exact-buffer:" + lab)


def gen_repeats(g, tier, kinds):
    """the same operation many times on one context (counters, caches, anything that depends on the
    number of calls so far): 70 000 repetitions cross every 16-bit counter"""
    r = g.r
    N = 70000
    cid = g.ctx(0x23, [0x7E, 0x01], [(0, 0x1234, 0xAB), (1, 0x00C0FFEE, 7)])
    b64 = hx([0] * 64)
    if "proc" in kinds:
        for body in (ctrl_req(2, []), ctrl_req(4, [0xFF]), ctrl_req(5, []), ctrl_req(3, []), ctrl_req(6, [1]), ctrl_req(1, [0, 0x33])):
            g.add("repeat %d proc %s %s %s" % (N, cid, hx(forge(0x23, 0x34, 0x23, 0x34, 0, body)), b64), "repeat:proc")
        g.add("repeat %d proc %s %s %s" % (N, cid, hx(forge(0x23, 0x34, 0x23, 0x34, 0x7F, [0, 0xC0, 0xFF, 0xEE, 1, 2])), b64), "repeat:proc-vendor")
        g.add("repeat %d proc %s %s %s" % (N, cid, hx(forge(0x23, 0x34, 0x23, 0x34, 0, ctrl_resp(4, 0, [1, 0xF1, 0xF3, 0xF1, 0]))), b64), "repeat:proc-response")
    if "dec" in kinds:
        good = forge(0x23, 0x34, 0x23, 0x34, 0, ctrl_req(2, []))
        bad = list(good)
        bad[-1] ^= 0x55
        for p in (good, bad, forge(0x23, 0x34, 0x23, 0x34, 0x0B, [1, 2]), forge(0x23, 0x34, 0x23, 0x34, 0x85, [1, 2]), good[:7]):
            g.add("repeat %d dec %s %s" % (N, cid, hx(p)), "repeat:dec")
        g.add("repeat %d len %s %s" % (N, cid, hx(good[:3])), "repeat:len")
        g.add("repeat %d len %s %s" % (N, cid, hx([0x46, 0x0E, 0x08])), "repeat:len")
    if "enc" in kinds:
        for call in ("reqGetEid", "reqSetEid 00 09", "reqDiscovery", "respVersion 00", "respGetEid 00 00 00 0",
                     "vendorDefined 00.00001234.0000 0102", "vendorDefined 01.00c0ffee.0000 0102",
                     "genSpdm spdm none 0102", "genControl 8002 -", "reqSetEid 00 ff", "vendorDefined 02.00000001.0000 01"):
            g.add("repeat %d enc %s 34 %s %s" % (N, cid, call, hx([0] * 40)), "repeat:enc")
        big = hx([0x5A] * 247)
        g.add("repeat %d enc %s 34 vendorDefined 00.00001234.0000 %s %s" % (2000000 if tier == "thorough" else N, cid, big, hx([0] * 259)), "repeat:enc-max")
    if "view" in kinds:
        g.add("repeat %d view bfb ff" % N, "repeat:view")
        g.add("repeat %d view tfb 11000000 01" % N, "repeat:view")
        g.add("repeat %d conv cmd 15" % N, "repeat:view")
        if tier == "thorough":
            # every 32-bit counter on the refusal paths of the two validators (≈ 4 min)
            g.add("repeat 4300000000 view bfb ff", "repeat:view-2^32")


def gen_relations(g, verb, ctxs, proc_buf=None):
    """relations between header fields that one-byte-at-a-time sweeps never produce: equal endpoint
    IDs, addresses equal to EIDs, the same bit wrong in two bytes, flag combinations, …"""
    r = g.r

    def emit(p, fam):
        cid = r.choice(ctxs)
        if verb == "dec":
            g.add("dec %s %s" % (cid, hx(p)), fam)
        else:
            g.add("proc %s %s %s" % (cid, hx(p), hx(proc_buf() if proc_buf else g.buf(64))), fam)
    bodies = [(0, ctrl_req(2, [])), (0, ctrl_req(1, [0, 0x21])), (0, ctrl_resp(4, 0, [1, 0xF1, 0xF3, 0xF1, 0])), (0x7E, [0x12, 0x34, 9]), (0x05, [1, 2, 3])]
    for t, body in bodies:
        for flags in (0xC8, 0x00, 0x40, 0x80, 0x08, 0x48, 0x88, 0xC0, 0x07, 0x47, 0x30, 0xFF):
            for e in (0x01, 0x22, 0x7F, 0x80, 0xFE, 0x00, 0xFF):
                for (a7, s7) in ((e & 0x7F, e & 0x7F), (0x10, e & 0x7F), (e >> 1, e >> 1)):
                    emit(forge(a7, s7, e, e, t, body, flags=flags), "relation:dst=src")
                emit(forge(0x10, 0x20, e, (e + 1) & 0xFF, t, body, flags=flags), "relation:src=dst+1")
        # the same bit wrong in two validation bytes at once
        base = forge(0x23, 0x34, 0x23, 0x34, t, body)
        for bit in range(8):
            for (i, j) in ((4, 8), (4, 9), (8, 9), (4, 7), (7, 8), (9, 10), (10, 11)):
                if j < len(base) - 1:
                    q = list(base)
                    q[i] ^= 1 << bit
                    q[j] ^= 1 << bit
                    emit(refix(q), "relation:same-bit-%d-%d" % (i, j))
    # products of special values: destination EID x source EID x flags x first control byte
    special = (0x00, 0xFF, 0x23, 0x7F, 0x80, 0x10)
    for de in special:
        for se in special:
            for flags in (0xC8, 0x08, 0x88, 0x00):
                for b9, rest in ((0x80, [2]), (0xC0, [2]), (0xA0, [2]), (0xDF, [2]), (0x80, [1, 0, 0x31]), (0xC0, [1, 1, 0x32]), (0xC0, [5]),
                                 (0x00, [4, 0, 1, 0xF1, 0xF3, 0xF1, 0]), (0x40, [4, 0, 1, 0xF1, 0xF3, 0xF1, 0])):
                    emit(forge(0x23, 0x34, de, se, 0, [b9] + rest, flags=flags), "relation:special-product")


def gen_mirror(g, tier):
    """traffic that mirrors the context's own state back at it: requests and responses of every
    command whose data are the context's own EID, UUID, message types and vendor sets, from sources
    and to destinations equal to its EID / address / something else, before and after the state was
    set; each followed by observations of the state (duplicate-detection logic, loop-back guards, …)"""
    r = g.r
    T = tier == "thorough"
    for (addr, eid, uuid, types, vendors) in [(0x23, 0x47, list(range(0x10, 0x20)), [0x7E, 0x05], [(0, 0x1234, 0xAB), (1, 0x00C0FFEE, 7)]),
                                              (0x62, 0x62, [0xA5] * 16, [], [(1, 0xDEADBEEF, 3)]),
                                              (g.rb() | 1, 0x09, g.rbytes(16), g.rbytes(3), g.rand_vendors(2))]:
        cid = g.ctx(addr, types, vendors)
        observe = [ctrl_req(2, []), ctrl_req(3, [])]
        for phase in range(3):
            if phase == 1:
                g.add("setuuid %s %s" % (cid, hx(uuid)), "mirror:setup")
            if phase == 2:
                g.add("proc %s %s %s" % (cid, hx(forge(addr & 0x7F, 0x31, eid, 0x31, 0, ctrl_req(1, [0, eid]))), hx([0] * 64)), "mirror:setup")
            v0 = vendors[0]
            vbytes = ([v0[1] >> 8 & 0xFF, v0[1] & 0xFF] if v0[0] == 0 else [v0[1] >> 24 & 0xFF, v0[1] >> 16 & 0xFF, v0[1] >> 8 & 0xFF, v0[1] & 0xFF]) + [v0[2] >> 8, v0[2] & 0xFF]
            bodies = [ctrl_resp(2, 0, [eid, 0, 0]), ctrl_resp(2, 0, [eid, 0x10, 0]), ctrl_resp(3, 0, uuid), ctrl_resp(5, 0, [len(types)] + list(types)),
                      ctrl_resp(6, 0, [0xFF, v0[0]] + vbytes), ctrl_resp(1, 0, [0, eid, 0]), ctrl_resp(4, 0, [1, 0xF1, 0xF3, 0xF1, 0]),
                      ctrl_req(1, [0, eid]), ctrl_req(1, [1, eid]), ctrl_req(1, [0, addr]), ctrl_req(3, []) + uuid, ctrl_req(2, [])]
            srcs = [eid, addr, 0x31] + ([0, 0xFF] if T else [])
            dsts = [eid, addr, 0x00] + ([0xFF, 0x31] if T else [])
            for body in bodies:
                for se in srcs:
                    for de in dsts:
                        for s7 in ((se & 0x7F, 0x31) if T else (se & 0x7F,)):
                            p = forge(addr & 0x7F, s7, de, se, 0, body)
                            g.add("proc %s %s %s" % (cid, hx(p), hx(g.buf(64))), "mirror:p%d" % phase)
                            ob = r.choice(observe)
                            g.add("proc %s %s %s" % (cid, hx(forge(addr & 0x7F, 0x31, 0x00, 0x31, 0, ob)), hx([0] * 64)), "mirror:observe")


def gen_own_config(g, tier):
    """messages that carry the context's own configured identifiers (vendor IDs, message types, EIDs,
    address) in their payload: processing must still agree with decoding"""
    r = g.r
    for vendors in ([(1, 0x00C0FFEE, 7), (0, 0x1234, 1)], [(1, 0x0000BEEF, 1)], [(0, 0xBEEF, 2), (1, 0xDEADBEEF, 3), (1, 1, 1)]):
        addr = g.rb()
        cid = g.ctx(addr, [0x7E, 0x7F], vendors)
        for (f, data, num) in vendors:
            for pay in ([(data >> 24) & 0xFF, (data >> 16) & 0xFF, (data >> 8) & 0xFF, data & 0xFF, 1, 2, 3],
                        [(data >> 8) & 0xFF, data & 0xFF, 9, 9], [(data >> 24) & 0xFF, (data >> 16) & 0xFF, (data >> 8) & 0xFF, data & 0xFF],
                        [f, (data >> 8) & 0xFF, data & 0xFF, num >> 8, num & 0xFF]):
                for t in (0x7F, 0x7E, 0x05):
                    p = forge(addr & 0x7F, 0x34, addr, 0x34, t, pay)
                    g.add("proc %s %s %s" % (cid, hx(p), hx(g.buf(64))), "own-config:vendor")
                    g.add("dec %s %s" % (cid, hx(p)), "own-config:vendor-dec")


def gen_responses(g, tier):
    """responses written by process_packet are encoded packets too (C03, C04, C05): answerable
    requests with every instance id, before and after an EID was assigned"""
    r = g.r
    for (addr, types, vendors) in [(0x23, [0x7E], [(0, 0x1234, 0xAB)]), (0xE1, g.rbytes(7), g.rand_vendors(3))]:
        cid = g.ctx(addr, types, vendors)
        for rnd_ in range(2):
            for body, lab in answerable_requests(g, len(vendors), [0x56, 0xFE, 0x01]):
                for iid in (range(32) if tier == "thorough" else (0, 1, 5, 0x1F, r.randrange(32))):
                    b = list(body)
                    b[0] = (b[0] & 0xE0) | iid
                    src = r.randrange(128)
                    p = forge(addr & 0x7F, src, r.randrange(256), r.choice([src, r.randrange(256)]), 0, b)
                    g.add("proc %s %s %s" % (cid, hx(p), hx(g.buf(r.choice([64, 65, 66, 69, 128, 256, 260, 262, 275, 300, 516])))), "response:" + lab)
            g.add("seteid %s resp %s" % (cid, hb(0x40 + rnd_)), "setup")
            g.add("seteid %s req %s" % (cid, hb(0x50 + rnd_)), "setup")


# ----------------------------------------------------------------------------- per property


def gen_for(prop, tier, seed):
    g = G(seed)
    r = g.r
    T = tier == "thorough"
    if prop in ("C03", "C05", "C06", "C07", "C08"):
        gen_repeats(g, tier, ("enc",))
        gen_encoders(g, tier, "sweep" if prop in ("C05",) else "few")
        gen_sizes(g, tier)
        if prop in ("C03", "C05"):
            gen_responses(g, tier)
        if prop == "C08":
            cid = g.ctx(0x44, [], [(0, 1, 1)])
            ids = range(65536) if T else list(range(0, 65536, 17)) + [0x1414, 0x00FF, 0xFF00, 0xFFFF, 0x0100, 0x0001]
            for v in ids:
                g.add("enc %s 21 vendorDefined 00.%08x.0000 a1 %s" % (cid, (r.randrange(1 << 16) << 16) | v, hx([0] * 16)), "pci-id")
            for _ in range(4000 if T else 600):
                v = r.choice([r.randrange(1 << 32), 1 << r.randrange(32), 0xFF << (8 * r.randrange(4))])
                g.add("enc %s 21 vendorDefined 01.%08x.0000 b2 %s" % (cid, v & 0xFFFFFFFF, hx([0] * 16)), "iana-id")
            for f in range(256):
                g.add("enc %s 21 vendorDefined %02x.00c0ffee.0000 c3 %s" % (cid, f, hx([0x77] * 16)), "format")
    elif prop == "C04":
        gen_repeats(g, tier, ("enc",))
        gen_encoders(g, tier, "sweep")
        gen_sizes(g, tier)
        gen_responses(g, tier)
        # all 128 x 128 address pairs for one encoder (thorough: three)
        for name, args in ([("reqGetEid", "")] + ([("respVersion", "00 "), ("genPci", "none 0102 ")] if T else [])):
            for src in range(128):
                cid = g.ctx(src, [], [(0, 1, 1)])
                for dst in range(128):
                    g.add("enc %s %s %s %s%s" % (cid, hb(dst), name, args, hx([0] * 20)), "pairs:" + name)
    elif prop == "C16":
        gen_repeats(g, tier, ("enc",))
        gen_encoders(g, tier, "few", bufs=("exact+", "rand", "exact+"))
        gen_sizes(g, tier)
        cid = g.ctx(0x31, [], [(0, 1, 1)])
        for e in (0x00, 0x01, 0xFE, 0xFF):
            for op in range(4):
                g.add("enc %s 22 reqSetEid %s %s %s" % (cid, hb(op), hb(e), hx(g.buf(20))), "boundary:eid")
        for n in (6, 7, 8, 9, 63, 64, 65, 255, 256, 257, 262, 263, 264, 512, 519):
            g.add("enc %s 22 reqRouting %s %s" % (cid, hx(g.rbytes(4 * n)), hx(g.buf(4 * n + 20))), "boundary:routing")
        for n in (29, 30, 31, 32, 255, 256, 300):
            g.add("enc %s 22 respMsgTypes 00 %s %s" % (cid, hx(g.rbytes(n)), hx(g.buf(n + 20))), "boundary:types")
        for f in (0, 1, 2, 255):
            g.add("enc %s 22 vendorDefined %02x.00000001.0000 aa %s" % (cid, f, hx(g.buf(24))), "boundary:format")
    elif prop == "C01":
        gen_encoders(g, tier, "few", bufs=("exact+",))
        gen_sizes(g, tier)
    elif prop in ("C09",):
        c9 = gen_decode_families(g, tier, "dec")
        gen_relations(g, "dec", c9)
        gen_repeats(g, tier, ("dec",))
        gen_state_probes(g, tier, with_decode=True)
        # the outcome must not depend on earlier calls: probe / decode / process something else first
        cid = g.ctx(0x23, [0x7E], [(0, 0x1234, 0xAB)])
        vp = valid_packets(g)
        for p, lab in vp:
            q, _ = r.choice(vp)
            which = r.randrange(4)
            if which == 0:
                g.add("len %s %s" % (cid, hx(q[:3])), "prior:probe-partial")
            elif which == 1:
                g.add("len %s %s" % (cid, hx(q)), "prior:probe-whole")
            elif which == 2:
                g.add("dec %s %s" % (cid, hx(q)), "prior:decode")
            else:
                g.add("proc %s %s %s" % (cid, hx(q), hx(g.buf(64))), "prior:process")
            g.add("dec %s %s" % (cid, hx(p)), "after-prior:" + lab)
        if T:
            gen_sweeps(g, "dec")
    elif prop == "C10":
        gen_mirror(g, tier)
        ctxs = gen_decode_families(g, tier, "dec")
        gen_decode_families(g, tier, "proc", ctxs=ctxs)
        gen_relations(g, "dec", ctxs)
        gen_relations(g, "proc", ctxs)
        gen_repeats(g, tier, ("proc", "dec", "view"))
        for p, lab in valid_packets(g):
            for k in range(0, len(p) + 1):
                g.add("len %s" % hx(p[:k]), "len-trunc")
        for n in range(0, 8):
            for _ in range(8):
                g.add("len %s" % hx(g.rbytes(n)), "len-random")
        for v in range(256):
            g.add("len %s" % hx([g.rb(), 0x0F, v]), "len-count")
            g.add("len %s" % hx([g.rb(), v, g.rb()] + g.rbytes(r.randrange(3))), "len-command")
            g.add("len %s" % hx([v, 0x0F, r.choice([0, 0xFB, 0xFC, 0xFF])] + g.rbytes(2)), "len-addr")
        gen_state_probes(g, tier, with_decode=True)
        cfg = (0x2C, [0x7E, 0x01], g.rand_vendors(2))
        cid0 = g.ctx(*cfg)
        gen_history(g, 2000 if T else 600, cid0, cfg, "long")
        if T:
            gen_sweeps(g, "dec")
            gen_sweeps(g, "proc")
        # every selector / operation value on a validly configured context
        cid = g.ctx(0x42, [0x7E, 0x7F], g.rand_vendors(3))
        for v in range(256):
            g.add("proc %s %s %s" % (cid, hx(forge(0x42, 0x11, 0x42, 0x11, 0, ctrl_req(6, [v]))), hx(g.buf(64))), "selector")
            g.add("proc %s %s %s" % (cid, hx(forge(0x42, 0x11, 0x42, 0x11, 0, ctrl_req(1, [v, 9]))), hx(g.buf(64))), "operation")
            g.add("proc %s %s %s" % (cid, hx(forge(0x42, 0x11, 0x42, 0x11, 0, ctrl_req(v, g.rbytes(REQ_FIXED.get(v, 0))))), hx(g.buf(64))), "command")
    elif prop == "C02":
        ctxs = gen_decode_families(g, "quick", "dec")
        gen_decode_families(g, "quick", "proc", ctxs=ctxs)
        gen_relations(g, "dec", ctxs)
        gen_repeats(g, tier, ("dec",))
        gen_bursts(g, tier, "dec", ctxs)
        gen_bursts(g, "quick", "proc", ctxs)
        if T:
            gen_sweeps(g, "dec", n_templates=3)
        # a forged Set EID with a wrong PEC, then observe the EID
        for _ in range(200 if T else 40):
            cid = g.ctx(g.rb(), [], [(0, 1, 1)])
            e0 = r.randrange(1, 255)
            g.add("proc %s %s %s" % (cid, hx(forge(1, 2, 3, 4, 0, ctrl_req(1, [0, e0]))), hx(g.buf(64))), "inert:assign")
            p = forge(1, 2, 3, 4, 0, ctrl_req(1, [r.choice([0, 1]), r.randrange(1, 255)]))
            p[-1] ^= r.randrange(1, 256)
            g.add("proc %s %s %s" % (cid, hx(p), hx(g.buf(64))), "inert:bad-pec")
            g.add("proc %s %s %s" % (cid, hx(forge(1, 2, 3, 4, 0, ctrl_req(2, []))), hx(g.buf(64))), "inert:observe")
    elif prop == "C11":
        gen_mirror(g, tier)
        r2 = random.Random(seed + 1)

        def pb():
            n = r2.choice([64, 65, 80, 128, 300])
            return [r2.randrange(256) for _ in range(n)]
        c11 = gen_decode_families(g, tier, "proc", proc_buf=pb)
        gen_relations(g, "proc", c11, proc_buf=pb)
        gen_repeats(g, tier, ("proc",))
        gen_own_config(g, tier)
        gen_state_probes(g, tier)
        gen_exact_buffers(g, tier)
        cfg = (0x2B, [0x7E, 0x01], g.rand_vendors(2))
        cid = g.ctx(*cfg)
        gen_history(g, 2000 if T else 600, cid, cfg, "long")
        # everything that is not an accepted request must leave ANY buffer alone, however small
        for n in list(range(0, 20)) + [31, 32, 63]:
            for p, lab in valid_packets(g):
                if lab.startswith("req"):
                    p = list(p)
                    p[-1] ^= 0x5A          # requests only with a broken PEC here
                    lab = "badpec-" + lab
                g.add("proc %s %s %s" % (cid, hx(p), hx(g.buf(n))), "smallbuf:" + lab[:8])
        if T:
            gen_sweeps(g, "proc")
    elif prop == "C12":
        gen_repeats(g, tier, ("proc",))
        gen_state_probes(g, tier)
        gen_exact_buffers(g, tier)
        resp_cfgs = [(0x23, [0x7E], [(0, 0x1234, 0xAB)]), (0x7F, g.rbytes(30), g.rand_vendors(4)),
                     (0x80 | r.randrange(128), [], g.rand_vendors(1)), (0x00, g.rbytes(5), g.rand_vendors(16))]
        for (addr, types, vendors) in resp_cfgs:
            cid = g.ctx(addr, types, vendors)
            eids = range(1, 255) if T else list(range(1, 255, 11)) + [1, 0xFE]
            reqs = answerable_requests(g, len(vendors), eids, full=T)
            srcs = range(128) if T else list(range(0, 128, 9)) + [0x7F]
            for src7 in srcs:
                for body, lab in (r.sample(reqs, min(len(reqs), 120 if src7 % 16 else 400)) if T else r.sample(reqs, min(len(reqs), 14))):
                    for iid in (range(32) if (T and src7 % 16 == 0) else [r.randrange(32), 0]):
                        b = list(body)
                        b[0] = (b[0] & 0xE0) | iid | (r.choice([0, 0x40]) if r.random() < 0.2 else 0) | (0x20 if r.random() < 0.1 else 0)
                        p = forge(addr & 0x7F, src7, r.randrange(256), src7, 0, b)
                        g.add("proc %s %s %s" % (cid, hx(p), hx(g.buf(64 + r.randrange(8) if r.random() < 0.8 else r.choice([256, 260, 265, 276, 300, 516])))), "answer:" + lab)
            # requester whose EID differs from its SMBus address (outside the stated hypothesis, still compared)
            for _ in range(30):
                body, lab = r.choice(answerable_requests(g, len(vendors), [7]))
                p = forge(addr & 0x7F, r.randrange(128), r.randrange(256), r.randrange(256), 0, body)
                g.add("proc %s %s %s" % (cid, hx(p), hx(g.buf(64))), "answer-foreign:" + lab)
    elif prop == "C13":
        gen_repeats(g, tier, ("proc",))
        gen_mirror(g, tier)
        c13 = [g.ctx(0x23, [0x7E], [(0, 0x1234, 0xAB)]), g.ctx(0x10, [], g.rand_vendors(2))]
        gen_relations(g, "proc", c13)
        gen_state_probes(g, tier)
        gen_exact_buffers(g, tier)
        # assignments processed into buffers too small for the answer: whatever the call does, both
        # halves must still move together
        for bl in list(range(0, 16)) + [20, 40]:
            cid = g.ctx(0x23, [], [(0, 1, 1)])
            g.add("seteid %s req 21" % cid, "setup")
            g.add("seteid %s resp 21" % cid, "setup")
            for op in (0, 1, 3):
                pk = forge(0x23, 0x34, 0x23, 0x34, 0, ctrl_req(1, [op, 0x56 + op]))
                g.add("proc %s %s %s" % (cid, hx(pk), hx(g.buf(bl))), "tiny-buffer:seteid")
                g.add("proc %s %s %s" % (cid, hx(forge(0x23, 0x34, 0x23, 0x34, 0, ctrl_req(2, []))), hx(g.buf(64))), "tiny-buffer:observe")
        # one long history on a single context (anything that depends on the number of calls so far)
        cfg = (0x2A, [0x7E], g.rand_vendors(3))
        cid = g.ctx(*cfg)
        gen_history(g, 3000 if T else 700, cid, cfg, "long")
        nh, no = (5000, 120) if T else (400, 40)
        for i in range(nh):
            addr = g.rb()
            cfg = (addr, g.rbytes(r.randrange(5)), g.rand_vendors(1 + r.randrange(3)))
            cid = g.ctx(*cfg)
            gen_history(g, r.randrange(1, no + 1), cid, cfg, "h%d" % i)
        # every EID value through both assigning operations
        cid = g.ctx(0x15, [], [(0, 1, 1)])
        for e in range(256):
            for op in (0, 1):
                g.add("proc %s %s %s" % (cid, hx(forge(0x15, 9, 0, 9, 0, ctrl_req(1, [op, e]))), hx(g.buf(64))), "all-eids")
                g.add("proc %s %s %s" % (cid, hx(forge(0x15, 9, 0, 9, 0, ctrl_req(2, []))), hx(g.buf(64))), "all-eids-observe")
    elif prop == "C14":
        gen_exact_buffers(g, tier)
        gen_state_probes(g, tier)
        # configurations with repeated sets (equal to the last one, to the first one, all equal)
        A, Bv, Cv = (0, 0x1234, 7), (1, 0xCAFE0001, 9), (0, 0x1234, 8)
        Z, Z1 = (0, 0, 0), (1, 0, 0)
        for vendors in ([A, Bv, A], [A, A], [A, A, A, A], [Bv, A, Bv, A], [A, Cv, A, Cv, A], [Bv, Bv, A],
                        [A, Z], [A, Bv, Z, Z], [Z, A], [Z], [Z, Z, Z], [A, Z1], [Z1, Z], [A, Z, Bv], [(0, 0, 1), Z], [(0, 0xFFFF, 0xFFFF), (1, 0xFFFFFFFF, 0xFFFF)]):
            for bl in (64, 260, 300, 516):
                cid = g.ctx(0x31, [], vendors)
                for sel in list(range(len(vendors))) + [0, len(vendors) - 1, 1 % len(vendors)]:
                    p = forge(0x31, 0x11, 0x31, 0x11, 0, ctrl_req(6, [sel], iid=r.randrange(32)))
                    g.add("proc %s %s %s" % (cid, hx(p), hx(g.buf(bl))), "walk-duplicates")
        for n in (list(range(1, 17)) + ([32, 64, 128, 200, 254, 255] if T else [255])):
            for rep in range(6 if T and n <= 16 else 2):
                vendors = g.rand_vendors(n)
                addr = g.rb()
                cid = g.ctx(addr, g.rbytes(2), vendors)
                order = list(range(n))
                if rep % 2 == 1:
                    r.shuffle(order)
                if rep >= 2:
                    order = order + r.sample(order, min(n, 5))
                for s in order:
                    p = forge(addr & 0x7F, 0x11, addr, 0x11, 0, ctrl_req(6, [s], iid=r.randrange(32)))
                    g.add("proc %s %s %s" % (cid, hx(p), hx(g.buf(r.choice([64, 64, 65, 128, 255, 256, 260, 270, 300, 520])))), "walk%d" % min(n, 17))
                    if r.random() < 0.2:
                        gen_history(g, 1, cid, (addr, [], vendors), "walk-interleave")
    elif prop == "C15":
        gen_mirror(g, tier)
        gen_repeats(g, tier, ("proc",))
        # UUID updates that differ only in their tail / head, from and to the nil UUID
        cid = g.ctx(0x4D, [0x7E], [(0, 1, 1)])
        headfix = g.rbytes(8)
        for u in ([0] * 8 + g.rbytes(8), [0] * 15 + [1], headfix + g.rbytes(8), headfix + g.rbytes(8), headfix + [0] * 8,
                  g.rbytes(8) + headfix, [0] * 16, [0xFF] * 16, [0xFF] * 15 + [0xFE], [0] * 16,
                  g.rbytes(16), [0xFF] * 16, g.rbytes(16), [0] * 16, g.rbytes(16), [0x00] * 15 + [0xFF], [0xFF] * 16, [0xFF] * 16, [1] * 16, [0] * 16, [0xFF] * 16):
            g.add("setuuid %s %s" % (cid, hx(u)), "uuid-relation:set")
            g.add("proc %s %s %s" % (cid, hx(forge(0x4D, 0x19, 0x4D, 0x19, 0, ctrl_req(3, []))), hx(g.buf(64))), "uuid-relation:query")
        for n in (0, 1, 15, 17, 32):
            g.add("setuuid %s %s" % (cid, hx(g.rbytes(n))), "uuid-wrong-length")
            g.add("proc %s %s %s" % (cid, hx(forge(0x4D, 0x19, 0x4D, 0x19, 0, ctrl_req(3, []))), hx(g.buf(64))), "uuid-wrong-length:query")
        gen_exact_buffers(g, tier)
        gen_state_probes(g, tier)
        # configuration shapes: special type codes against vendor sets of one format only / both
        for types in ([0x7E], [0x7F], [0x7E, 0x7F], [0x01, 0x7E, 0x05, 0x7F], [0x00], [0x00, 0x7E, 0x00], [0x05, 0x06], [0xFF] * 30, [0x7F] * 30, list(range(1, 31))):
            for vendors in ([(0, 0x1234, 1)], [(1, 0x00C0FFEE, 2)], [(0, 1, 1), (1, 2, 2)], [(1, 1, 1), (1, 2, 2), (1, 3, 3)]):
                addr = g.rb()
                cid = g.ctx(addr, types, vendors)
                for cmd, data in ((5, []), (3, []), (4, [0xFF]), (5, [])):
                    p = forge(addr & 0x7F, 0x19, addr, 0x19, 0, ctrl_req(cmd, data, iid=r.randrange(32)))
                    g.add("proc %s %s %s" % (cid, hx(p), hx(g.buf(64))), "config-shape:cmd%d" % cmd)
        for n in list(range(0, 31)):
            types = g.rbytes(n)
            addr = g.rb()
            vendors = g.rand_vendors(2)
            cid = g.ctx(addr, types, vendors)
            for rep in range(3 if T else 2):
                for cmd, data in ((5, []), (3, []), (4, [r.choice(VERSION_Q)])):
                    p = forge(addr & 0x7F, 0x19, addr, 0x19, 0, ctrl_req(cmd, data, iid=r.randrange(32)))
                    g.add("proc %s %s %s" % (cid, hx(p), hx(g.buf(64))), "identity:cmd%d" % cmd)
                u = g.rbytes(16) if r.random() < 0.8 else [0] * 16
                g.add("setuuid %s %s" % (cid, hx(u)), "identity:setuuid")
                p = forge(addr & 0x7F, 0x19, addr, 0x19, 0, ctrl_req(3, [], iid=r.randrange(32)))
                g.add("proc %s %s %s" % (cid, hx(p), hx(g.buf(64))), "identity:uuid-after-set")
                gen_history(g, r.randrange(0, 12 if T else 5), cid, (addr, types, vendors), "identity-traffic")
            for cmd, data in ((5, []), (3, []), (4, [0xFF])):
                p = forge(addr & 0x7F, 0x19, addr, 0x19, 0, ctrl_req(cmd, data, iid=r.randrange(32)))
                g.add("proc %s %s %s" % (cid, hx(p), hx(g.buf(64))), "identity:final-cmd%d" % cmd)
    elif prop == "C17":
        for b0 in ((0x00, 0x46, 0xFF, g.rb()) if not T else (0x00, 0x46, 0xFF, g.rb(), g.rb(), 0x0F)):
            for b1 in range(256):
                for b2 in (range(256) if (T or b1 in (0x0E, 0x0F, 0x10, 0x00, 0xFF, 0x8F, 0x1F)) else (0, 1, 0x7F, 0x80, 0xFB, 0xFC, 0xFF, g.rb())):
                    tail = g.rbytes(r.choice([0, 0, 1, 7, 30]))
                    g.add("len c%d %s" % (1 + r.randrange(3), hx([b0, b1, b2] + tail)), "prefix")
        for n in range(0, 3):
            for _ in range(40):
                g.add("len c%d %s" % (1 + r.randrange(3), hx(g.rbytes(n))), "short")
        # same prefix, different continuations / contexts
        for _ in range(300):
            pre = [g.rb(), r.choice([0x0F, g.rb()]), g.rb()]
            for _ in range(3):
                g.add("len c%d %s" % (1 + r.randrange(3), hx(pre + g.rbytes(r.randrange(0, 40)))), "continuation")
        gen_repeats(g, tier, ("dec",))
        # long inputs: total lengths around multiples of 256 and 65536
        for n in (254, 255, 256, 257, 258, 259, 260, 511, 512, 513, 514, 515, 1024, 65535, 65536, 65537, 65539):
            for b1, b2 in ((0x0F, 0xFC), (0x0F, 0x00), (0x0E, 0x10), (0x0F, g.rb())):
                g.add("len c%d %s" % (1 + r.randrange(3), hx([g.rb(), b1, b2] + [0x55] * (n - 3))), "long-input")
        # the probe after the context has processed traffic: on the response it just wrote, on the
        # request it just read, on other packets
        for k in range(60):
            cid = "c%d" % (1 + r.randrange(3))
            addr = {"c1": 0x23, "c2": 0x77, "c3": 0x00}[cid]
            src = r.randrange(128)
            body, lab = r.choice([x for x in answerable_requests(g, 1, [r.randrange(1, 255)]) if x[0][1] != 6])
            rq = forge(addr & 0x7F, src, addr, src, 0, body)
            g.add("proc %s %s %s" % (cid, hx(rq), hx([0] * 64)), "after-traffic:process")
            L = resp_len(body[1], {"c1": [0x7E], "c2": [1, 2, 3], "c3": []}[cid], [(0, 0, 0)])
            for pre in ([(src << 1) & 0xFF, 0x0F, L - 4], rq[:3], [(src << 1) & 0xFF, 0x0F, L - 4, ((addr & 0x7F) << 1) | 1, 1, src]):
                g.add("len %s %s" % (cid, hx(pre)), "after-traffic:probe")
        if True:
            # all 2^24 three-byte prefixes, in-process in the executor against the closed form
            for b0 in range(256):
                g.add("lensweep %s %s" % (hb(b0), hx(g.rbytes(r.choice([0, 0, 3, 20])))), "sweep-2^24")
        # contexts c1..c3 with differing configuration/history are created up front
        pre_lines = [("ctx c1 23 7e 00.00001234.00ab", "ctx"), ("ctx c2 77 010203 01.cafebabe.0007", "ctx"),
                     ("ctx c3 00 - -", "ctx"), ("seteid c2 req 42", "setup"), ("seteid c2 resp 99", "setup")]
        g.lines = pre_lines + g.lines
    elif prop == "C18":
        gen_repeats(g, tier, ("view",))
        gen_views(g, tier)
        # exhaustive in-process enumerations against the closed forms proved in Props/Ctors.lean / C18.lean
        g.add("sweep routing-new", "exhaustive:routing-new-2^26")
        g.add("sweep ctrl-new", "exhaustive:ctrl-new")
        g.add("sweep transport-from-buf 00 ff", "exhaustive:transport-from-buf-2^32")
    elif prop == "C19":
        for b in range(256):
            for k in ("cmd", "msg", "cc"):
                g.add("conv %s %s" % (k, hb(b)), "conv:" + k)
    else:
        raise SystemExit("no generator for " + prop)
    return g.lines


FIELDS = {
    "smbus": (4, ["dest_read_write", "dest_slave_addr", "command_code", "byte_count", "source_read_write", "source_slave_addr"]),
    "routing": (4, ["entry_type", "eid_range_size", "first_eid", "physical_address"]),
    "transport": (4, ["hdr_version", "dest_endpoint_id", "source_endpoint_id", "som", "eom", "pkt_seq", "to", "msg_tag"]),
    "body": (1, ["msg_type"]),
    "ctrl": (2, ["rq", "d", "instance_id", "command_code"]),
    "pci": (2, ["vendor_id"]),
    "iana": (4, ["vendor_id"]),
}
# (byte, lo, width) of every public single-byte field; None for the multi-byte vendor ids
LAYOUT = {
    "smbus.dest_read_write": (0, 0, 1), "smbus.dest_slave_addr": (0, 1, 7), "smbus.command_code": (1, 0, 8),
    "smbus.byte_count": (2, 0, 8), "smbus.source_read_write": (3, 0, 1), "smbus.source_slave_addr": (3, 1, 7),
    "routing.entry_type": (0, 0, 4), "routing.eid_range_size": (1, 0, 8), "routing.first_eid": (2, 0, 8),
    "routing.physical_address": (3, 0, 8),
    "transport.hdr_version": (0, 0, 4), "transport.dest_endpoint_id": (1, 0, 8),
    "transport.source_endpoint_id": (2, 0, 8), "transport.som": (3, 7, 1), "transport.eom": (3, 6, 1),
    "transport.pkt_seq": (3, 4, 2), "transport.to": (3, 3, 1), "transport.msg_tag": (3, 0, 3),
    "body.msg_type": (0, 0, 7),
    "ctrl.rq": (0, 7, 1), "ctrl.d": (0, 6, 1), "ctrl.instance_id": (0, 0, 5), "ctrl.command_code": (1, 0, 8),
}


def gen_views(g, tier):
    r = g.r
    T = tier == "thorough"
    for view, (size, fields) in FIELDS.items():
        for f in fields:
            name = view + "." + f
            lay = LAYOUT.get(name)
            if size == 1:
                raws = [[x] for x in range(256)]
            elif size == 2 and (T or lay is not None):
                raws = [[x >> 8, x & 0xFF] for x in range(0, 65536, 1 if T else 37)]
            else:
                raws = []
                own = lay[0] if lay else None
                for x in range(256):
                    for _ in range(4 if T else 1):
                        raw = g.rbytes(size)
                        if own is not None:
                            raw[own] = x
                        raws.append(raw)
                for k in range(size * 8):
                    one = [0] * size
                    one[k // 8] = 0x80 >> (k % 8)
                    raws.append(one)
                    raws.append([b ^ 0xFF for b in one])
                raws += [[0] * size, [0xFF] * size]
            for raw in raws:
                g.add("view get %s %s" % (name, hx(raw)), "get:" + name)
            # backing buffers shorter (and longer) than the header: the accessor panics exactly when the
            # field's highest byte is missing
            for n in range(0, size + 3):
                if n != size:
                    raw = g.rbytes(n)
                    g.add("view get %s %s" % (name, hx(raw)), "get-other-length:" + name)
                    g.add("view set %s %x %s" % (name, r.randrange(256), hx(raw)), "set-other-length:" + name)
            # setters: every 8-bit value for single-byte fields on several raws; boundary + random for wide ones
            if lay is not None:
                vals = range(256)
                sraws = [[0] * size, [0xFF] * size] + [g.rbytes(size) for _ in range(6 if T else 2)]
            else:
                top = 1 << (16 if view == "pci" else 32)
                vals = [0, 1, top - 1, top >> 1, 0x1234, 0xFF00, 0x00FF] + [r.randrange(top) for _ in range(300 if T else 60)]
                vals += [1 << k for k in range(16 if view == "pci" else 32)]
                sraws = [[0] * size, [0xFF] * size, g.rbytes(size)]
            for raw in sraws:
                for v in vals:
                    g.add("view set %s %x %s" % (name, v, hx(raw)), "set:" + name)
    # public constructors and the two header generators of the trait
    cmds = list(range(0x15)) + [0xFF]
    for rq in (0, 1):
        for d in (0, 1):
            for iid in (range(256) if T else list(range(0, 40)) + [0x3F, 0x40, 0x7F, 0x80, 0xE0, 0xFF, g.rb()]):
                for cmd in (cmds if (T or iid % 8 == 0) else [r.choice(cmds)]):
                    g.add("new ctrl %d %d %s %s" % (rq, d, hb(iid), hb(cmd)), "new:ctrl")
    for v in range(256):
        g.add("new transport %s" % hb(v), "new:transport")
        g.add("new routing %s %s %s %s" % (hb(v % 4), hb(g.rb()), hb(g.rb()), hb(g.rb())), "new:routing")
        g.add("new routing %s %s %s %s" % (hb(g.rb() % 4), hb(v), hb(255 - v), hb(v ^ 0x5A)), "new:routing")
    for first in range(256):
        for (t, size, phys) in ((0, 1, (first << 1) & 0xFF), (2, 1, (first << 1) & 0xFF), (1, 1, first), (0, 1, first), (0, 0, (first << 1) & 0xFF),
                                (3, first, first), (0, 1, ((first << 1) | 1) & 0xFF), (2, 2, (first << 1) & 0xFF)):
            g.add("new routing %s %s %s %s" % (hb(t), hb(size), hb(first), hb(phys)), "new:routing-relation")
    for e in range(256):
        for flags in (0xC8, 0x00, 0x40, 0x80, 0x08, 0x48, 0x88, 0xC0, 0x07, 0xF7):
            g.add("view tfb %s 01" % hx([0x01, e, e, flags]), "from_buf:transport-relation")
            g.add("view tfb %s 01" % hx([0x01, e, (e + 1) & 0xFF, flags]), "from_buf:transport-relation")
    for ic in (0, 1):
        for t in TYPE_NAMES:
            g.add("new body %d %s" % (ic, t), "new:body")
    for v in [0, 1, 0xFF, 0x100, 0xFF00, 0x00FF, 0x1414, 0xFFFF] + [r.randrange(1 << 16) for _ in range(2000 if T else 200)]:
        g.add("new pci %x" % v, "new:pci")
    for v in [0, 1, 0xFF, 0xFF00, 0xFF0000, 0xFF000000, 0xFFFFFFFF, 0x12345678] + [r.randrange(1 << 32) for _ in range(2000 if T else 200)]:
        g.add("new iana %x" % v, "new:iana")
    for a in range(256):
        cid = g.ctx(a, [], [(0, 1, 1)])
        for dst in (range(256) if T else [0, 1, 0x7F, 0x80, 0xFF, a, a ^ 0xFF, g.rb()]):
            g.add("hdr smbus %s %s" % (cid, hb(dst)), "hdr:smbus")
            g.add("hdr transport %s %s" % (cid, hb(dst)), "hdr:transport")
    for b0 in range(256):
        vers = range(256) if T else list(range(0, 20)) + [b0 & 0x0F, 0xFF, 0x80]
        for v in vers:
            g.add("view tfb %s %s" % (hx([b0] + g.rbytes(3)), hb(v)), "from_buf:transport")
        g.add("view bfb %s" % hb(b0), "from_buf:body")
