"""Orchestration of one property check: proof audit, correspondence run, classification,
replay files and evidence.  See /verif/DESIGN.md sections 3.3 - 3.4."""
import fcntl
import glob
import hashlib
import json
import os
import re
import shutil
import subprocess
import sys
import time

from . import gen
from . import state_inventory
from . import litdir
from . import translate

VERIF = os.path.dirname(os.path.dirname(os.path.abspath(__file__)))
LEAN = os.path.join(VERIF, "lean")
HARNESS = os.path.join(VERIF, "harness")
BUILD = os.path.join(VERIF, ".build")
EXEC_BIN = os.path.join(BUILD, "harness", "release", "mctp-exec")
DRIVER_BIN = os.path.join(LEAN, ".lake", "build", "bin", "driver")
EVID = os.path.join(VERIF, "evidence")
REPLAY_DIR = os.path.join(EVID, "replay")
ALLOWED_AXIOMS = {"propext", "Classical.choice", "Quot.sound"}
FORBIDDEN = re.compile(r"\b(sorry|admit|native_decide|bv_decide|implemented_by|unsafe)\b|^\s*axiom\s|maxHeartbeats\s+0")

TRUSTED_BASE = [
    "Lean 4.33.0 kernel (thorough tier: re-checked with leanchecker)",
    "axioms: subset of {propext, Classical.choice, Quot.sound}; no native_decide, no bv_decide, no sorry",
    "hand-written L1 model of /repo/src (Mctp/Model/*.lean), tied to the code by this run's correspondence check",
    "L2 specifications (Mctp/Spec/*.lean) - what the theorems mean",
    "modelled, not verified: Rust slice/index/cast/overflow semantics, bitfield 0.14.0 macro expansion, smbus-pec CRC, Cell",
    "Rust executor /verif/harness, Lean driver, Python orchestrator (line protocol, canonical text, catch_unwind)",
    "translator tie (checker/translate.py + Mctp/Mir/Sem.lean): rustc +nightly's MIR dump of /repo's working tree, the syntactic "
    "MIR/bitfield!/const parser, and the MIR-fragment semantics written in Lean; covers the table functions, enum values, "
    "bit-field declarations and constants only",
]


def log(*a):
    print(*a, file=sys.stderr, flush=True)


class Lock:
    def __enter__(self):
        os.makedirs(BUILD, exist_ok=True)
        self.f = open(os.path.join(BUILD, "lock"), "w")
        fcntl.flock(self.f, fcntl.LOCK_EX)
        return self

    def __exit__(self, *a):
        fcntl.flock(self.f, fcntl.LOCK_UN)
        self.f.close()


def sh(cmd, cwd=None, env=None, timeout=3600):
    e = dict(os.environ)
    if env:
        e.update(env)
    p = subprocess.run(cmd, cwd=cwd, env=e, stdout=subprocess.PIPE, stderr=subprocess.STDOUT, text=True,
                       timeout=timeout)
    return p.returncode, p.stdout



# ----------------------------------------------------------------------------- coverage-guided search

FUZZ_TARGET_DIR = os.path.join(BUILD, "fuzz")
FUZZ_CORPUS = os.path.join(BUILD, "fuzz-corpus")


def _src_key(tier):
    h = hashlib.sha1()
    files = sorted(glob.glob("/repo/src/*.rs")) + ["/repo/Cargo.toml", "/repo/Cargo.lock"]
    files += sorted(glob.glob(os.path.join(HARNESS, "src", "*.rs"))) + sorted(glob.glob(os.path.join(HARNESS, "fuzz", "fuzz_targets", "*.rs")))
    files += [os.path.join(HARNESS, "fuzz", "Cargo.toml"), os.path.abspath(__file__)]
    for f in files:
        try:
            h.update(f.encode() + b"\0" + open(f, "rb").read())
        except OSError:
            pass
    h.update(tier.encode())
    return h.hexdigest()[:16]


def repo_src_hash():
    h = hashlib.sha1()
    for f in sorted(glob.glob("/repo/src/*.rs")) + ["/repo/Cargo.toml", "/repo/Cargo.lock"]:
        try:
            h.update(os.path.basename(f).encode() + b"\0" + open(f, "rb").read())
        except OSError:
            pass
    return h.hexdigest()


def pinned_src_hash():
    try:
        return json.load(open(os.path.join(VERIF, "checker", "pinned_src.json")))["sha1"]
    except (OSError, ValueError, KeyError):
        return None


def fuzz_lines(tier, seed):
    """Coverage-guided search for inputs (libFuzzer via cargo-fuzz, CMP-guided): operation sequences that
    reach new code in /repo's working tree, found once per source state and shared by all
    properties' checks.  Returns (rendered op lines, info).  The corpus is only a source of *cases*: each
    runs through implementation, model and judge like every generated case.  Call with the lock held."""
    info = {"engine": "libFuzzer (libfuzzer-sys; sancov edges, counters and compare tracing on the libmctp crate only; value profile), target harness/fuzz/fuzz_targets/ops.rs"}
    seeds_dir = os.path.join(VERIF, "corpus", "fuzz-seeds")
    if tier == "quick" and not os.environ.get("VERIF_FUZZ_ALWAYS") and os.path.isdir(seeds_dir) and repo_src_hash() == pinned_src_hash():
        # the search result for exactly this source is committed: corpus/fuzz-seeds is the reduced corpus of a long
        # search on the pinned tree (one input per covered feature).  Replaying it is the cache hit; a live search
        # is only needed for a source state that has not been searched yet.
        rc, out = sh([EXEC_BIN, "--render", seeds_dir])
        lines = [l for l in out.splitlines() if l.strip()] if rc == 0 else []
        info.update({"status": "ok", "lines": len(lines), "seed_inputs": len(os.listdir(seeds_dir)),
                     "note": "source identical to the pinned tree (checker/pinned_src.json): the committed corpus of the search on this "
                             "source is replayed; a live search runs for every other source state and in the thorough tier"})
        return lines, info
    key = _src_key(tier)
    cdir = os.path.join(FUZZ_CORPUS, key)
    mind = os.path.join(cdir, "min")
    info["source_key"] = key
    if not os.path.exists(os.path.join(cdir, "done")):
        t0 = time.time()
        env = {"CARGO_TARGET_DIR": FUZZ_TARGET_DIR, "CARGO_NET_OFFLINE": "true"}
        try:
            rc, out = sh(["cargo", "+nightly", "build", "--release", "--offline"], cwd=os.path.join(HARNESS, "fuzz"), env=env, timeout=1800)
        except (OSError, subprocess.TimeoutExpired) as e:
            rc, out = 1, str(e)
        if rc != 0:
            info["status"] = "unavailable: build of the fuzz target failed: " + out[-300:]
            return [], info
        binp = os.path.join(FUZZ_TARGET_DIR, "release", "ops")
        # older corpora: keep the two most recent
        old = sorted(glob.glob(os.path.join(FUZZ_CORPUS, "*")), key=os.path.getmtime)
        for d in old[:-2]:
            shutil.rmtree(d, ignore_errors=True)
        raw = os.path.join(cdir, "raw")
        work = os.path.join(cdir, "work")
        for d in (raw, mind, work):
            shutil.rmtree(d, ignore_errors=True)
            os.makedirs(d)
        # start from the committed seed corpus (a long run on the tree the model was written against,
        # reduced to one input per covered edge): the search then only has to find what is new
        seeds = os.path.join(VERIF, "corpus", "fuzz-seeds")
        n_seeds = 0
        if os.path.isdir(seeds):
            for fn in os.listdir(seeds):
                shutil.copy(os.path.join(seeds, fn), os.path.join(raw, "seed-" + fn))
                n_seeds += 1
        info["seed_inputs"] = n_seeds
        secs, jobs = (420, 14) if tier == "thorough" else (60, 12)
        args = [binp, raw, "-max_total_time=%d" % secs, "-max_len=700", "-use_value_profile=1", "-detect_leaks=0", "-rss_limit_mb=0",
                "-jobs=%d" % jobs, "-workers=%d" % jobs, "-reload=1", "-verbosity=0"]
        try:
            sh(args, cwd=work, timeout=secs * 3 + 120)
            # keep one input per feature (edges, counters and compare-operand distances: an input that makes a
            # comparison come out equal is kept even where the compiler left no branch behind)
            rc, out = sh([binp, "-merge=1", "-use_value_profile=1", "-detect_leaks=0", "-rss_limit_mb=0", "-verbosity=0", mind, raw], cwd=work, timeout=1800)
        except (OSError, subprocess.TimeoutExpired) as e:
            info["status"] = "unavailable: fuzz run failed: " + str(e)[-300:]
            return [], info
        shutil.rmtree(work, ignore_errors=True)
        info["fuzz_seconds"] = round(time.time() - t0, 1)
        n_raw = len(os.listdir(raw))
        shutil.rmtree(raw, ignore_errors=True)
        with open(os.path.join(cdir, "done"), "w") as f:
            json.dump({"raw_corpus": n_raw, "kept": len(os.listdir(mind)), "seconds": info["fuzz_seconds"], "jobs": jobs, "per_job_seconds": secs}, f)
    try:
        info.update(json.load(open(os.path.join(cdir, "done"))))
    except (OSError, ValueError):
        pass
    rc, out = sh([EXEC_BIN, "--render", mind])
    lines = [l for l in out.splitlines() if l.strip()] if rc == 0 else []
    info["status"] = "ok"
    info["lines"] = len(lines)
    return lines, info

# ----------------------------------------------------------------------------- builds


def build_harness():
    """rebuild the executor against /repo's current working tree"""
    env = {"CARGO_TARGET_DIR": os.path.join(BUILD, "harness"), "CARGO_NET_OFFLINE": "true"}
    rc, out = sh(["cargo", "build", "--release", "--offline"], cwd=HARNESS, env=env)
    return rc == 0, out


def build_lean(targets):
    rc, out = sh(["lake", "build"] + targets, cwd=LEAN)
    return rc == 0, out


def theorems_of(prop):
    with open(os.path.join(VERIF, "checker", "theorems.json")) as f:
        return json.load(f)[prop]


def import_closure(mods):
    """source files of this project that the given modules (transitively) import"""
    seen, todo, files = set(), list(mods), []
    while todo:
        m = todo.pop()
        if m in seen or not m.startswith("Mctp"):
            continue
        seen.add(m)
        path_ = os.path.join(LEAN, *m.split(".")) + ".lean"
        if not os.path.exists(path_):
            continue
        files.append(path_)
        for line in open(path_):
            mm = re.match(r"\s*import\s+(\S+)", line)
            if mm:
                todo.append(mm.group(1))
    return sorted(files)


def audit(prop):
    """every registered theorem of the property must exist and depend only on allowed axioms;
    the sources of the modules it rests on must not contain forbidden constructs"""
    t = theorems_of(prop)
    names = t["theorems"]
    mods = t["modules"]
    os.makedirs(os.path.join(BUILD, "audit"), exist_ok=True)
    path = os.path.join(BUILD, "audit", "Audit_%s.lean" % prop)
    with open(path, "w") as f:
        for m in mods:
            f.write("import %s\n" % m)
        for n in names:
            f.write("#print axioms %s\n" % n)
    rc, out = sh(["lake", "env", "lean", path], cwd=LEAN)
    res = {}
    cur = None
    for line in out.splitlines():
        m = re.match(r"'([^']+)' depends on axioms: \[(.*)", line)
        if m:
            cur = m.group(1)
            res[cur] = m.group(2)
            if "]" in line:
                cur = None
            continue
        m = re.match(r"'([^']+)' does not depend on any axioms", line)
        if m:
            res[m.group(1)] = ""
            cur = None
            continue
        if cur is not None:
            res[cur] += " " + line
            if "]" in line:
                cur = None
    ok = []
    bad = []
    for n in names:
        if n not in res:
            bad.append((n, "missing or does not check"))
            continue
        ax = {a.strip() for a in res[n].replace("]", "").split(",") if a.strip()}
        if ax <= ALLOWED_AXIOMS:
            ok.append(n)
        else:
            bad.append((n, "axioms: " + ", ".join(sorted(ax - ALLOWED_AXIOMS))))
    # textual scan of every source file of the project the property's modules import
    scan_bad = []
    for path_ in import_closure(mods):
        src = open(path_).read()
        src = re.sub(r"/-.*?-/", lambda mm: "\n" * mm.group(0).count("\n"), src, flags=re.S)
        for i, line in enumerate(src.splitlines()):
            code = line.split("--")[0]
            if FORBIDDEN.search(code):
                scan_bad.append("%s:%d: %s" % (os.path.relpath(path_, LEAN), i + 1, code.strip()))
    return ok, bad, scan_bad, out if rc != 0 else ""


# ----------------------------------------------------------------------------- the tie by translation


def tie_check(prop):
    """Regenerate lean/Mctp/Gen/Source.lean from /repo's working tree and re-check the tie theorems that
    belong to `prop`.  Returns (info for the evidence, [broken ties]).  A tie module that does not build
    because its fragment of the source is outside what the translator understands is reported as
    'not translated' (the dynamic correspondence is then the only tie for that fragment) - that is not
    an alarm; a module whose fragments were all translated and whose theorems no longer check is a
    broken proof obligation.  Call with the lock held."""
    ties = json.load(open(os.path.join(VERIF, "checker", "ties.json")))
    mine = {m: t for m, t in ties.items() if prop in t["properties"]}
    info = {"generated_file": "lean/Mctp/Gen/Source.lean (rewritten on every run from /repo's working tree)", "modules": {}}
    if not mine:
        info["note"] = "no translated fragment belongs to this property"
        return info, []
    try:
        status = translate.generate()
    except Exception as e:       # the translator itself failed: no translated tie in this run
        info["translator_error"] = repr(e)[:500]
        return info, []
    info["fragments"] = status
    broken = []
    for m, t in sorted(mine.items()):
        untranslated = []
        for fr in t["fragments"]:
            keys = [k for k in status if k.startswith("enum:")] if fr == "enum:*" else [fr]
            for k in keys:
                if k in status and status[k] != "translated":
                    untranslated.append("%s: %s" % (k, status[k]))
            if fr not in ("mir", "enum:*") and fr not in status:
                untranslated.append("%s: not found in the source" % fr)
        rc, out = sh(["lake", "build", m], cwd=LEAN)
        rec = {"what": t["what"], "theorems": t["theorems"]}
        if rc == 0:
            # axiom audit of the tie theorems
            os.makedirs(os.path.join(BUILD, "audit"), exist_ok=True)
            ap = os.path.join(BUILD, "audit", "AuditTie_%s_%s.lean" % (prop, m.split(".")[-1]))
            with open(ap, "w") as f:
                f.write("import %s\n" % m + "".join("#print axioms %s\n" % n for n in t["theorems"]))
            rc2, aout = sh(["lake", "env", "lean", ap], cwd=LEAN)
            bad = []
            for n in t["theorems"]:
                mm = re.search(r"'%s' (does not depend on any axioms|depends on axioms: \[([^\]]*)\])" % re.escape(n), aout, flags=re.S)
                if not mm:
                    bad.append(n + ": missing")
                elif mm.group(2) and not {a.strip() for a in mm.group(2).split(",") if a.strip()} <= ALLOWED_AXIOMS:
                    bad.append(n + ": axioms " + mm.group(2))
            if bad:
                rec["status"] = "BROKEN: " + "; ".join(bad)
                broken.append({"module": m, "theorems": t["theorems"], "failed": bad, "log": aout[-2000:], "what": t["what"]})
            else:
                rec["status"] = "checked: %d theorems, axioms within {propext, Classical.choice, Quot.sound}" % len(t["theorems"])
        else:
            # which theorems do the error lines fall into?
            failed = set()
            for mm in re.finditer(r"error: (\S+\.lean):(\d+):\d+", out):
                try:
                    src = open(os.path.join(LEAN, mm.group(1))).read().splitlines()
                except OSError:
                    continue
                for i in range(min(int(mm.group(2)), len(src)) - 1, -1, -1):
                    th = re.match(r"\s*(?:theorem|def|example)\s*(\S*)", src[i])
                    if th:
                        failed.add("%s (%s:%d)" % (th.group(1) or "example", mm.group(1), i + 1))
                        break
            if untranslated:
                rec["status"] = "not translated (no alarm; the dynamic correspondence is the only tie for this fragment): " + "; ".join(untranslated)[:600]
                info["modules"][m] = rec
                continue
            rec["status"] = "BROKEN: " + ", ".join(sorted(failed))[:600]
            broken.append({"module": m, "theorems": t["theorems"], "failed": sorted(failed), "log": out[-3000:], "what": t["what"]})
        info["modules"][m] = rec
    return info, broken


# ----------------------------------------------------------------------------- running both sides


def run_exec(lines):
    p = subprocess.run([EXEC_BIN], input="\n".join(lines) + "\n", stdout=subprocess.PIPE, stderr=subprocess.PIPE,
                       text=True, timeout=3600)
    out = p.stdout.splitlines()
    if p.returncode != 0 or len(out) != len(lines):
        raise RuntimeError("executor failed: rc=%s, %d answers for %d requests\n%s" % (p.returncode, len(out), len(lines), p.stderr[-2000:]))
    return out


ACTIVE_PROP = [None]      # the property whose verdicts the driver is asked for (None = all)


def run_driver(lines, obs):
    inp = "\n".join((l + " => " + o) if o is not None else l for l, o in zip(lines, obs)) + "\n"
    if ACTIVE_PROP[0]:
        inp = "prop %s\n" % ACTIVE_PROP[0] + inp
    p = subprocess.run([DRIVER_BIN], input=inp, stdout=subprocess.PIPE, stderr=subprocess.PIPE, text=True, timeout=7200)
    out = p.stdout.splitlines()
    if ACTIVE_PROP[0] and out:
        out = out[1:]
    if p.returncode != 0 or len(out) != len(lines):
        raise RuntimeError("driver failed: rc=%s, %d answers for %d requests\n%s" % (p.returncode, len(out), len(lines), p.stderr[-2000:]))
    return out


def run_driver_parallel(lines, obs, workers=12):
    """the driver is the slow side: contexts are independent of each other, so the lines are split
    by context id (context-free lines round-robin) over several driver processes, each keeping its
    lines in order; answers are merged back by index"""
    from concurrent.futures import ThreadPoolExecutor
    if len(lines) < 4000 and sum(1 for l in lines if l.startswith("decsweep ")) < 2:
        return run_driver(lines, obs)
    groups = [[] for _ in range(workers)]
    rr = 0
    ids = {l.split()[1] for l in lines if l.startswith("ctx ")}
    for i, l in enumerate(lines):
        t = l.split()
        c = ctx_of(l)
        if c is None:
            # any op naming a context goes to that context's group, whatever its kind
            c = next((x for x in t[1:3] if x in ids), None)
        if l.startswith("dec ") or l.startswith("len "):
            c = None                       # the decoder / probe ignore the context id
        if c is None:
            groups[rr % workers].append(i)
            rr += 1
        else:
            groups[sum(map(ord, c)) % workers].append(i)
    groups = [g for g in groups if g]
    out = [None] * len(lines)

    def job(g):
        return g, run_driver([lines[i] for i in g], [obs[i] for i in g])
    with ThreadPoolExecutor(max_workers=len(groups)) as ex:
        for g, ans in ex.map(job, groups):
            for i, a in zip(g, ans):
                out[i] = a
    return out


def parse_answer(a):
    """-> (model_obs, impl_verdicts, model_verdicts)"""
    if " ## " not in a:
        return a, {}, {}
    m, v = a.split(" ## ", 1)
    iv, mv = {}, {}
    mm = re.match(r"I:(\S+) M:(\S+)", v)
    if mm:
        for tgt, s in ((iv, mm.group(1)), (mv, mm.group(2))):
            if s in ("-", "unparsed"):
                if s == "unparsed":
                    tgt["*"] = "unparsed"
                continue
            for kv in s.split(","):
                k, val = kv.split("=", 1)
                tgt[k] = val
    return m, iv, mv


# ----------------------------------------------------------------------------- projections

ENC_PROPS = {"C03", "C04", "C05", "C06", "C07", "C08", "C16"}


def _enc_parts(o):
    t = o.split()
    if t and t[0] == "ok" and len(t) == 3:
        n = int(t[1])
        b = bytes.fromhex(t[2]) if t[2] != "-" else b""
        return "ok", n, b
    if t and t[0] == "err":
        return "err", None, (bytes.fromhex(t[1]) if len(t) > 1 and t[1] != "-" else b"")
    return "panic", None, None


def project(prop, line, o):
    """what property `prop` constrains of observation `o` for op `line`"""
    kind = line.split()[0]
    if kind in ("enc", "encr"):
        st, n, b = _enc_parts(o)
        if st == "panic":
            return ("panic",)
        if st == "err":
            return ("err", b) if prop == "C16" else ("err",)
        pkt = b[:n]
        if prop == "C03":
            return ("ok", n, len(pkt) > 0 and pkt[-1] == gen.crc8(pkt[:-1]))
        if prop == "C04":
            return ("ok", n, pkt[:4])
        if prop == "C05":
            return ("ok", pkt[4:9])
        if prop in ("C06", "C07"):
            return ("ok", pkt[9:n - 1])
        if prop == "C08":
            return ("ok", pkt[8:n - 1])
        if prop == "C16":
            return ("ok", n, pkt, b[n:])
        if prop == "C01":
            return ("ok", n, pkt)
        return ("ok", n, pkt)
    if kind in ("dec", "rtdec", "len"):
        if prop == "C10":
            return tuple(o.split()) if o.startswith("panic") else ("returns",)
        if prop == "C02":
            return (o.startswith("ok"),)
        return (o,)
    if kind == "proc":
        parts = o.split(" | ")
        res = parts[0]
        buf = parts[1] if len(parts) > 1 else ""
        eids = parts[2] if len(parts) > 2 else ""
        rt = res.split()
        n = int(rt[5]) if (len(rt) == 6 and rt[4] == "some") else None
        resp = buf[:2 * n] if n is not None else None
        if prop == "C10":
            return tuple(rt) if res.startswith("panic") else ("returns",)
        if prop == "C03":
            rb = bytes.fromhex(resp) if resp else b""
            return (n, len(rb) > 0 and rb[-1] == gen.crc8(rb[:-1]))
        if prop == "C04":
            return (n, resp[:8] if resp else None)
        if prop == "C05":
            return (n is not None, resp[8:18] if resp else None)
        if prop == "C02":
            return (res.startswith("ok"), buf if res.startswith("err") else None, eids)
        if prop == "C11":
            return (res if not res.startswith("panic") else "panic", buf if not res.startswith("panic") else None)
        if prop == "C12":
            return (res.startswith("ok"), n, resp)
        if prop == "C13":
            return (eids, resp)
        if prop in ("C14", "C15"):
            return (n, resp)
        return (o,)
    if kind in ("seteid", "setuuid"):
        return (o,)
    return (o,)


# ----------------------------------------------------------------------------- known findings


def load_findings():
    """-> {property: {id: text}} for `finding:` lines of /verif/known_findings.txt"""
    out = {}
    path = os.path.join(VERIF, "known_findings.txt")
    if not os.path.exists(path):
        return out
    for line in open(path):
        line = line.strip()
        m = re.match(r"finding:\s+property=(C\d+)\s+id=(\S+)\s+(.*)", line)
        if m:
            out.setdefault(m.group(1), {})[m.group(2)] = m.group(3)
    return out


# ----------------------------------------------------------------------------- replay files


def write_replay(prop, kind, ops, idx, impl, model, verdict, extra=None):
    os.makedirs(REPLAY_DIR, exist_ok=True)
    h = hashlib.sha1(("\n".join(ops) + kind).encode()).hexdigest()[:12]
    path = os.path.join(REPLAY_DIR, "%s-%s.json" % (prop, h))
    doc = {"property": prop, "kind": kind, "ops": ops, "failing_index": idx, "impl_observation": impl,
           "model_observation": model, "verdict": verdict}
    if extra:
        doc.update(extra)
    with open(path, "w") as f:
        json.dump(doc, f, indent=1)
    return path


def ctx_of(line):
    t = line.split()
    if t[0] in ("ctx", "proc", "procsweep", "seteid", "setuuid", "enc", "encr"):
        return t[1]
    if t[0] in ("rtdec", "hdr"):
        return t[2]
    if t[0] in ("dec", "len") and len(t) == 3:
        return t[1]
    return None


def history_for(lines, idx):
    """the op lines needed to reproduce line idx: same context id, in order"""
    cid = ctx_of(lines[idx])
    if cid is None:
        return [lines[idx]]
    return [l for l in lines[:idx] if ctx_of(l) == cid] + [lines[idx]]


def evaluate(lines):
    """run ops on both sides -> list of (impl_obs, model_obs, iverdicts, mverdicts)"""
    obs = run_exec(lines)
    # `lensweep` is an executor-only bulk op (C17 thorough): the driver is given a no-op instead
    def exec_only(l):
        return l.startswith("lensweep ") or l.startswith("repeat ") or l.startswith("sweep ")
    ans = run_driver_parallel([("conv cmd 00" if exec_only(l) else l) for l in lines],
                              [(None if (exec_only(l) or "sweep " in l[:10]) else o) for l, o in zip(lines, obs)])
    out = []
    _addr.clear()
    for l, o, a in zip(lines, obs, ans):
        m, iv, mv = parse_answer(a)
        k = l.split()[0] if l.split() else ""
        if k == "ctx":
            _addr[l.split()[1]] = int(l.split()[2], 16)
        if k in ("decsweep", "procsweep"):
            # digest of 65 536 observations on each side; equal digests = every observation equal
            out.append((o, a, {"*sweep": "agree" if o == a else "differ"}, {}))
            continue
        if k == "sweep":
            # executor-only exhaustive enumeration of a small pure function against its closed form
            t = o.split()
            good = len(t) == 4 and t[0] == "swept" and t[2] == "0"
            ap = ACTIVE_PROP[0] or "C18"
            out.append((o, o, {ap: "ok" if good else "fail:closed-form-mismatch at " + (t[3] if len(t) > 3 else "?")}, {ap: "ok"}))
            continue
        if k == "repeat":
            # executor-only: the same operation `count` times on the same state; every answer must equal
            # the first one (nothing may depend on the number of calls so far), and must not be a panic
            # the first call did not show
            head = o.split(" | ")[0].split()
            good = len(head) >= 4 and head[0] == "repeated" and head[2] == "0"
            v = "ok" if good else "fail:depends-on-number-of-calls at " + (head[3] if len(head) > 3 else "?")
            ap = ACTIVE_PROP[0] or "C10"
            out.append((o, o, {ap: v}, {ap: "ok"}))
            continue
        if k == "lensweep":
            t = o.split()
            good = len(t) == 4 and t[0] == "ok" and t[1] == "65536" and t[2] == "0"
            out.append((o, o, {"C17": "ok" if good else "fail:closed-form-mismatch at " + (t[3] if len(t) > 3 else "?")}, {"C17": "ok"}))
            continue
        out.append((o, m, iv, mv))
    return out


def fails(prop, iv, known):
    """does the implementation's verdict for prop at this line count as a new violation?"""
    v = iv.get(prop)
    if v is None:
        return iv.get("*") == "unparsed"
    if v.startswith("fail"):
        return True
    if v.startswith("known:"):
        return v.split(":", 1)[1] not in known
    return False


def minimise(prop, ops, known, pred=None):
    """delta-debug a failing history (last line is the failing one) to a small op list"""
    if pred is None:
        def pred(cand):
            try:
                r = evaluate(cand)
            except RuntimeError:
                return False
            return any(fails(prop, iv, known) for (_, _, iv, _) in r)
    if len(ops) <= 2:
        return ops
    head, last = ops[0], ops[-1]
    mid = ops[1:-1]
    n = 2
    rounds = 0
    while len(mid) >= 1 and rounds < 60:
        rounds += 1
        chunk = max(1, len(mid) // n)
        removed = False
        for i in range(0, len(mid), chunk):
            cand = mid[:i] + mid[i + chunk:]
            if pred([head] + cand + [last]):
                mid = cand
                n = max(n - 1, 2)
                removed = True
                break
        if not removed:
            if chunk == 1:
                break
            n = min(n * 2, len(mid))
    return [head] + mid + [last]


# ----------------------------------------------------------------------------- search mode


def mutate_line(line, rnd, limit=400):
    """neighbours of an op line: bit flips, byte sweeps, truncations of its hex tokens"""
    t = line.split()
    out = []
    hex_idx = [i for i, x in enumerate(t) if i >= 1 and re.fullmatch(r"([0-9a-f]{2})+", x) and len(x) >= 2]
    for i in hex_idx:
        b = bytearray.fromhex(t[i])
        cands = []
        if len(b) <= 2:
            for v in range(256):
                c = bytearray(b)
                c[-1] = v
                cands.append(c)
        else:
            for pos in range(min(len(b), 16)):
                for v in (0, 1, 2, 3, 0x7F, 0x80, 0xFE, 0xFF, b[pos] ^ 1, b[pos] ^ 0x80, (b[pos] + 1) & 0xFF):
                    c = bytearray(b)
                    c[pos] = v
                    cands.append(c)
                    if t[0] in ("dec", "proc", "len", "rtdec") and i == (2 if t[0] != "len" or len(t) == 3 else 1):
                        cands.append(bytearray(gen.refix(list(c))))
            for k in range(0, len(b), max(1, len(b) // 12)):
                cands.append(b[:k])
        rnd.shuffle(cands)
        for c in cands[:limit // max(1, len(hex_idx))]:
            u = list(t)
            u[i] = gen.hx(c)
            out.append(" ".join(u))
    return out


# ----------------------------------------------------------------------------- the check


class Result:
    def __init__(self, prop, tier, seed):
        self.prop, self.tier, self.seed = prop, tier, seed
        self.violations = []          # (replay path, suffix)
        self.known_hit = {}           # id -> example line
        self.notes = []
        self.cov = {}
        self.t0 = time.time()


def write_evidence(res, level="proof"):
    os.makedirs(EVID, exist_ok=True)
    doc = {"property_id": res.prop, "tier": res.tier, "seed": res.seed, "level": level, "coverage": res.cov,
           "assumptions": TRUSTED_BASE, "wall_s": round(time.time() - res.t0, 2), "violations": len(res.violations)}
    with open(os.path.join(EVID, "%s.json" % res.prop), "w") as f:
        json.dump(doc, f, indent=1)


def nontrivial(line, model_obs):
    """a case is non-trivial when the model does something beyond an early header reject"""
    k = line.split()[0]
    if k in ("ctx",):
        return False
    if k in ("dec", "proc", "rtdec"):
        return not model_obs.startswith("err invalid unknown")
    return True


def branch_of(line, model_obs):
    k = line.split()[0]
    head = model_obs.split(" | ")[0].split(" ## ")[0].split()
    if not head:
        return k + ":?"
    if head[0] == "ok":
        if k in ("dec", "rtdec"):
            return "%s:ok-%s" % (k, head[1])
        if k == "proc":
            return "%s:ok-%s-%s" % (k, head[1], "answered" if "some" in head else "noresp")
        return k + ":ok"
    if head[0] == "err":
        return "%s:err-%s" % (k, "-".join(head[1:3]))
    if head[0] == "panic":
        return "%s:panic-%s" % (k, "-".join(head[1:3]))
    return k + ":" + head[0]


def relational(prop, lines, results):
    """checks that relate several observations of the implementation; returns list of
    (index, why) that fail"""
    bad = []
    if prop == "C09":
        # context independence: same bytes, any context -> same outcome
        seen = {}
        for i, l in enumerate(lines):
            t = l.split()
            if t[0] == "dec":
                key = t[-1]
                o = results[i][0]
                if key in seen and seen[key][1] != o:
                    bad.append((i, "context-dependent: %s vs line %d %s" % (o, seen[key][0], seen[key][1])))
                seen.setdefault(key, (i, o))
    if prop == "C17":
        seen = {}
        for i, l in enumerate(lines):
            t = l.split()
            if t[0] == "len":
                pkt = t[-1]
                if pkt == "-" or len(pkt) < 6:
                    continue
                key = pkt[:6]
                o = results[i][0]
                if key in seen and seen[key][1] != o:
                    bad.append((i, "not a function of the first three bytes: %s vs line %d %s" % (o, seen[key][0], seen[key][1])))
                seen.setdefault(key, (i, o))
    if prop == "C16":
        # bytes and length independent of the buffer
        seen = {}
        for i, l in enumerate(lines):
            t = l.split()
            if t[0] in ("enc", "encr"):
                st, n, b = _enc_parts(results[i][0])
                if st != "ok":
                    continue
                key = (i_ctx_epoch(lines, i), " ".join(t[1:-1]))
                val = (n, b[:n])
                if key in seen and seen[key][1] != val:
                    bad.append((i, "output depends on the buffer (line %d)" % seen[key][0]))
                seen.setdefault(key, (i, val))
    return bad


_epoch_cache = {}


def i_ctx_epoch(lines, i):
    """number of state-changing ops on the context before line i (so that only calls in the same
    context state are compared)"""
    key = id(lines)
    if key not in _epoch_cache:
        ep = {}
        arr = []
        for l in lines:
            t = l.split()
            c = ctx_of(l)
            if t[0] in ("ctx", "proc", "seteid", "setuuid") and c:
                ep[c] = ep.get(c, 0) + 1
            arr.append(ep.get(c, 0) if c else 0)
        _epoch_cache.clear()
        _epoch_cache[key] = arr
    return _epoch_cache[key][i]


def second_pass(prop, lines, fams, results, rnd):
    """ops derived from what the implementation returned in the first pass"""
    extra = []
    if prop == "C01":
        for src, (l, (o, m, iv, mv)) in enumerate(zip(lines, results)):
            t = l.split()
            if t[0] in ("enc", "encr") and o.startswith("ok"):
                st, n, b = _enc_parts(o)
                pkt = gen.hx(b[:n])
                for cid in _receivers(lines):
                    extra.append(("rtdec %s %s %s %s" % (cid, t[1], " ".join(t[2:-1]), pkt), "rt:" + t[3], src))
    if prop in ("C16", "C03", "C04", "C05", "C06", "C07", "C08"):
        # the same call again into a buffer of exactly the reported length, and one byte more
        for src, (l, (o, m, iv, mv)) in enumerate(zip(lines, results)):
            t = l.split()
            if t[0] in ("enc", "encr") and o.startswith("ok"):
                st, n, b = _enc_parts(o)
                if prop != "C16" and rnd.random() < 0.6:
                    continue
                for extra_len, fill in ((0, 0x00), (0, 0xFF), (1, 0xA5)):
                    extra.append((" ".join(t[:-1]) + " " + gen.hx([fill] * (n + extra_len)), "exact-fit:" + t[3], src))
                if prop in ("C03", "C16") and rnd.random() < 0.5:
                    # the buffer already holds this very packet, damaged in its last byte / one other byte
                    own = bytearray(b[:n])
                    own[-1] ^= 0xFF
                    extra.append((" ".join(t[:-1]) + " " + gen.hx(bytes(own) + b[n:]), "own-output-damaged:" + t[3], src))
                    own = bytearray(b[:n])
                    own[rnd.randrange(n)] ^= 1 << rnd.randrange(8)
                    extra.append((" ".join(t[:-1]) + " " + gen.hx(bytes(own) + b[n:]), "own-output-damaged:" + t[3], src))
                if prop in ("C04", "C16") and rnd.random() < 0.5:
                    # buffers that are too short: whatever happens, no success with a wrong length
                    for short in (n - 1, n - 2, 9, 8, 4, 0):
                        if 0 <= short < n:
                            extra.append((" ".join(t[:-1]) + " " + gen.hx([0x3C] * short), "too-short:" + t[3], src))
    if prop == "C04":
        k = 0
        for src, (l, (o, m, iv, mv)) in enumerate(zip(lines, results)):
            t = l.split()
            if t[0] in ("enc", "encr") and o.startswith("ok"):
                st, n, b = _enc_parts(o)
                k += 1
                if k % 5 and not t[3].startswith("gen"):
                    continue
                ks = sorted(set([3, 4, 9, n - 1, n, rnd.randrange(3, n + 1)]))
                if k % 50 == 0:
                    ks = range(3, n + 1)
                for j in ks:
                    extra.append(("len %s" % gen.hx(b[:j]), "probe:%d" % n, src))
    return extra


def _receivers(lines):
    ids = [l.split()[1] for l in lines if l.startswith("ctx ")]
    return ids[:3] if len(ids) >= 3 else ids


def check_property(prop, tier, seed, max_search=20000):
    import random
    rnd = random.Random(seed ^ 0x5EED)
    ACTIVE_PROP[0] = prop
    res = Result(prop, tier, seed)
    known = load_findings().get(prop, {})
    thm = theorems_of(prop)
    cov = res.cov
    cov["checker_cmd"] = "lake build %s && lake env lean <#print axioms of each obligation>" % " ".join(thm["modules"])
    cov["trusted_base"] = TRUSTED_BASE
    cov["obligations"] = len(thm["theorems"])
    cov["discharged"] = 0
    cov["theorems"] = thm["theorems"]

    def violation(path, suffix=""):
        res.violations.append((path, suffix))

    with Lock():
        # 1. proofs
        ok, out = build_lean(thm["modules"] + ["driver"])
        if not ok:
            p = write_replay(prop, "proof", [], -1, None, None, "lake build failed",
                             {"log": out[-4000:], "theorems": thm["theorems"]})
            violation(p, " no-failing-input-found")
            cov["explanation"] = "lake build failed"
            write_evidence(res)
            return res
        good, bad, scan_bad, alog = audit(prop)
        if os.environ.get("VERIF_DEV_SKIP_PROOF") == "1":     # development only: never set by MANIFEST commands
            res.notes.append("NOTE: proof audit result ignored (VERIF_DEV_SKIP_PROOF): %d undischarged" % (len(bad) + len(scan_bad)))
            bad, scan_bad = [], []
        cov["discharged"] = len(good)
        if bad or scan_bad:
            p = write_replay(prop, "proof", [], -1, None, None, "proof obligation not discharged",
                             {"undischarged": bad, "forbidden_constructs": scan_bad, "log": alog[-3000:]})
            violation(p, " no-failing-input-found")
        if tier == "thorough":
            rc, lc = sh(["lake", "env", "leanchecker"] + thm["modules"], cwd=LEAN, timeout=3600)
            cov["leanchecker"] = "ok" if rc == 0 else "FAILED"
            if rc != 0:
                p = write_replay(prop, "proof", [], -1, None, None, "leanchecker rejected the compiled proofs", {"log": lc[-3000:]})
                violation(p, " no-failing-input-found")
        # 2. the implementation under test
        ok, out = build_harness()
        if not ok:
            p = write_replay(prop, "harness-build", [], -1, None, None, "cargo build of the executor failed", {"log": out[-4000:]})
            violation(p, " no-failing-input-found")
            cov["explanation"] = "the tie to the code could not be established: executor does not build"
            write_evidence(res)
            return res
        # 2a. the tie by translation: regenerate the translated fragments from the source and re-check them
        tie_info, tie_breaks = tie_check(prop)
        cov["translator_tie"] = tie_info
        cov["obligations"] += sum(len(t["theorems"]) for t in tie_info.get("modules", {}).values())
        cov["discharged"] += sum(len(t["theorems"]) for t in tie_info.get("modules", {}).values() if t.get("status", "").startswith("checked"))
        fz_lines, fz_info = ([], {"status": "off (VERIF_NO_FUZZ)"}) if os.environ.get("VERIF_NO_FUZZ") else fuzz_lines(tier, seed)
        cov["coverage_guided_search"] = fz_info

    # 2b. static part of the tie: the state the code can carry must be the state the model has
    static_breaks = [] if prop in ("C18", "C19") else state_inventory.check()
    cov["state_inventory"] = "matches the model's Ctx" if not static_breaks else static_breaks

    # 3. generate and run
    pairs = []
    corpus = os.path.join(VERIF, "corpus", prop + ".txt")
    if os.path.exists(corpus):
        for l in open(corpus):
            l = l.strip()
            if l and not l.startswith("#"):
                pairs.append((l, "corpus"))
    pairs += gen.gen_for(prop, tier, seed)
    # 3a. dictionary for the search: integer literals that are new in /repo/src are planted into these cases
    try:
        base_lits = json.load(open(state_inventory.EXPECTED)).get("literals")
    except (OSError, ValueError):
        base_lits = None
    new_lits = litdir.new_literals(base_lits) if base_lits is not None else []
    lit_pairs = litdir.directed(pairs, new_lits, seed, cap=120000 if tier == "thorough" else 45000)
    pairs += lit_pairs
    cov["literal_directed"] = {"new_literals_in_src": new_lits, "cases": len(lit_pairs)}
    pairs += [(l, "fuzz-corpus") for l in fz_lines]
    lines = [p[0] for p in pairs]
    fams = [p[1] for p in pairs]
    try:
        results = evaluate(lines)
        extra = second_pass(prop, lines, fams, results, rnd)
        if extra:
            # second run: every state-changing operation again, in the original order, and each derived
            # operation right after the operation it was derived from (so that it meets the same state)
            by_src = {}
            for e in extra:
                by_src.setdefault(e[2], []).append(e)
            lines2, fams2 = [], []
            for i, l in enumerate(lines):
                if l.startswith(("ctx ", "seteid ", "setuuid ", "proc ")):
                    lines2.append(l)
                    fams2.append("setup2")
                for e in by_src.get(i, ()):
                    lines2.append(e[0])
                    fams2.append(e[1])
            r2 = evaluate(lines2)
            off = len(lines)
            lines = lines + lines2
            fams = fams + fams2
            results = results + r2
    except RuntimeError as e:
        p = write_replay(prop, "run", [], -1, None, None, str(e)[:3000])
        violation(p, " no-failing-input-found")
        write_evidence(res)
        return res

    # 3b. sweeps whose digests differ are expanded into their 65 536 individual cases
    sweep_cases = 0
    expand = []
    for l, (o, m, iv, mv) in zip(lines, results):
        if iv.get("*sweep") == "agree":
            sweep_cases += 65536
        elif iv.get("*sweep") == "differ":
            expand.append(l)
    if expand:
        ex_lines = []
        for l in expand[:3]:
            t = l.split()
            if t[0] == "decsweep":
                pk, i, j, fix = bytearray.fromhex(t[1]), int(t[2]), int(t[3]), t[4] == "fix"
                for a in range(256):
                    for b in range(256):
                        q = bytearray(pk)
                        if i < len(q):
                            q[i] = a
                        if j < len(q):
                            q[j] = b
                        if fix and q:
                            q[-1] = gen.crc8(q[:-1])
                        ex_lines.append("dec " + gen.hx(q))
            else:
                cid, pk, i, j, buf = t[1], bytearray.fromhex(t[2]), int(t[3]), int(t[4]), t[5]
                ex_lines += history_for(lines, lines.index(l))[:-1]
                for a in range(256):
                    for b in range(256):
                        q = bytearray(pk)
                        if i < len(q):
                            q[i] = a
                        if j < len(q):
                            q[j] = b
                        if q:
                            q[-1] = gen.crc8(q[:-1])
                        ex_lines.append("proc %s %s %s" % (cid, gen.hx(q), buf))
        try:
            r3 = evaluate(ex_lines)
            lines = lines + ex_lines
            fams = fams + ["sweep-expanded"] * len(ex_lines)
            results = results + r3
        except RuntimeError as e:
            res.notes.append("sweep expansion failed to run: %s" % e)

    # 4. classify
    n_eval = 0
    distinct = set()
    branches = {}
    famhist = {}
    spec_fail = corr_break = model_spec_fail = 0
    samples = []
    reported = set()
    search_seeds = []
    for i, (l, (o, m, iv, mv)) in enumerate(zip(lines, results)):
        kind = l.split()[0]
        if kind == "ctx":
            continue
        if "*sweep" in iv:
            if iv["*sweep"] == "differ":
                corr_break += 1
                if len(search_seeds) < 12 and not any(x.startswith("sweep-expanded") for x in fams[-1:]):
                    pass
            continue
        relevant = (prop in iv) or (prop in mv) or kind in ("view", "conv", "new", "hdr", "sweep") or iv.get("*") == "unparsed"
        if kind in ("seteid", "setuuid") and prop != "C13":
            relevant = (kind == "setuuid" and prop == "C15")
        if (m.split(" ## ")[0] == "bad-op") != (o == "bad-op"):
            # the two sides of the line protocol disagree on whether the operation is well-formed:
            # glue mismatch, must not be dropped silently
            relevant = True
        if not relevant:
            continue
        n_eval += 1
        famhist[fams[i].split("|")[-1]] = famhist.get(fams[i].split("|")[-1], 0) + 1
        br = branch_of(l, m)
        branches[br] = branches.get(br, 0) + 1
        if nontrivial(l, m):
            distinct.add(l if kind not in ("proc", "seteid", "setuuid") else (l, i_ctx_epoch(lines, i)))
        if len(samples) < 6 and n_eval % 997 == 1:
            samples.append({"op": l[:300], "impl": o[:200], "model": m[:200], "family": fams[i]})
        if mv.get(prop, "").startswith("fail"):
            model_spec_fail += 1
            if "modelspec" not in reported:
                reported.add("modelspec")
                p = write_replay(prop, "model-vs-spec", history_for(lines, i), i, o, m, mv.get(prop),
                                 {"note": "the model itself fails the specification clause: proof or driver glue is broken"})
                violation(p, " no-failing-input-found")
        v = iv.get(prop, "na")
        if iv.get("*") == "unparsed":
            v = "fail:unparsed-observation"
        if v.startswith("known:") and v.split(":", 1)[1] in known:
            res.known_hit.setdefault(v.split(":", 1)[1], l)
            continue
        if v.startswith("fail") or v.startswith("known:"):
            spec_fail += 1
            sig = (v, fams[i].split("|")[-1].split(":")[0])
            if sig not in reported and len(res.violations) < 8:
                reported.add(sig)
                ops = history_for(lines, i)
                if len(ops) > 3:
                    ops = minimise(prop, ops, known)
                p = write_replay(prop, "spec-violation", ops, len(ops) - 1, o, m, v, {"family": fams[i]})
                violation(p)
            continue
        if mv.get(prop, "").startswith("known:") and not v.startswith("known"):
            fid = mv[prop].split(":", 1)[1]
            if ("repaired", fid) not in reported:
                reported.add(("repaired", fid))
                res.notes.append("NOTE: finding %s no longer reproduces (e.g. %s): nothing is claimed on that class" % (fid, l[:120]))
            continue
        if project(prop, l, o) != project(prop, l, m):
            corr_break += 1
            if len(search_seeds) < 12:
                search_seeds.append(i)
    for (i, why) in relational(prop, lines, results):
        spec_fail += 1
        if ("rel", why.split(":")[0]) not in reported and len(res.violations) < 8:
            reported.add(("rel", why.split(":")[0]))
            p = write_replay(prop, "spec-violation", history_for(lines, i), i, results[i][0], results[i][1], "fail:" + why)
            violation(p)
    if prop == "C11":
        # process agrees with decode of the same bytes on the implementation
        decs = {}
        need = sorted({l.split()[2] for l in lines if l.startswith("proc ")})
        dl = ["dec " + pk for pk in need]
        try:
            dobs = run_exec(dl)
            for pk, o in zip(need, dobs):
                decs[pk] = o
            for i, l in enumerate(lines):
                if l.startswith("proc "):
                    o = results[i][0].split(" | ")[0]
                    if o.startswith("panic"):
                        continue
                    want = decs[l.split()[2]]
                    got = " ".join(o.split()[:4]) if o.startswith("ok") else o
                    if got != want:
                        spec_fail += 1
                        if "agrees" not in reported:
                            reported.add("agrees")
                            p = write_replay(prop, "spec-violation", history_for(lines, i), i, results[i][0], results[i][1],
                                             "fail:process-disagrees-with-decode (%s vs %s)" % (got, want))
                            violation(p)
        except RuntimeError as e:
            res.notes.append("decode cross-check failed to run: %s" % e)

    # 5. correspondence broken without an observed spec violation: search, then report
    if corr_break and not res.violations:
        found = None
        tried = 0
        for i in search_seeds:
            hist = history_for(lines, i)
            muts = mutate_line(lines[i], rnd)
            batch = []
            for mline in muts:
                batch.append(hist[:-1] + [mline])
            flat = []
            marks = []
            for ops in batch[: max_search // max(1, len(hist))]:
                # fresh context ids are not needed: histories replay from their ctx line
                flat += ops
                marks.append(len(flat) - 1)
            if not flat:
                continue
            try:
                rr = evaluate(flat)
            except RuntimeError:
                continue
            tried += len(marks)
            for ops, k in zip(batch, marks):
                if fails(prop, rr[k][2], known):
                    found = (ops, rr[k])
                    break
            if found:
                break
        i0 = search_seeds[0]
        if found:
            ops, (o, m, iv, mv) = found
            p = write_replay(prop, "spec-violation", ops, len(ops) - 1, o, m, iv.get(prop), {"found_by": "search around a correspondence break"})
            violation(p)
        else:
            p = write_replay(prop, "correspondence", history_for(lines, i0), len(history_for(lines, i0)) - 1,
                             results[i0][0], results[i0][1], "model and implementation disagree on the projection of " + prop,
                             {"disagreements": corr_break, "search_tried": tried, "theorems_resting_on_model": thm["theorems"],
                              "projection_impl": repr(project(prop, lines[i0], results[i0][0]))[:500],
                              "projection_model": repr(project(prop, lines[i0], results[i0][1]))[:500]})
            violation(p, " no-failing-input-found")

    if static_breaks and not res.violations:
        # the code has state the model does not have (or lost some): proofs about histories no longer
        # transfer; no failing input was found by this run
        p = write_replay(prop, "state-shape", [], -1, None, None,
                         "the code's state no longer matches the model's context: " + "; ".join(static_breaks)[:1500],
                         {"static_differences": static_breaks, "theorems_resting_on_model": thm["theorems"],
                          "note": "checker/state_inventory.py compares the fields of the three context structs and every static / Cell / "
                                  "atomic / unsafe construct in the non-test source with the inventory the model was written against"})
        violation(p, " no-failing-input-found")
    elif static_breaks:
        res.notes.append("NOTE: the code's state also differs from the model's context: " + "; ".join(static_breaks)[:300])

    if tie_breaks and not res.violations:
        # a theorem that ties translated source to the model no longer checks, and this run found no input
        # on which the property fails
        p = write_replay(prop, "translated-tie", [], -1, None, None,
                         "the code as translated from /repo's working tree no longer equals the model: "
                         + "; ".join("%s: %s" % (b["module"], ", ".join(b["failed"])) for b in tie_breaks)[:1500],
                         {"broken_ties": tie_breaks, "theorems_resting_on_model": thm["theorems"],
                          "note": "lean/Mctp/Gen/Source.lean is the translation of the current source (checker/translate.py); "
                                  "the listed theorems of Mctp/Tie state that it equals the hand-written model"})
        violation(p, " no-failing-input-found")
    elif tie_breaks:
        res.notes.append("NOTE: the translated source also differs from the model: "
                         + "; ".join("%s: %s" % (b["module"], ", ".join(b["failed"])) for b in tie_breaks)[:400])

    for fid, text in known.items():
        if fid in res.known_hit:
            pass
        else:
            res.notes.append("NOTE: finding %s did not reproduce in this run" % fid)

    cov.update({
        "evaluations": n_eval + sweep_cases,
        "sweep_cases_digest_compared": sweep_cases,
        "exhaustive_in_process_sweeps": [l for l in lines if l.startswith("sweep ") or l.startswith("lensweep ")][:8],
        "distinct_nontrivial": len(distinct),
        "rule": "systematic families first, random second (one PRNG, seed above); a case is an op line (with its context "
                "history for stateful ops); non-trivial = the model does more than reject it at the transport/body header; "
                "distinct = different op text (and context epoch for stateful ops)",
        "samples": samples or [{"op": lines[-1][:300]}],
        "traces_validated_against_impl": n_eval,
        "families": famhist,
        "model_branches": branches,
        "spec_violations_impl": spec_fail,
        "correspondence_disagreements": corr_break,
        "model_vs_spec_failures": model_spec_fail,
        "known_findings_hit": sorted(res.known_hit),
        "exhaustive": prop in ("C19",),
    })
    write_evidence(res)
    return res


def finish(res):
    known = load_findings().get(res.prop, {})
    for fid in sorted(res.known_hit):
        print("KNOWN-FINDING: property=%s %s %s" % (res.prop, fid, known.get(fid, "")))
    for n in res.notes:
        print(n)
    for (p, suffix) in res.violations:
        print("VIOLATION property=%s replay=%s%s" % (res.prop, p, suffix))
    c = res.cov
    print("%s %s: obligations %s/%s, %s cases (%s distinct non-trivial), spec violations %s, correspondence breaks %s, %.1fs" % (
        res.prop, res.tier, c.get("discharged"), c.get("obligations"), c.get("evaluations"), c.get("distinct_nontrivial"),
        c.get("spec_violations_impl"), c.get("correspondence_disagreements"), time.time() - res.t0))
    return 1 if res.violations else 0


def replay(path):
    doc = json.load(open(path))
    prop = doc["property"]
    ACTIVE_PROP[0] = prop
    known = load_findings().get(prop, {})
    ops = doc.get("ops") or []
    if not ops:
        print("replay %s: no operations recorded (%s): %s" % (path, doc.get("kind"), doc.get("verdict")))
        return 1
    with Lock():
        ok, out = build_lean(["driver"])
        ok2, out2 = build_harness()
    if not (ok and ok2):
        print("replay: build failed")
        return 1
    rr = evaluate(ops)
    bad = False
    for l, (o, m, iv, mv) in zip(ops, rr):
        agree = project(prop, l, o) == project(prop, l, m)
        print("op    %s\n impl  %s\n model %s\n spec(impl) %s  spec(model) %s  agree=%s" % (
            l[:400], o[:400], m[:400], iv.get(prop, "na"), mv.get(prop, "ok/na"), agree))
        if fails(prop, iv, known) or not agree:
            bad = True
    print("REPLAY %s: %s" % (prop, "still failing" if bad else "no longer failing"))
    return 1 if bad else 0


_addr = {}
