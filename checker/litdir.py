#!/usr/bin/env python3
"""Literal-directed cases: a dictionary for the search, taken from the code under test.

The generators of gen.py sweep every single byte position and many relations, but a change that
only matters for one particular value *combined with* something else (two fields equal to a magic
value, a length equal to a new bound, the n-th call) is found only if that value is tried in the
right places.  Fuzzers solve this with a dictionary of the constants that occur in the program.
Here: the integer literals of the non-test part of /repo/src are harvested on every run and compared
with the literals recorded when the model was written (state_inventory.json, key "literals").
Every literal that is NEW is then planted, alone and in pairs, into the operations the property's
generators produced: every byte position of packets, every byte / blob / vendor argument of encoder
calls, destinations, addresses, EIDs, packet / payload / buffer lengths around it, and the number
of repetitions of an operation.

These are ordinary cases: they run through the implementation, the model and the judge like any
other.  New literals by themselves are never reported - a harmless rewrite may introduce any
constant it likes.  On the unchanged tree there are no new literals and this module adds nothing.
VERIF_FORCE_LITS=90,200 (development only) plants the given values regardless.
"""
import os
import random
import re

try:
    from . import gen
except ImportError:      # run as a script
    import gen

REPO_SRC = "/repo/src"
MAX_SIZE = 70000


def harvest(src_dir=REPO_SRC):
    try:
        from .state_inventory import non_test
    except ImportError:
        from state_inventory import non_test
    out = set()
    for fn in sorted(os.listdir(src_dir)):
        if not fn.endswith(".rs"):
            continue
        src = non_test(open(os.path.join(src_dir, fn)).read())
        for m in re.finditer(r"(?<![\w.])(0x[0-9a-fA-F_]+|0b[01_]+|0o[0-7_]+|\d[\d_]*)(?:_?(?:u8|u16|u32|u64|usize|i8|i16|i32|i64|isize))?\b", src):
            txt = m.group(1).replace("_", "")
            try:
                v = int(txt, 0) if txt[:2] in ("0x", "0b", "0o") else int(txt)
            except ValueError:
                continue
            if 0 <= v < (1 << 32):
                out.add(v)
    return out


def new_literals(expected):
    forced = os.environ.get("VERIF_FORCE_LITS")
    if forced:
        return sorted(int(x, 0) for x in forced.split(",") if x)
    return sorted(harvest() - set(expected or []))


def _is_byte(tok):
    return len(tok) == 2 and re.fullmatch(r"[0-9a-f]{2}", tok) is not None


def _is_blob(tok):
    return tok == "-" or (len(tok) >= 4 and len(tok) % 2 == 0 and re.fullmatch(r"[0-9a-f]+", tok) is not None)


def _counted(n, start=0):
    return [(start + i) & 0xFF for i in range(n)]


def _pkt_key(q):
    return (q[8] if len(q) > 8 else -1, q[9] & 0x80 if len(q) > 9 else -1, q[10] if len(q) > 10 else -1, min(len(q), 40))


def directed(pairs, lits, seed, cap=45000):
    """extra (line, family) pairs; `pairs` is what the property's generators produced"""
    if not lits:
        return []
    r = random.Random((seed << 8) ^ 0x11D)
    vals = sorted(set(lits))
    B = sorted({v & 0xFF for v in vals} | {(v >> 8) & 0xFF for v in vals if v > 0xFF})[:6]
    B2 = B[:3]
    sizes = sorted({v + d for v in vals for d in (-1, 0, 1) if 0 <= v + d <= MAX_SIZE})
    # windows around each literal (total length vs payload length vs data length differ by up to 14);
    # literals beyond 4096 are costly as lengths: only the value itself and its neighbours, on a few calls
    win = sorted({v + d for v in vals for d in (range(-2, 15) if v <= 4096 else (-1, 0, 1)) if 10 <= v + d <= MAX_SIZE})
    blobwin = sorted({v + d for v in vals for d in (range(-14, 3) if v <= 4096 else (-1, 0, 1)) if 0 <= v + d <= MAX_SIZE})

    ctxdef = {}
    base = {}          # key -> [lines]
    for l, fam in pairs:
        t = l.split()
        if not t:
            continue
        if t[0] == "ctx":
            ctxdef[t[1]] = t
            continue
        if t[0] in ("dec", "proc", "len"):
            pk = t[2] if (t[0] == "proc" or len(t) == 3) else t[1]
            try:
                q = list(bytes.fromhex(pk)) if pk != "-" else []
            except ValueError:
                continue
            key = (t[0],) + _pkt_key(q)
        elif t[0] in ("enc", "encr") and len(t) >= 5:
            key = (t[0], t[3], len(t))
        elif t[0] in ("seteid", "setuuid"):
            key = (t[0], t[2] if t[0] == "seteid" else "")
        elif t[0] == "view" and len(t) >= 3:
            key = ("view", t[1], t[2] if t[1] in ("get", "set") else "")
        elif t[0] in ("new", "hdr"):
            key = (t[0], t[1])
        else:
            continue
        base.setdefault(key, [])
        if len(base[key]) < 2:
            base[key].append(l)
        elif r.random() < 0.02:
            base[key][r.randrange(2)] = l
    out = []

    def add(line, fam):
        out.append((line, "lit:" + fam))

    keys = sorted(base, key=lambda k: tuple(str(x) for x in k))
    r.shuffle(keys)
    heavy_budget = {"pairs": 30, "sizes": 14, "repeat": 10, "ctx": 12, "bigbuf": 6}

    def take(kind):
        if heavy_budget[kind] > 0:
            heavy_budget[kind] -= 1
            return True
        return False

    nctx = [0]
    for key in keys:
        for l in base[key][:1 if len(keys) > 150 else 2]:
            t = l.split()
            k = t[0]
            if k in ("dec", "proc", "len"):
                has_cid = (k == "proc" or len(t) == 3)
                pi = 2 if has_cid else 1
                q = list(bytes.fromhex(t[pi])) if t[pi] != "-" else []
                good = len(q) >= 2 and gen.crc8(q[:-1]) == q[-1]

                def emit(qq, fam, buf=None):
                    tt = list(t)
                    tt[pi] = gen.hx(qq)
                    if buf is not None and k == "proc":
                        tt[3] = buf
                    add(" ".join(tt), fam)

                def fix(qq):
                    return gen.refix(qq) if good else qq
                for i in range(min(len(q), 28)):
                    for b in B:
                        if q[i] != b:
                            qq = list(q)
                            qq[i] = b
                            emit(fix(qq) if i != len(q) - 1 else qq, "byte")
                if take("pairs"):
                    lim = min(len(q) - 1, 15)
                    for i in range(lim):
                        for j in range(i + 1, lim):
                            for b1 in B2:
                                for b2 in B2:
                                    qq = list(q)
                                    qq[i], qq[j] = b1, b2
                                    emit(fix(qq), "byte-pair")
                if len(q) >= 10 and take("sizes"):
                    for s in win:
                        body = q[9:-1]
                        need = s - 10
                        nb = (body + _counted(max(0, need - len(body)), len(body)))[:need]
                        qq = q[:9] + nb + [0]
                        qq[2] = (len(qq) - 4) & 0xFF
                        emit(gen.refix(qq), "length")
                    if k == "proc":
                        for s in sizes:
                            if s <= 4096 or take("bigbuf"):
                                emit(q, "response-buffer", gen.hx([r.randrange(256) for _ in range(s)]))
                if k != "len" and has_cid and len(l) < 1500 and take("repeat"):
                    n = max([v for v in vals if v <= 2000000] + [2]) + 2
                    add(l, "repeat-first")
                    add("repeat %d %s" % (n, l), "repeat")
                    if k == "proc":
                        cid = t[1]
                        a = int(ctxdef[cid][2], 16) & 0x7F if cid in ctxdef else 0x10
                        for body in (gen.ctrl_req(2, []), gen.ctrl_req(3, []), gen.ctrl_req(5, []), gen.ctrl_req(6, [0])):
                            add("proc %s %s %s" % (cid, gen.hx(gen.forge(a, 0x31, 0x09, 0x31, 0, body)), gen.hx([0] * 96)), "repeat-probe")
            elif k in ("enc", "encr"):
                args = t[4:-1]

                def emit(tt, fam):
                    add(" ".join(tt), fam)
                for b in B:
                    tt = list(t)
                    tt[2] = gen.hb(b)
                    emit(tt, "dest")
                idx = [4 + i for i, a in enumerate(args) if _is_byte(a)]
                for i in idx:
                    for b in B:
                        tt = list(t)
                        tt[i] = gen.hb(b)
                        emit(tt, "arg")
                for i in idx:
                    for j in idx + [2]:
                        if i < j or j == 2:
                            for b1 in B2:
                                for b2 in B2:
                                    tt = list(t)
                                    tt[i], tt[j] = gen.hb(b1), gen.hb(b2)
                                    emit(tt, "arg-pair")
                for i, a in enumerate(args):
                    if "." in a and re.fullmatch(r"[0-9a-f]{2}\.[0-9a-f]{8}\.[0-9a-f]{4}", a):
                        f = a.split(".")
                        for v in vals:
                            tt = list(t)
                            tt[4 + i] = "%s.%08x.%04x" % (f[0], v & 0xFFFFFFFF, int(f[2], 16))
                            emit(tt, "vendor-id")
                            tt = list(t)
                            tt[4 + i] = "%s.%s.%04x" % (f[0], f[1], v & 0xFFFF)
                            emit(tt, "vendor-id")
                        for b in B:
                            tt = list(t)
                            tt[4 + i] = "%02x.%s.%s" % (b, f[1], f[2])
                            emit(tt, "vendor-format")
                    elif _is_blob(a) and not _is_byte(a):
                        blob = list(bytes.fromhex(a)) if a != "-" else []
                        for pos in range(min(len(blob), 8)):
                            for b in B:
                                bb = list(blob)
                                bb[pos] = b
                                tt = list(t)
                                tt[4 + i] = gen.hx(bb)
                                emit(tt, "blob-byte")
                        if take("sizes"):
                            for s in blobwin:
                                tt = list(t)
                                tt[4 + i] = gen.hx((blob + _counted(max(0, s - len(blob)), len(blob)))[:s])
                                big = max(len(bytes.fromhex(t[-1])) if t[-1] != "-" else 0, s + 32)
                                tt[-1] = gen.hx([0] * big)
                                emit(tt, "blob-length")
                bigok = take("bigbuf")
                for s in sizes:
                    if s > 4096 and not bigok:
                        continue
                    tt = list(t)
                    tt[-1] = gen.hx([r.randrange(256) for _ in range(s)])
                    emit(tt, "buffer")
                if t[1] in ctxdef and take("ctx"):
                    # every context gets its EIDs before its first call (the round-trip pass replays
                    # calls against the context's final state)
                    c = ctxdef[t[1]]
                    for b in B:
                        nctx[0] += 1
                        cid = "lit%d" % nctx[0]
                        add("ctx %s %s %s %s" % (cid, gen.hb(b), c[3], c[4]), "ctx-address")
                        tt = list(t)
                        tt[1] = cid
                        emit(tt, "ctx-address")
                        nctx[0] += 1
                        cid = "lit%d" % nctx[0]
                        add("ctx %s %s %s %s" % (cid, c[2], c[3], c[4]), "ctx-eid")
                        add("seteid %s req %s" % (cid, gen.hb(b)), "ctx-eid")
                        add("seteid %s resp %s" % (cid, gen.hb(b)), "ctx-eid")
                        tt = list(t)
                        tt[1] = cid
                        emit(tt, "ctx-eid")
                        for b2 in B2:
                            tt2 = list(tt)
                            tt2[2] = gen.hb(b2)
                            emit(tt2, "ctx-eid-dest")
                if len(l) < 1500 and take("repeat"):
                    n = max([v for v in vals if v <= 2000000] + [2]) + 2
                    add("repeat %d %s" % (n, l), "repeat")
            elif k in ("seteid", "setuuid") and t[1] in ctxdef and take("ctx"):
                c = ctxdef[t[1]]
                sets = []
                if k == "seteid":
                    sets = [["seteid %s %s %s" % ("%s", t[2], gen.hb(b))] for b in B]
                elif _is_blob(t[2]) and len(t[2]) == 32:
                    u = list(bytes.fromhex(t[2]))
                    for b in B:
                        for pos in (0, 7, 15):
                            uu = list(u)
                            uu[pos] = b
                            sets.append(["setuuid %s " + gen.hx(uu)])
                        sets.append(["setuuid %s " + gen.hx([b] * 16)])
                a7 = int(c[2], 16) & 0x7F
                for grp in sets:
                    nctx[0] += 1
                    cid = "lit%d" % nctx[0]
                    add("ctx %s %s %s %s" % (cid, c[2], c[3], c[4]), "ctx-set")
                    for x in grp:
                        add(x % cid, "ctx-set")
                    for body in (gen.ctrl_req(2, []), gen.ctrl_req(3, []), gen.ctrl_req(5, []), gen.ctrl_req(6, [0])):
                        add("proc %s %s %s" % (cid, gen.hx(gen.forge(a7, 0x31, 0x09, 0x31, 0, body)), gen.hx([0] * 96)), "ctx-set-probe")
            elif k == "view":
                if t[1] == "get" and _is_blob(t[3]):
                    raw = list(bytes.fromhex(t[3]))
                    for pos in range(len(raw)):
                        for b in B:
                            rr = list(raw)
                            rr[pos] = b
                            add("view get %s %s" % (t[2], gen.hx(rr)), "view")
                elif t[1] == "set" and _is_blob(t[4]):
                    raw = list(bytes.fromhex(t[4]))
                    for v in vals:
                        wide = 0xFFFF if t[2].startswith("pci") else 0xFFFFFFFF if t[2].startswith("iana") else 0xFF
                        add("view set %s %x %s" % (t[2], v & wide, t[4]), "view")
                    for pos in range(len(raw)):
                        for b in B:
                            rr = list(raw)
                            rr[pos] = b
                            add("view set %s %s %s" % (t[2], t[3], gen.hx(rr)), "view")
            elif k in ("new", "hdr"):
                idx = [i for i in range(2, len(t)) if _is_byte(t[i])]
                for i in idx:
                    for b in B:
                        tt = list(t)
                        tt[i] = gen.hb(b)
                        add(" ".join(tt), "ctor")
    if len(out) > cap:
        # keep every repeat/ctx group intact (they are order dependent), sample the rest
        keep_always = [i for i, (l, f) in enumerate(out) if f.startswith(("lit:repeat", "lit:ctx"))]
        rest = [i for i in range(len(out)) if i not in set(keep_always)]
        chosen = set(keep_always) | set(r.sample(rest, max(0, cap - len(keep_always))))
        out = [x for i, x in enumerate(out) if i in chosen]
    return out
