#!/usr/bin/env python3
"""Static part of the tie between model and code: the *state* the code can carry.

The Lean model's `Ctx` has exactly these fields: the immutable address (both halves), the two EID
cells, the UUID, the configured message types and vendor sets, and the scratch vendor selector cell.
Every theorem about histories (C02, C09-C17) and every "same call, same answer" clause rests on
the code having no other state.  This module extracts, from the non-test part of /repo/src, the
fields of the three context structs and every construct that can hold state across calls
(`static`, `Cell`, `RefCell`, atomics, `thread_local!`, `unsafe`, raw pointers), and compares
them with the inventory the model was written against (state_inventory.json).

A difference does not say a property is violated - it says the model no longer describes the
state space of the code, so the proofs about histories no longer transfer.  The check then relies on
the dynamic search for a failing input and, if none is found, reports the broken tie.

usage: state_inventory.py [--write]   (prints the inventory; --write refreshes the expected file)
"""
import json
import os
import re
import sys

REPO_SRC = "/repo/src"
HERE = os.path.dirname(os.path.abspath(__file__))
EXPECTED = os.path.join(HERE, "state_inventory.json")
STRUCTS = ["MCTPSMBusContext", "MCTPSMBusContextRequest", "MCTPSMBusContextResponse"]
PATTERNS = {
    "static": r"\bstatic\s+(mut\s+)?[A-Z_a-z]",
    "Cell": r"\bCell\s*<",
    "RefCell": r"\bRefCell\s*<",
    "Atomic": r"\bAtomic[A-Z][A-Za-z0-9]*",
    "thread_local": r"\bthread_local\s*!",
    "unsafe": r"\bunsafe\b",
    "raw-pointer": r"\*\s*(const|mut)\s+[A-Za-z_\[]",
    "OnceCell/Lazy": r"\b(OnceCell|OnceLock|LazyLock|Lazy)\b",
}


def non_test(src):
    """the file without its trailing `#[cfg(test)] mod …` blocks and without comments"""
    k = src.find("#[cfg(test)]\nmod ")
    if k >= 0:
        src = src[:k]
    src = re.sub(r"//[^\n]*", "", src)
    src = re.sub(r"/\*.*?\*/", "", src, flags=re.S)
    return src


def inventory(src_dir=REPO_SRC):
    inv = {"structs": {}, "constructs": {}}
    if src_dir == REPO_SRC:
        # the integer literals of the code: not compared (a rewrite may use any constant), only used as
        # the baseline against which litdir.py finds the literals that are new
        try:
            from . import litdir
        except ImportError:
            import litdir
        inv["literals"] = sorted(litdir.harvest(src_dir))
    for fn in sorted(os.listdir(src_dir)):
        if not fn.endswith(".rs"):
            continue
        src = non_test(open(os.path.join(src_dir, fn)).read())
        for name in STRUCTS:
            m = re.search(r"pub\s+struct\s+%s\s*(<[^>]*>)?\s*\{(.*?)\n\}" % name, src, flags=re.S)
            if m:
                fields = []
                for line in m.group(2).split(","):
                    line = " ".join(line.split())
                    line = re.sub(r"^(pub(\([a-z]+\))?\s+)", "", line)
                    if line:
                        fields.append(line)
                inv["structs"][name] = fields
        for key, pat in PATTERNS.items():
            n = len(re.findall(pat, src))
            if n:
                inv["constructs"]["%s:%s" % (fn, key)] = n
    return inv


def diff(expected, actual):
    out = []
    for name in sorted(set(expected["structs"]) | set(actual["structs"])):
        e, a = expected["structs"].get(name), actual["structs"].get(name)
        if e != a:
            out.append("struct %s: fields %s, the model was written against %s" % (name, a, e))
    for key in sorted(set(expected["constructs"]) | set(actual["constructs"])):
        e, a = expected["constructs"].get(key, 0), actual["constructs"].get(key, 0)
        if e != a:
            out.append("%s occurrences: %d, the model was written against %d" % (key, a, e))
    return out


def check():
    if not os.path.exists(EXPECTED):
        return ["no expected inventory recorded"]
    return diff(json.load(open(EXPECTED)), inventory())


if __name__ == "__main__":
    inv = inventory()
    print(json.dumps(inv, indent=1))
    if "--write" in sys.argv:
        json.dump(inv, open(EXPECTED, "w"), indent=1)
        print("written", EXPECTED)
