#!/usr/bin/env python3
"""Regenerates /verif/MANIFEST.json from the table below.
usage: python3 checker/manifest.py C17 C18 C19 ...   (the properties to claim; the rest is listed
under not_applicable with the reason given with --pending)"""
import json
import os
import sys

VERIF = os.path.dirname(os.path.dirname(os.path.abspath(__file__)))

NOTE = ("Trusted: Lean 4.33.0 kernel; axioms at most {propext, Classical.choice, Quot.sound} (audited per theorem on every run, "
        "sources scanned for sorry/native_decide/bv_decide/axiom); the hand-written L1 model (lean/Mctp/Model) and L2 specification "
        "(lean/Mctp/Spec); the Rust executor, Lean driver and Python orchestrator. The model is tied to /repo's working tree by "
        "this check's correspondence run (differential, generator-bounded, preceded by literal-directed cases and a coverage-guided libFuzzer search; "
        "exhaustive in-process sweeps where the domain allows; a static inventory of the code's state-carrying constructs compared with the model's context) "
        "and, for the declarative core (From<u8> conversions, length tables, enum values, bitfield! declarations, constants), by a translator that "
        "regenerates lean/Mctp/Gen/Source.lean from rustc's MIR and the source text on every run, with theorems (lean/Mctp/Tie, checker/ties.json) that "
        "the translated code equals the model for all inputs; trusted for that: the MIR dump, the syntactic parser checker/translate.py and the "
        "MIR-fragment semantics lean/Mctp/Mir/Sem.lean. Modelled, not verified: Rust slice/index/cast/overflow "
        "semantics, the bitfield 0.14.0 macro expansion, smbus-pec's CRC, Cell. ")

P = {
    "C01": ("Lean 4 proof (encode/decode normal forms composed) + correspondence: real encoder output fed to the real decoder, judged by the L2 round-trip spec",
            "Theorems C01.roundtrip_partial / response_error state, for every encoder call outside two finding classes, every address, argument and buffer, that the model's decoder returns the encoded type and a payload that is byte-for-byte the encoded one, ending right before the PEC; request_unimpl and geteid_response_rejected prove the two classes (D3, D2) are exactly where the full statement fails. Proof level, partial because the unchanged code violates the property on D2/D3 (known findings).",
            "Partial: D2 and D3 are genuine defects recorded in known_findings.txt. "),
    "C02": ("Lean 4 proof (CRC linearity over GF(2), burst decomposition, 256-row kernel tables) + correspondence with wrong PECs, bit flips and bursts on every decoder arm",
            "C02.decode_ok_pec / process_ok_pec: success implies the last byte is the bit-serial CRC-8 of the rest, for every byte string; bad_pec_inert / bad_pec_no_later_effect: otherwise context, buffer and every later observation are unchanged; burst: no error pattern confined to 8 consecutive wire bits leaves a valid packet valid - for packets of every length.",
            ""),
    "C03": ("Lean 4 proof (byte-wise CRC = bit-serial LFSR; packet normal form) + correspondence on every encoder and body length",
            "C03.crc8_eq_spec proves the library's byte-wise algorithm equal to the bit-serial SMBus PEC (poly 0x07, init 0, MSB first) for every byte string; C03.pec proves every successfully encoded packet ends in the PEC of its prefix and has CRC 0, for every encoder, address, argument and buffer.",
            ""),
    "C04": ("Lean 4 proof (header closed forms, length arithmetic) + correspondence over all 128x128 address pairs, body sizes 0-300 and get_length on prefixes",
            "C04.frame: destination address byte, command 0x0F, byte count = length-4, source address byte with bit 0 set, reported length = packet length, for every encoder call; probe_prefix: the length probe on any prefix of >= 3 bytes returns that length; oversize / length_bound: bodies over 250 bytes are refused, lengths stay within 259.",
            "Needs fix b455655 (byte count arithmetic) in /repo. "),
    "C05": ("Lean 4 proof (transport/body header closed forms) + correspondence over all 256 source and destination values",
            "C05.transport: bytes 4-8 are 0x01, destination EID = caller's destination, source EID = context address, 0xC8 (SOM, EOM, seq 0, TO, tag 0) and the API's 7-bit type with IC clear, for every encoder call.",
            ""),
    "C06": ("Lean 4 proof per request encoder against a literal DSP0236 layout table + correspondence with every byte parameter swept",
            "C06.body_partial: for the 16 request encoders other than query_hop and every argument value, bytes 9..n-2 equal the literal DSP0236 layout (Rq=1, D=0, instance 0, command code, parameters in order, nothing else). query_hop_code / query_hop_violates prove the one deviation (finding D5: command 0x0E).",
            "Partial: D5 is a genuine defect pinned by the repo's own test, recorded in known_findings.txt. "),
    "C07": ("Lean 4 proof per response encoder against literal DSP0236 response layouts + correspondence over all enum combinations and stored EIDs",
            "C07.header / success_body (and the stronger body_any_cc): byte 9 is 0, then command code and the caller's completion code, then exactly the command's response fields, for all six encoders, all codes, every stored EID, UUID, list and vendor field.",
            ""),
    "C08": ("Lean 4 proof (16/32-bit big-endian header closed forms) + correspondence over PCI ids, IANA numbers, all 256 format bytes",
            "C08.frame: type byte, vendor ID most-significant byte first, message verbatim (PCI, IANA), SPDM/secured header and body verbatim; bad_format: any other format byte is refused.",
            ""),
    "C09": ("Lean 4 proof (decoder normal form vs byte-level acceptance predicate) + correspondence with header/command/code/length sweeps on three contexts",
            "C09.accept_iff: inside the stated claim the model's decoder accepts exactly the byte strings satisfying the reference predicate; payload: accepted payload is precisely the bytes between header and PEC; truthful / err_type: every rejection names a condition that holds. Context independence: the model's decoder has no context argument and the real one is compared across contexts.",
            ""),
    "C10": ("Lean 4 proof (panic classes characterised exactly, iff) + correspondence with truncations, all command/code/operation/selector values, panic trap",
            "C10.decode_panic_iff / process_panic_iff: the model's decoder and request processor (valid configuration, buffer >= 64) panic exactly on explicitly described byte classes, with exactly that panic; getLength never panics. Partial because those classes (D3, D10, D11) are real panics of the unchanged code.",
            "Partial: D3, D10, D11 are genuine defects recorded in known_findings.txt; needs fixes 739dbba, f2ea752, b455655. Runtime-only panics (allocation, stack) are not modelled; none is reachable in this no_std code. "),
    "C11": ("Lean 4 proof (process = decode + dispatch; frame conditions on the response buffer) + correspondence with random-filled buffers of 64-300 bytes and a decode cross-check",
            "C11.agrees: whenever it returns, processing reports what decoding alone reports; no_response_frame / response_frame / non_request_none: a response length is reported only for accepted control requests, bytes beyond it and the whole buffer otherwise are unchanged; requests_answered: the converse outside the D11 classes.",
            "Needs fix 94bdff1 (SPDM / secured arms). "),
    "C12": ("Lean 4 proof (response = packet normal form of the answering encoder) + correspondence over instance ids, requester addresses, responder configurations",
            "C12.answer_partial: every answerable request gets a well-formed packet (framing, count, transport header, PEC, length) addressed back to the requester from the responder's address, request bit clear, same command code, completion code present. instance_zero / instance_echo_iff prove the instance ID is always 0 (finding D12).",
            "Partial: D12 is a genuine defect (needs an API decision), recorded in known_findings.txt. "),
    "C13": ("Lean 4 proof by induction over operation histories (refinement to a last-write fold) + correspondence on random histories checked after every step",
            "C13.refine: after any finite history on a fresh context both EID cells equal the abstract fold (last accepted Set/Force request or accessor write, 0 before any); frame: nothing else changes them (including rejected, corrupted, panicking inputs and decode-only calls); assign_answer / discovered_flag / reported: what the responses carry.",
            ""),
    "C14": ("Lean 4 proof (per-selector answer; walk by induction with fuel 256) + correspondence over configurations of 1-255 sets in random query orders",
            "C14.answer: selector i < n is answered Success, next selector i+1 or 0xFF, and the i-th set in its own format, independent of the scratch selector cell and query order; walk_complete: following selectors from 0 lists every set exactly once in order and stops.",
            ""),
    "C15": ("Lean 4 proof (configuration invariant over histories) + correspondence over 0-30 types, UUID updates and interleaved traffic",
            "C15.config_invariant / history: no operation changes message types, vendor sets or address, and the UUID only through set_uuid; types / uuid / version: the three answers carry exactly the configured list, the last installed UUID and 1.3.1.",
            ""),
    "C16": ("Lean 4 proof (buffer-writing encoder refines the pure packet function) + correspondence with poisoned buffers of several sizes and boundary arguments",
            "C16.refine / ok_inv / written_exactly / independent_of_buffer: a successful call writes exactly the pure packet over the first n bytes and nothing else; refuse_documented / accept_others / err_iff / err_only_if: errors occur exactly for documented-invalid arguments or bodies over 250 bytes, leave the buffer untouched, and everything else succeeds without panic given enough room.",
            "Needs fix b455655. "),
    "C17": ("Lean 4 proof (closed form of the probe) + correspondence over (b1,b2) grids, continuations, short inputs, three contexts (thorough: all 2^24 prefixes in-process)",
            "C17.spec: for every byte string the model's probe equals the closed form (error below 3 bytes, byte[2]+4 iff byte[1]=0x0F, else Invalid); prefix_only, never_panics follow.",
            "Needs fix 739dbba. "),
    "C18": ("Lean 4 proof (general bit-range lemmas about the macro's loops, any buffer length) + correspondence exhaustive for 1- and 2-byte views",
            "C18.get_layout / set_layout / get_set / set_preserves / set_length over the 26-row layout table, pci/iana big-endian forms and both validators, for every raw buffer and value.",
            ""),
    "C19": ("Lean 4 proof (decide +kernel over the complete 256-row tables) + exhaustive correspondence over all 256 bytes x 3 conversions",
            "The three From<u8> tables equal the DSP0236/DSP0239 code-point tables, invert the enums' numeric values and map every other byte to Unknown/Invalid; completion codes 0-5 map to themselves. The quantifier is the finite table, enumerated completely by the kernel; the correspondence is exhaustive.",
            ""),
}


TIES = json.load(open(os.path.join(VERIF, "checker", "ties.json")))


def main():
    args = sys.argv[1:]
    pending = "not claimed yet: its theorems are still being proved in this round (statements in lean/Mctp/Props); the correspondence check for it exists"
    claimed = [a for a in args if a in P]
    checks = []
    for p in sorted(P):
        if p not in claimed:
            continue
        tech, text, extra = P[p]
        tie_mods = sorted(m.split(".")[-1] for m, t in TIES.items() if p in t["properties"])
        if tie_mods:
            tech += " + translator tie (source regenerated into Lean from MIR / bitfield! text, proved equal to the model: Tie." + ", Tie.".join(tie_mods) + ")"
        checks.append({
            "property_id": p,
            "quick_cmd": "bin/check %s quick" % p,
            "thorough_cmd": "bin/check %s thorough" % p,
            "evidence_file": "evidence/%s.json" % p,
            "replay_cmd_template": "bin/check replay {path}",
            "engine": "lean-proofs+correspondence",
            "technique": tech,
            "level_claimed": {"category": "proof", "text": text, "design_ref": "DESIGN.md section 4, " + p},
            "level_note": NOTE + extra,
        })
    m = {
        "version": 1,
        "setup_cmd": "bin/setup",
        "hooks": {
            "guard": "libmctp_verif",
            "enable": "none needed: every observation goes through the public API; the executor in /verif/harness depends on /repo by path and is rebuilt from the working tree on every check (overflow-checks and debug-assertions on)",
            "baseline_off_cmd": "cd /repo && cargo test --workspace --no-fail-fast --offline",
            "source_commits": [],
            "add_only": True,
        },
        "engines": [
            {"name": "lean-proofs+correspondence", "path": "lean, checker, harness", "serves_properties": claimed,
             "kind_free_text": "Lean 4 model (lean/Mctp/Model), specifications (lean/Mctp/Spec), theorems (lean/Mctp/Props) audited per run; "
                               "translator tie for the declarative core (checker/translate.py -> lean/Mctp/Gen, theorems lean/Mctp/Tie, MIR semantics lean/Mctp/Mir); "
                               "differential correspondence: Rust executor on the real library vs native Lean driver on the model over one line protocol, "
                               "three-way verdict (implementation / model / specification)"},
        ],
        "checks": checks,
        "not_applicable": [{"property_id": p, "reason": pending} for p in sorted(P) if p not in claimed],
        "notes": "fix: commits in /repo: cee492c (D1), 94bdff1 (D4), 739dbba (D6), f2ea752 (D7), b455655 (D8). Known findings in known_findings.txt. "
                 "VERIF_SEED seeds every random choice; VERIF_TIER overrides the tier argument.",
    }
    with open(os.path.join(VERIF, "MANIFEST.json"), "w") as f:
        json.dump(m, f, indent=1)
    print("claimed:", " ".join(claimed))


if __name__ == "__main__":
    main()
