#![no_main]
//! Coverage-guided search for operation sequences that reach new code in libmctp: the input is
//! decoded by oplang::render into line-protocol operations, which the ordinary executor performs
//! on the library (panics caught as usual).  Nothing is judged here - the corpus this produces is
//! rendered to lines and put through the model, the judge and the comparison by checker/core.py.
use libfuzzer_sys::fuzz_target;
use std::sync::Once;

#[path = "../../src/main.rs"]
#[allow(dead_code)]
mod exec;

static HOOK: Once = Once::new();

fuzz_target!(|data: &[u8]| {
    HOOK.call_once(exec::install_hook);
    let mut ex = exec::Exec::new();
    for l in exec::oplang::render(data, "z") {
        let ans = ex.handle(&l);
        // what an encoder produced goes straight to the decoder (coverage only): inputs whose
        // encoding makes the decoder take a new path are then worth keeping
        if l.starts_with("enc") {
            let t: Vec<&str> = ans.split_whitespace().collect();
            if t.len() == 3 && t[0] == "ok" {
                if let Ok(n) = t[1].parse::<usize>() {
                    if t[2].len() >= 2 * n {
                        let _ = ex.handle(&format!("dec z {}", &t[2][..2 * n]));
                    }
                }
            }
        }
    }
});
