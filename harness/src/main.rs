//! Executor of the verification line protocol on the real libmctp.
//!
//! Reads one request per line on stdin, performs it in-process on the library built from
//! /repo's current working tree (overflow checks on, panics caught), and prints one
//! observation per line on stdout, in exactly the text format of the Lean driver
//! (/verif/lean/Driver.lean) so that the two streams can be compared line by line.

#[path = "oplang.rs"]
pub mod oplang;

use libmctp::base_packet::{MCTPMessageBodyHeader, MCTPTransportHeader, MessageType};
use libmctp::control_packet::{
    AllocateEndpointIDOperation, CommandCode, CompletionCode, MCTPControlMessageHeader,
    MCTPGetEndpointIDEndpointIDType, MCTPGetEndpointIDEndpointType,
    MCTPSetEndpointIDAllocationStatus, MCTPSetEndpointIDAssignmentStatus,
    MCTPSetEndpointIDOperations, MCTPVersionQuery,
};
use libmctp::errors::{ControlMessageError, DecodeError};
use libmctp::mctp_traits::SMBusMCTPRequestResponse;
use libmctp::smbus::MCTPSMBusContext;
use libmctp::smbus_proto::{MCTPSMBusHeader, SMBusRoutingInformationUpdateEntry};
use libmctp::vendor_packets::{IANAMessageFormat, PCIMessageFormat, VendorIDFormat};
use std::cell::RefCell;
use std::collections::HashMap;
use std::io::{BufRead, BufWriter, Write};
use std::panic::{catch_unwind, AssertUnwindSafe};

thread_local! {
    static LAST_PANIC: RefCell<Option<(String, String)>> = const { RefCell::new(None) };
}

fn classify(msg: &str) -> &'static str {
    if msg.contains("not implemented") {
        "unimplemented"
    } else if msg.contains("entered unreachable code") {
        "unreachable"
    } else if msg.contains("attempt to subtract with overflow") {
        "suboverflow"
    } else if msg.contains("attempt to add with overflow") {
        "addoverflow"
    } else if msg.contains("index out of bounds") {
        "oob"
    } else if msg.contains("source slice length") || msg.contains("copy_from_slice") {
        "copylen"
    } else if msg.contains("range end index")
        || msg.contains("range start index")
        || msg.contains("slice index starts at")
        || msg.contains("out of range for slice")
    {
        "slice"
    } else if msg.contains("called `Result::unwrap()`") {
        "unwrap"
    } else if msg.contains("overflow") {
        "overflow"
    } else {
        "explicit"
    }
}

pub fn install_hook() {
    std::panic::set_hook(Box::new(|info| {
        let msg = if let Some(s) = info.payload().downcast_ref::<&str>() {
            s.to_string()
        } else if let Some(s) = info.payload().downcast_ref::<String>() {
            s.clone()
        } else {
            String::from("?")
        };
        let file = info
            .location()
            .map(|l| {
                let f = l.file();
                f.rsplit('/').next().unwrap_or(f).to_string()
            })
            .unwrap_or_else(|| "?".to_string());
        LAST_PANIC.with(|p| *p.borrow_mut() = Some((classify(&msg).to_string(), file)));
    }));
}

fn panic_text() -> String {
    LAST_PANIC.with(|p| match p.borrow_mut().take() {
        Some((k, f)) => format!("panic {} {}", k, f),
        None => "panic ? ?".to_string(),
    })
}

fn hexval(c: u8) -> Option<u8> {
    match c {
        b'0'..=b'9' => Some(c - b'0'),
        b'a'..=b'f' => Some(c - b'a' + 10),
        b'A'..=b'F' => Some(c - b'A' + 10),
        _ => None,
    }
}

fn parse_bytes(s: &str) -> Option<Vec<u8>> {
    if s == "-" {
        return Some(Vec::new());
    }
    let b = s.as_bytes();
    if b.len() % 2 != 0 {
        return None;
    }
    let mut out = Vec::with_capacity(b.len() / 2);
    for ch in b.chunks(2) {
        out.push(hexval(ch[0])? * 16 + hexval(ch[1])?);
    }
    Some(out)
}

fn parse_byte(s: &str) -> Option<u8> {
    let v = parse_bytes(s)?;
    if v.len() == 1 {
        Some(v[0])
    } else {
        None
    }
}

fn parse_hex_u64(s: &str) -> Option<u64> {
    if s.is_empty() {
        return None;
    }
    u64::from_str_radix(s, 16).ok()
}

fn parse_opt_bytes(s: &str) -> Option<Option<Vec<u8>>> {
    if s == "none" {
        Some(None)
    } else {
        parse_bytes(s).map(Some)
    }
}

fn hex(b: &[u8]) -> String {
    if b.is_empty() {
        return "-".to_string();
    }
    let mut s = String::with_capacity(b.len() * 2);
    for x in b {
        s.push_str(&format!("{:02x}", x));
    }
    s
}

fn type_name(t: &MessageType) -> &'static str {
    match t {
        MessageType::MCtpControl => "control",
        MessageType::SpdmOverMctp => "spdm",
        MessageType::SecuredMessages => "secured",
        MessageType::VendorDefinedPCI => "pci",
        MessageType::VendorDefinedIANA => "iana",
        MessageType::Invalid => "invalid",
    }
}

fn parse_type(s: &str) -> Option<MessageType> {
    Some(match s {
        "control" => MessageType::MCtpControl,
        "spdm" => MessageType::SpdmOverMctp,
        "secured" => MessageType::SecuredMessages,
        "pci" => MessageType::VendorDefinedPCI,
        "iana" => MessageType::VendorDefinedIANA,
        "invalid" => MessageType::Invalid,
        _ => return None,
    })
}

fn err_name(e: &DecodeError) -> String {
    match e {
        DecodeError::Unknown => "unknown".to_string(),
        DecodeError::ControlMessage(c) => match c {
            ControlMessageError::Unknown => "ctl-unknown".to_string(),
            ControlMessageError::InvalidRequestDataLength => "len".to_string(),
            ControlMessageError::InvalidControlHeader => "hdr".to_string(),
            ControlMessageError::UnsuccessfulCompletionCode(cc) => {
                let v = match cc {
                    CompletionCode::Success => 0,
                    CompletionCode::Error => 1,
                    CompletionCode::ErrorInvalidData => 2,
                    CompletionCode::ErrorInvalidLength => 3,
                    CompletionCode::ErrorNotReady => 4,
                    CompletionCode::ErrorUnsupportedCmd => 5,
                };
                format!("cc:{}", v)
            }
            ControlMessageError::InvalidPEC => "pec".to_string(),
        },
    }
}

fn cc_of(b: u8) -> Option<CompletionCode> {
    Some(match b {
        0 => CompletionCode::Success,
        1 => CompletionCode::Error,
        2 => CompletionCode::ErrorInvalidData,
        3 => CompletionCode::ErrorInvalidLength,
        4 => CompletionCode::ErrorNotReady,
        5 => CompletionCode::ErrorUnsupportedCmd,
        _ => return None,
    })
}

fn parse_vendor(s: &str) -> Option<VendorIDFormat> {
    let mut it = s.split('.');
    let f = parse_hex_u64(it.next()?)?;
    let d = parse_hex_u64(it.next()?)?;
    let n = parse_hex_u64(it.next()?)?;
    if it.next().is_some() || f > 0xFF || d > 0xFFFF_FFFF || n > 0xFFFF {
        return None;
    }
    Some(VendorIDFormat {
        format: f as u8,
        data: d as u32,
        numeric_value: n as u16,
    })
}

fn parse_vendors(s: &str) -> Option<Vec<VendorIDFormat>> {
    if s == "-" {
        return Some(Vec::new());
    }
    s.split(',').map(parse_vendor).collect()
}

pub struct Exec {
    ctxs: HashMap<String, MCTPSMBusContext<'static>>,
}

fn eids(c: &MCTPSMBusContext) -> String {
    format!(
        "{:02x}{:02x}",
        c.get_request().get_eid(),
        c.get_response().get_eid()
    )
}

/// payload offset relative to the packet: the payload must be a sub-slice of the input
fn offset_of(packet: &[u8], payload: &[u8]) -> String {
    let p0 = packet.as_ptr() as usize;
    let q0 = payload.as_ptr() as usize;
    if q0 >= p0 && q0 + payload.len() <= p0 + packet.len() {
        format!("{}", q0 - p0)
    } else {
        "outside".to_string()
    }
}

fn run_encoder(
    c: &MCTPSMBusContext,
    dst: u8,
    name: &str,
    a: &[&str],
    buf: &mut [u8],
    via_resp: bool,
) -> Option<Result<usize, ()>> {
    let rq = c.get_request();
    let rs = c.get_response();
    Some(match (name, a) {
        ("reqSetEid", [op, e]) => {
            let op = match parse_byte(op)? {
                0 => MCTPSetEndpointIDOperations::SetEID,
                1 => MCTPSetEndpointIDOperations::ForceEID,
                2 => MCTPSetEndpointIDOperations::ResetEID,
                3 => MCTPSetEndpointIDOperations::SetDiscoveredFlag,
                _ => return None,
            };
            rq.set_endpoint_id(dst, op, parse_byte(e)?, buf)
        }
        ("reqGetEid", []) => rq.get_endpoint_id(dst, buf),
        ("reqGetUuid", []) => rq.get_endpoint_uuid(dst, buf),
        ("reqVersion", [q]) => {
            let q = match parse_byte(q)? {
                0xFF => MCTPVersionQuery::MCTPBaseSpec,
                0 => MCTPVersionQuery::MCTPControlProcMessage,
                1 => MCTPVersionQuery::DSP0241,
                2 => MCTPVersionQuery::DSP0261,
                3 => MCTPVersionQuery::DSP0261_2,
                _ => return None,
            };
            rq.get_mctp_version_support(dst, q, buf)
        }
        ("reqMsgTypes", []) => rq.get_message_type_suport(dst, buf),
        ("reqVendor", [s]) => rq.get_vendor_defined_message_support(dst, parse_byte(s)?, buf),
        ("reqResolveEid", [e]) => rq.resolve_endpoint_id(dst, parse_byte(e)?, buf),
        ("reqAllocate", [op, n, f]) => {
            let op = match parse_byte(op)? {
                0 => AllocateEndpointIDOperation::AllocateEIDs,
                1 => AllocateEndpointIDOperation::ForceAllocation,
                2 => AllocateEndpointIDOperation::GetAllocationInformation,
                _ => return None,
            };
            rq.allocate_endpoint_ids(dst, op, parse_byte(n)?, parse_byte(f)?, buf)
        }
        ("reqRouting", [es]) => {
            let raw = parse_bytes(es)?;
            if raw.len() % 4 != 0 {
                return None;
            }
            let entries: Vec<SMBusRoutingInformationUpdateEntry<[u8; 4]>> = raw
                .chunks(4)
                .map(|c| SMBusRoutingInformationUpdateEntry::new_from_buf([c[0], c[1], c[2], c[3]]))
                .collect();
            rq.routing_information_update(dst, &entries, buf)
        }
        ("reqRoutingNew", [es]) => {
            // the same call with the entries built by the public constructor instead of from raw bytes
            use libmctp::control_packet::RoutingInformationUpdateEntryType as E;
            let raw = parse_bytes(es)?;
            if raw.len() % 4 != 0 {
                return None;
            }
            let mut entries = Vec::new();
            for c in raw.chunks(4) {
                let t = match c[0] {
                    0 => E::SingleEndpointNotBridge,
                    1 => E::EIDRangeIncludeBridge,
                    2 => E::SingleEndpointBridge,
                    3 => E::EIDRangeNotIncludeBridge,
                    _ => return None,
                };
                entries.push(SMBusRoutingInformationUpdateEntry::new(t, c[1], c[2], c[3]));
            }
            rq.routing_information_update(dst, &entries, buf)
        }
        ("reqGetRouting", [h]) => rq.get_routing_table_entries(dst, parse_byte(h)?, buf),
        ("reqPrepare", []) => rq.prepare_for_endpoint_discovery(dst, buf),
        ("reqDiscovery", []) => rq.endpoint_discovery(dst, buf),
        ("reqNotify", []) => rq.discovery_notify(dst, buf),
        ("reqNetworkId", []) => rq.get_network_id(dst, buf),
        ("reqQueryHop", [e, t]) => {
            let t = match parse_byte(t)? {
                0x00 => MessageType::MCtpControl,
                0x05 => MessageType::SpdmOverMctp,
                0x06 => MessageType::SecuredMessages,
                0x7E => MessageType::VendorDefinedPCI,
                0x7F => MessageType::VendorDefinedIANA,
                0xFF => MessageType::Invalid,
                _ => return None,
            };
            rq.query_hop(dst, parse_byte(e)?, t, buf)
        }
        ("reqResolveUuid", [u, h]) => {
            let u = parse_bytes(u)?;
            let u: [u8; 16] = u.try_into().ok()?;
            rq.resolve_uuid(dst, &u, parse_byte(h)?, buf)
        }
        ("reqQueryRate", []) => rq.query_rate_limit(dst, buf),
        ("reqTxRate", []) => rq.request_tx_rate_limit(dst, buf),
        ("reqUpdateRate", []) => rq.update_rate_limmit(dst, buf),
        ("reqQueryIfaces", []) => rq.query_supported_interfaces(dst, buf),
        ("vendorDefined", [v, msg]) => {
            let v = parse_vendor(v)?;
            rq.vendor_defined(dst, &v, &parse_bytes(msg)?, buf)
        }
        ("respSetEid", [cc, rej, al]) => {
            let st = match *rej {
                "0" => MCTPSetEndpointIDAssignmentStatus::Accpeted,
                "1" => MCTPSetEndpointIDAssignmentStatus::Rejected,
                _ => return None,
            };
            let al = match parse_byte(al)? {
                0 => MCTPSetEndpointIDAllocationStatus::NoIDPool,
                1 => MCTPSetEndpointIDAllocationStatus::RequiresAllocation,
                2 => MCTPSetEndpointIDAllocationStatus::AlreadyAllocated,
                _ => return None,
            };
            rs.set_endpoint_id(cc_of(parse_byte(cc)?)?, dst, st, al, buf)
        }
        ("respGetEid", [cc, et, it, f]) => {
            let et = match parse_byte(et)? {
                0 => MCTPGetEndpointIDEndpointType::Simple,
                1 => MCTPGetEndpointIDEndpointType::Bus,
                _ => return None,
            };
            let it = match parse_byte(it)? {
                0 => MCTPGetEndpointIDEndpointIDType::DynamicEID,
                1 => MCTPGetEndpointIDEndpointIDType::StaticEID,
                2 => MCTPGetEndpointIDEndpointIDType::StaticPresentMatchEID,
                3 => MCTPGetEndpointIDEndpointIDType::StaticPresentNoMatchEID,
                _ => return None,
            };
            let f = match *f {
                "0" => false,
                "1" => true,
                _ => return None,
            };
            rs.get_endpoint_id(cc_of(parse_byte(cc)?)?, dst, et, it, f, buf)
        }
        ("respUuid", [cc, u]) => {
            let u: [u8; 16] = parse_bytes(u)?.try_into().ok()?;
            rs.get_endpoint_uuid(cc_of(parse_byte(cc)?)?, dst, &u, buf)
        }
        ("respVersion", [cc]) => rs.get_mctp_version_support(cc_of(parse_byte(cc)?)?, dst, buf),
        ("respMsgTypes", [cc, ts]) => {
            rs.get_message_type_suport(cc_of(parse_byte(cc)?)?, dst, &parse_bytes(ts)?, buf)
        }
        ("respVendor", [cc, s, v]) => rs.get_vendor_defined_message_support(
            cc_of(parse_byte(cc)?)?,
            dst,
            parse_byte(s)?,
            &parse_bytes(v)?,
            buf,
        ),
        ("genControl", [h, d]) => {
            let h = parse_opt_bytes(h)?;
            let d = parse_bytes(d)?;
            let ho: Option<&[u8]> = h.as_deref();
            if via_resp {
                rs.generate_control_packet_bytes(dst, &ho, &d, buf)
            } else {
                rq.generate_control_packet_bytes(dst, &ho, &d, buf)
            }
        }
        ("genPci", [h, d]) => {
            let h = parse_opt_bytes(h)?;
            let d = parse_bytes(d)?;
            let ho: Option<&[u8]> = h.as_deref();
            if via_resp {
                rs.generate_pci_msg_packet_bytes(dst, &ho, &d, buf)
            } else {
                rq.generate_pci_msg_packet_bytes(dst, &ho, &d, buf)
            }
        }
        ("genIana", [h, d]) => {
            let h = parse_opt_bytes(h)?;
            let d = parse_bytes(d)?;
            let ho: Option<&[u8]> = h.as_deref();
            if via_resp {
                rs.generate_iana_msg_packet_bytes(dst, &ho, &d, buf)
            } else {
                rq.generate_iana_msg_packet_bytes(dst, &ho, &d, buf)
            }
        }
        ("genSpdm", [t, h, d]) => {
            let t = parse_type(t)?;
            let h = parse_opt_bytes(h)?;
            let d = parse_bytes(d)?;
            let ho: Option<&[u8]> = h.as_deref();
            if via_resp {
                rs.generate_spdm_msg_packet_bytes(dst, t, &ho, &d, buf)
            } else {
                rq.generate_spdm_msg_packet_bytes(dst, t, &ho, &d, buf)
            }
        }
        _ => return None,
    })
}

fn view_get(field: &str, raw: &[u8]) -> Option<u64> {
    let r = raw.to_vec();
    Some(match field {
        "smbus.dest_read_write" => MCTPSMBusHeader(r).dest_read_write() as u64,
        "smbus.dest_slave_addr" => MCTPSMBusHeader(r).dest_slave_addr() as u64,
        "smbus.command_code" => MCTPSMBusHeader(r).command_code() as u64,
        "smbus.byte_count" => MCTPSMBusHeader(r).byte_count() as u64,
        "smbus.source_read_write" => MCTPSMBusHeader(r).source_read_write() as u64,
        "smbus.source_slave_addr" => MCTPSMBusHeader(r).source_slave_addr() as u64,
        "routing.entry_type" => SMBusRoutingInformationUpdateEntry(r).entry_type() as u64,
        "routing.eid_range_size" => SMBusRoutingInformationUpdateEntry(r).eid_range_size() as u64,
        "routing.first_eid" => SMBusRoutingInformationUpdateEntry(r).first_eid() as u64,
        "routing.physical_address" => {
            SMBusRoutingInformationUpdateEntry(r).physical_address() as u64
        }
        "transport.hdr_version" => MCTPTransportHeader(r).hdr_version() as u64,
        "transport.dest_endpoint_id" => MCTPTransportHeader(r).dest_endpoint_id() as u64,
        "transport.source_endpoint_id" => MCTPTransportHeader(r).source_endpoint_id() as u64,
        "transport.som" => MCTPTransportHeader(r).som() as u64,
        "transport.eom" => MCTPTransportHeader(r).eom() as u64,
        "transport.pkt_seq" => MCTPTransportHeader(r).pkt_seq() as u64,
        "transport.to" => MCTPTransportHeader(r).to() as u64,
        "transport.msg_tag" => MCTPTransportHeader(r).msg_tag() as u64,
        "body.msg_type" => MCTPMessageBodyHeader(r).msg_type() as u64,
        "ctrl.rq" => MCTPControlMessageHeader(r).rq() as u64,
        "ctrl.d" => MCTPControlMessageHeader(r).d() as u64,
        "ctrl.instance_id" => MCTPControlMessageHeader(r).instance_id() as u64,
        "ctrl.command_code" => MCTPControlMessageHeader(r).command_code() as u64,
        "pci.vendor_id" => PCIMessageFormat(r).vendor_id() as u64,
        "iana.vendor_id" => IANAMessageFormat(r).vendor_id() as u64,
        _ => return None,
    })
}

fn view_set(field: &str, v: u64, raw: &[u8]) -> Option<Vec<u8>> {
    let r = raw.to_vec();
    let b = v as u8;
    macro_rules! st {
        ($ty:ident, $m:ident, $val:expr) => {{
            let mut h = $ty(r);
            h.$m($val);
            h.0
        }};
    }
    Some(match field {
        "smbus.dest_read_write" => st!(MCTPSMBusHeader, set_dest_read_write, b),
        "smbus.dest_slave_addr" => st!(MCTPSMBusHeader, set_dest_slave_addr, b),
        "smbus.command_code" => st!(MCTPSMBusHeader, set_command_code, b),
        "smbus.byte_count" => st!(MCTPSMBusHeader, set_byte_count, b),
        "smbus.source_read_write" => st!(MCTPSMBusHeader, set_source_read_write, b),
        "smbus.source_slave_addr" => st!(MCTPSMBusHeader, set_source_slave_addr, b),
        "routing.entry_type" => st!(SMBusRoutingInformationUpdateEntry, set_entry_type, b),
        "routing.eid_range_size" => st!(SMBusRoutingInformationUpdateEntry, set_eid_range_size, b),
        "routing.first_eid" => st!(SMBusRoutingInformationUpdateEntry, set_first_eid, b),
        "routing.physical_address" => {
            st!(SMBusRoutingInformationUpdateEntry, set_physical_address, b)
        }
        "transport.hdr_version" => st!(MCTPTransportHeader, set_hdr_version, b),
        "transport.dest_endpoint_id" => st!(MCTPTransportHeader, set_dest_endpoint_id, b),
        "transport.source_endpoint_id" => st!(MCTPTransportHeader, set_source_endpoint_id, b),
        "transport.som" => st!(MCTPTransportHeader, set_som, b),
        "transport.eom" => st!(MCTPTransportHeader, set_eom, b),
        "transport.pkt_seq" => st!(MCTPTransportHeader, set_pkt_seq, b),
        "transport.to" => st!(MCTPTransportHeader, set_to, b),
        "transport.msg_tag" => st!(MCTPTransportHeader, set_msg_tag, b),
        "body.msg_type" => st!(MCTPMessageBodyHeader, set_msg_type, b),
        "ctrl.rq" => st!(MCTPControlMessageHeader, set_rq, b),
        "ctrl.d" => st!(MCTPControlMessageHeader, set_d, b),
        "ctrl.instance_id" => st!(MCTPControlMessageHeader, set_instance_id, b),
        "ctrl.command_code" => st!(MCTPControlMessageHeader, set_command_code, b),
        "pci.vendor_id" => st!(PCIMessageFormat, set_vendor_id, v as u16),
        "iana.vendor_id" => st!(IANAMessageFormat, set_vendor_id, v as u32),
        _ => return None,
    })
}

/// independent bitwise CRC-8 (poly 0x07, init 0) used only to re-fix the PEC of swept packets
fn crc8_ref(data: &[u8]) -> u8 {
    let mut c: u8 = 0;
    for b in data {
        c ^= *b;
        for _ in 0..8 {
            c = if c & 0x80 != 0 { (c << 1) ^ 7 } else { c << 1 };
        }
    }
    c
}

fn fnv(mut h: u64, s: &str) -> u64 {
    for b in s.as_bytes() {
        h = (h ^ (*b as u64)).wrapping_mul(0x100000001b3);
    }
    (h ^ 10).wrapping_mul(0x100000001b3)
}

fn dec_obs(c: &MCTPSMBusContext, p: &[u8]) -> String {
    let r = catch_unwind(AssertUnwindSafe(|| match c.decode_packet(p) {
        Ok((t, payload)) => format!("ok {} {} {}", type_name(&t), offset_of(p, payload), payload.len()),
        Err((t, e)) => format!("err {} {}", type_name(&t), err_name(&e)),
    }));
    r.unwrap_or_else(|_| panic_text())
}

fn proc_obs(c: &MCTPSMBusContext, p: &[u8], buf0: &[u8]) -> String {
    let mut b = buf0.to_vec();
    let r = catch_unwind(AssertUnwindSafe(|| match c.process_packet(p, &mut b) {
        Ok(((t, payload), n)) => format!(
            "ok {} {} {} {}",
            type_name(&t),
            offset_of(p, payload),
            payload.len(),
            match n {
                Some(n) => format!("some {}", n),
                None => "none".to_string(),
            }
        ),
        Err((t, e)) => format!("err {} {}", type_name(&t), err_name(&e)),
    }));
    let res = r.unwrap_or_else(|_| panic_text());
    format!("{} | {} | {}", res, hex(&b), eids(c))
}

impl Exec {
    pub fn new() -> Self {
        Exec {
            ctxs: HashMap::new(),
        }
    }

    pub fn handle(&mut self, line: &str) -> String {
        let toks: Vec<&str> = line.split_whitespace().collect();
        // `repeat <count> <op …>`: the same operation again and again on the same state; every answer
        // must equal the first (executor-only: anything that depends on the number of calls so far)
        if toks.len() >= 3 && toks[0] == "repeat" {
            let count: u64 = match toks[1].parse() {
                Ok(c) => c,
                Err(_) => return "bad-op".to_string(),
            };
            let inner = toks[2..].to_vec();
            let first = self.guarded(&inner);
            let mut mism = 0u64;
            let mut at = String::from("-");
            for k in 1..count {
                let cur = self.guarded(&inner);
                if cur != first {
                    mism += 1;
                    if at == "-" {
                        at = format!("{}:{}", k, cur.replace(' ', "_").chars().take(80).collect::<String>());
                    }
                }
            }
            return format!("repeated {} {} {} | {}", count, mism, at, first);
        }
        self.guarded(&toks)
    }

    /// one operation, with a safety net: a panic that escapes an arm which does not expect one is still
    /// reported as an observation instead of killing the executor
    fn guarded(&mut self, toks: &[&str]) -> String {
        match catch_unwind(AssertUnwindSafe(|| self.dispatch(toks))) {
            Ok(Some(s)) => s,
            Ok(None) => "bad-op".to_string(),
            Err(_) => panic_text(),
        }
    }

    fn dispatch(&mut self, toks: &[&str]) -> Option<String> {
        match toks {
            ["ctx", id, addr, types, vendors] => {
                let a = parse_byte(addr)?;
                let t: &'static [u8] = Box::leak(parse_bytes(types)?.into_boxed_slice());
                let v: &'static [VendorIDFormat] =
                    Box::leak(parse_vendors(vendors)?.into_boxed_slice());
                self.ctxs
                    .insert(id.to_string(), MCTPSMBusContext::new(a, t, v));
                Some("ok".to_string())
            }
            ["dec", pkt] | ["dec", _, pkt] => {
                // optional context id: the decoder must not depend on it
                let id = if toks.len() == 3 { Some(toks[1]) } else { None };
                let p = parse_bytes(pkt)?;
                let fresh;
                let c: &MCTPSMBusContext = match id {
                    Some(i) => self.ctxs.get(i)?,
                    None => {
                        fresh = MCTPSMBusContext::new(0x10, &[], &[]);
                        &fresh
                    }
                };
                let r = catch_unwind(AssertUnwindSafe(|| match c.decode_packet(&p) {
                    Ok((t, payload)) => format!(
                        "ok {} {} {}",
                        type_name(&t),
                        offset_of(&p, payload),
                        payload.len()
                    ),
                    Err((t, e)) => format!("err {} {}", type_name(&t), err_name(&e)),
                }));
                Some(r.unwrap_or_else(|_| panic_text()))
            }
            ["rtdec", id, _sender, _dst, _name, rest @ ..] => {
                // the output of an earlier encoder call (last token) handed to the decoder of `id`
                let p = parse_bytes(rest.last()?)?;
                let c = self.ctxs.get(*id)?;
                let r = catch_unwind(AssertUnwindSafe(|| match c.decode_packet(&p) {
                    Ok((t, payload)) => format!(
                        "ok {} {} {}",
                        type_name(&t),
                        offset_of(&p, payload),
                        payload.len()
                    ),
                    Err((t, e)) => format!("err {} {}", type_name(&t), err_name(&e)),
                }));
                Some(r.unwrap_or_else(|_| panic_text()))
            }
            ["len", pkt] | ["len", _, pkt] => {
                let id = if toks.len() == 3 { Some(toks[1]) } else { None };
                let p = parse_bytes(pkt)?;
                let fresh;
                let c: &MCTPSMBusContext = match id {
                    Some(i) => self.ctxs.get(i)?,
                    None => {
                        fresh = MCTPSMBusContext::new(0x10, &[], &[]);
                        &fresh
                    }
                };
                let r = catch_unwind(AssertUnwindSafe(|| match c.get_length(&p) {
                    Ok(n) => format!("ok {}", n),
                    Err((t, e)) => format!("err {} {}", type_name(&t), err_name(&e)),
                }));
                Some(r.unwrap_or_else(|_| panic_text()))
            }
            ["proc", id, pkt, buf] => {
                let p = parse_bytes(pkt)?;
                let mut b = parse_bytes(buf)?;
                let c = self.ctxs.get(*id)?;
                let r = catch_unwind(AssertUnwindSafe(|| match c.process_packet(&p, &mut b) {
                    Ok(((t, payload), n)) => format!(
                        "ok {} {} {} {}",
                        type_name(&t),
                        offset_of(&p, payload),
                        payload.len(),
                        match n {
                            Some(n) => format!("some {}", n),
                            None => "none".to_string(),
                        }
                    ),
                    Err((t, e)) => format!("err {} {}", type_name(&t), err_name(&e)),
                }));
                let res = r.unwrap_or_else(|_| panic_text());
                Some(format!("{} | {} | {}", res, hex(&b), eids(c)))
            }
            ["seteid", id, which, e] => {
                let c = self.ctxs.get(*id)?;
                let e = parse_byte(e)?;
                match *which {
                    "req" => c.get_request().set_eid(e),
                    "resp" => c.get_response().set_eid(e),
                    _ => return None,
                }
                Some(format!("ok {}", eids(c)))
            }
            ["setuuid", id, u] => {
                let u = parse_bytes(u)?;
                let c = self.ctxs.get_mut(*id)?;
                let r = catch_unwind(AssertUnwindSafe(|| c.set_uuid(&u)));
                Some(match r {
                    Ok(()) => format!("ok {}", eids(c)),
                    Err(_) => panic_text(),
                })
            }
            ["enc", id, dst, name, rest @ ..] | ["encr", id, dst, name, rest @ ..] => {
                // "encr": call the generate_* trait methods through the response half
                let via_resp = toks[0] == "encr";
                let c = self.ctxs.get(*id)?;
                let dst = parse_byte(dst)?;
                let (bufs, args) = rest.split_last()?;
                let old = parse_bytes(bufs)?;
                let mut b = old.clone();
                let r = catch_unwind(AssertUnwindSafe(|| {
                    run_encoder(c, dst, name, args, &mut b, via_resp)
                }));
                Some(match r {
                    Ok(None) => return None,
                    Ok(Some(Ok(n))) => format!("ok {} {}", n, hex(&b)),
                    Ok(Some(Err(()))) => format!("err {}", hex(&b)),
                    Err(_) => panic_text(),
                })
            }
            // the additional header passed as a view into the data slice itself (header = &data[..k])
            ["encalias", id, dst, name, k, data, bufs] => {
                let c = self.ctxs.get(*id)?;
                let dst = parse_byte(dst)?;
                let k: usize = k.parse().ok()?;
                let data = parse_bytes(data)?;
                if k > data.len() {
                    return None;
                }
                let mut b = parse_bytes(bufs)?;
                let r = catch_unwind(AssertUnwindSafe(|| {
                    let ho: Option<&[u8]> = Some(&data[..k]);
                    let rq = c.get_request();
                    match *name {
                        "genControl" => Some(rq.generate_control_packet_bytes(dst, &ho, &data, &mut b)),
                        "genPci" => Some(rq.generate_pci_msg_packet_bytes(dst, &ho, &data, &mut b)),
                        "genIana" => Some(rq.generate_iana_msg_packet_bytes(dst, &ho, &data, &mut b)),
                        "genSpdm" => Some(rq.generate_spdm_msg_packet_bytes(dst, MessageType::SpdmOverMctp, &ho, &data, &mut b)),
                        _ => None,
                    }
                }));
                Some(match r {
                    Ok(None) => return None,
                    Ok(Some(Ok(n))) => format!("ok {} {}", n, hex(&b)),
                    Ok(Some(Err(()))) => format!("err {}", hex(&b)),
                    Err(_) => panic_text(),
                })
            }
            // exhaustive in-process sweeps of small pure functions against their closed forms
            // (the closed forms are what lean/Mctp/Props/Ctors.lean and C18.lean prove of the model)
            ["sweep", "routing-new"] => {
                use libmctp::control_packet::RoutingInformationUpdateEntryType as E;
                let mut bad = 0u64;
                let mut first = String::from("-");
                let mut n = 0u64;
                for t in 0..4u8 {
                    for sz in 0..=255u8 {
                        for f in 0..=255u8 {
                            for ph in 0..=255u8 {
                                let ty = match t {
                                    0 => E::SingleEndpointNotBridge,
                                    1 => E::EIDRangeIncludeBridge,
                                    2 => E::SingleEndpointBridge,
                                    _ => E::EIDRangeNotIncludeBridge,
                                };
                                let got = SMBusRoutingInformationUpdateEntry::new(ty, sz, f, ph).0;
                                n += 1;
                                if got != [t, sz, f, ph] {
                                    bad += 1;
                                    if first == "-" {
                                        first = format!("{:02x}{:02x}{:02x}{:02x}", t, sz, f, ph);
                                    }
                                }
                            }
                        }
                    }
                }
                Some(format!("swept {} {} {}", n, bad, first))
            }
            ["sweep", "transport-from-buf", b0lo, b0hi] => {
                // all values of bytes 1..3 for first bytes b0lo..=b0hi, version 1
                let lo = parse_byte(b0lo)?;
                let hi = parse_byte(b0hi)?;
                let mut bad = 0u64;
                let mut first = String::from("-");
                let mut n = 0u64;
                for b0 in lo..=hi {
                    for b1 in 0..=255u8 {
                        for b2 in 0..=255u8 {
                            for b3 in 0..=255u8 {
                                let got = MCTPTransportHeader::new_from_buf([b0, b1, b2, b3], 1).is_ok();
                                n += 1;
                                if got != (b0 == 0x01) {
                                    bad += 1;
                                    if first == "-" {
                                        first = format!("{:02x}{:02x}{:02x}{:02x}", b0, b1, b2, b3);
                                    }
                                }
                            }
                        }
                    }
                }
                Some(format!("swept {} {} {}", n, bad, first))
            }
            ["sweep", "ctrl-new"] => {
                let mut bad = 0u64;
                let mut first = String::from("-");
                let mut n = 0u64;
                for rq in 0..2u8 {
                    for d in 0..2u8 {
                        for iid in 0..=255u8 {
                            for cmd in (0..=0x14u8).chain(core::iter::once(0xFFu8)) {
                                let got = MCTPControlMessageHeader::new(rq == 1, d == 1, iid, CommandCode::from(cmd)).0;
                                n += 1;
                                if got != [(rq << 7) | (d << 6) | (iid & 0x1F), cmd] {
                                    bad += 1;
                                    if first == "-" {
                                        first = format!("{}{}{:02x}{:02x}", rq, d, iid, cmd);
                                    }
                                }
                            }
                        }
                    }
                }
                Some(format!("swept {} {} {}", n, bad, first))
            }
            ["view", "get", f, raw] => {
                let raw = parse_bytes(raw)?;
                let r = catch_unwind(AssertUnwindSafe(|| view_get(f, &raw)));
                Some(match r {
                    Ok(v) => format!("{}", v?),
                    Err(_) => panic_text(),
                })
            }
            ["view", "set", f, v, raw] => {
                let raw = parse_bytes(raw)?;
                let v = parse_hex_u64(v)?;
                let r = catch_unwind(AssertUnwindSafe(|| view_set(f, v, &raw)));
                Some(match r {
                    Ok(v) => hex(&v?),
                    Err(_) => panic_text(),
                })
            }
            ["view", "tfb", raw, ver] => {
                let raw: [u8; 4] = parse_bytes(raw)?.try_into().ok()?;
                let ver = parse_byte(ver)?;
                Some(match MCTPTransportHeader::new_from_buf(raw, ver) {
                    Ok(_) => "ok".to_string(),
                    Err(()) => "err".to_string(),
                })
            }
            ["view", "bfb", raw] => {
                let raw: [u8; 1] = parse_bytes(raw)?.try_into().ok()?;
                Some(match MCTPMessageBodyHeader::new_from_buf(raw) {
                    Ok(_) => "ok".to_string(),
                    Err(()) => "err".to_string(),
                })
            }
            ["new", "ctrl", rq, d, iid, cmd] => {
                let rq = *rq == "1";
                let d = *d == "1";
                let iid = parse_byte(iid)?;
                let cmd = parse_byte(cmd)?;
                let cc = CommandCode::from(cmd);
                if cc as u8 != cmd {
                    return None;
                }
                let r = catch_unwind(|| MCTPControlMessageHeader::new(rq, d, iid, cc).0);
                Some(match r {
                    Ok(v) => hex(&v),
                    Err(_) => panic_text(),
                })
            }
            ["new", "transport", v] => {
                let v = parse_byte(v)?;
                let r = catch_unwind(|| MCTPTransportHeader::new(v).0);
                Some(match r {
                    Ok(v) => hex(&v),
                    Err(_) => panic_text(),
                })
            }
            ["new", "body", ic, t] => {
                let ic = *ic == "1";
                let t = parse_type(t)?;
                let r = catch_unwind(|| MCTPMessageBodyHeader::new(ic, t).0);
                Some(match r {
                    Ok(v) => hex(&v),
                    Err(_) => panic_text(),
                })
            }
            ["new", "routing", t, sz, f, ph] => {
                use libmctp::control_packet::RoutingInformationUpdateEntryType as E;
                let t = match parse_byte(t)? {
                    0 => E::SingleEndpointNotBridge,
                    1 => E::EIDRangeIncludeBridge,
                    2 => E::SingleEndpointBridge,
                    3 => E::EIDRangeNotIncludeBridge,
                    _ => return None,
                };
                let (sz, f, ph) = (parse_byte(sz)?, parse_byte(f)?, parse_byte(ph)?);
                let r = catch_unwind(|| SMBusRoutingInformationUpdateEntry::new(t, sz, f, ph).0);
                Some(match r {
                    Ok(v) => hex(&v),
                    Err(_) => panic_text(),
                })
            }
            ["new", "pci", v] => {
                let v = parse_hex_u64(v)? as u16;
                Some(hex(&PCIMessageFormat::new(v).0))
            }
            ["new", "iana", v] => {
                let v = parse_hex_u64(v)? as u32;
                Some(hex(&IANAMessageFormat::new(v).0))
            }
            ["hdr", "smbus", id, dst] => {
                let c = self.ctxs.get(*id)?;
                let dst = parse_byte(dst)?;
                Some(hex(&c.get_request().generate_smbus_header(dst).0))
            }
            ["hdr", "transport", id, dst] => {
                let c = self.ctxs.get(*id)?;
                let dst = parse_byte(dst)?;
                Some(hex(&c.get_response().generate_transport_header(dst).0))
            }
            // conversions: numeric value of the resulting variant AND its name (a consistent
            // renumbering of the enum would keep `from(b) as u8 == b`)
            ["conv", "cmd", b] => {
                let b = parse_byte(b)?;
                let v = CommandCode::from(b);
                Some(format!("{:02x} {:?}", v as u8, v))
            }
            ["conv", "msg", b] => {
                let b = parse_byte(b)?;
                let v = MessageType::from(b);
                let name = format!("{:?}", v);
                Some(format!("{:02x} {}", v as u8, name))
            }
            ["conv", "cc", b] => {
                let b = parse_byte(b)?;
                let r = catch_unwind(|| {
                    let v = CompletionCode::from(b);
                    let name = format!("{:?}", v);
                    format!("{:02x} {}", v as u8, name)
                });
                Some(match r {
                    Ok(v) => v,
                    Err(_) => panic_text(),
                })
            }
            // bulk sweeps (thorough tier): 65 536 variants of one packet, two byte positions swept,
            // answered by a digest of all observations (same text, same FNV-1a as the Lean driver)
            ["decsweep", pkt, i, j, mode] => {
                let p0 = parse_bytes(pkt)?;
                let i: usize = i.parse().ok()?;
                let j: usize = j.parse().ok()?;
                let fix = *mode == "fix";
                let c = MCTPSMBusContext::new(0x10, &[], &[]);
                let mut h: u64 = 0xcbf29ce484222325;
                let (mut nok, mut nerr, mut npanic) = (0u32, 0u32, 0u32);
                for a in 0..=255u8 {
                    for b in 0..=255u8 {
                        let mut q = p0.clone();
                        if i < q.len() {
                            q[i] = a;
                        }
                        if j < q.len() {
                            q[j] = b;
                        }
                        if fix && !q.is_empty() {
                            let n = q.len() - 1;
                            q[n] = crc8_ref(&q[..n]);
                        }
                        let obs = dec_obs(&c, &q);
                        if obs.starts_with("ok") {
                            nok += 1
                        } else if obs.starts_with("err") {
                            nerr += 1
                        } else {
                            npanic += 1
                        }
                        h = fnv(h, &obs);
                    }
                }
                Some(format!("sweep {} {} {} {}", h, nok, nerr, npanic))
            }
            ["procsweep", id, pkt, i, j, buf] => {
                let p0 = parse_bytes(pkt)?;
                let i: usize = i.parse().ok()?;
                let j: usize = j.parse().ok()?;
                let buf0 = parse_bytes(buf)?;
                let c = self.ctxs.get(*id)?;
                let mut h: u64 = 0xcbf29ce484222325;
                let (mut nok, mut nerr, mut npanic) = (0u32, 0u32, 0u32);
                for a in 0..=255u8 {
                    for b in 0..=255u8 {
                        let mut q = p0.clone();
                        if i < q.len() {
                            q[i] = a;
                        }
                        if j < q.len() {
                            q[j] = b;
                        }
                        if !q.is_empty() {
                            let n = q.len() - 1;
                            q[n] = crc8_ref(&q[..n]);
                        }
                        let obs = proc_obs(c, &q, &buf0);
                        if obs.starts_with("ok") {
                            nok += 1
                        } else if obs.starts_with("err") {
                            nerr += 1
                        } else {
                            npanic += 1
                        }
                        h = fnv(h, &obs);
                    }
                }
                Some(format!("sweep {} {} {} {}", h, nok, nerr, npanic))
            }
            // bulk sweep of get_length over all (b1, b2) for a fixed b0 and continuation:
            // answers "ok <count> <mismatches> <first mismatch or ->"
            ["lensweep", b0, tail] => {
                let b0 = parse_byte(b0)?;
                let tail = parse_bytes(tail)?;
                let c = MCTPSMBusContext::new(0x10, &[], &[]);
                let mut mism = 0u64;
                let mut first = String::from("-");
                let mut n = 0u64;
                let mut p = vec![b0, 0, 0];
                p.extend_from_slice(&tail);
                for b1 in 0..=255u8 {
                    for b2 in 0..=255u8 {
                        p[1] = b1;
                        p[2] = b2;
                        let got = catch_unwind(AssertUnwindSafe(|| c.get_length(&p)));
                        let want: Option<usize> = if b1 == 0x0F {
                            Some(b2 as usize + 4)
                        } else {
                            None
                        };
                        let ok = match (&got, want) {
                            (Ok(Ok(n)), Some(w)) => *n == w,
                            (Ok(Err((MessageType::Invalid, _))), None) => true,
                            _ => false,
                        };
                        n += 1;
                        if !ok {
                            mism += 1;
                            if first == "-" {
                                first = hex(&p);
                            }
                        }
                    }
                }
                Some(format!("ok {} {} {}", n, mism, first))
            }
            _ => None,
        }
    }
}

/// `mctp-exec --render <dir>`: every file of a fuzzer corpus as operation lines (no execution)
fn render_dir(dir: &str) {
    let mut names: Vec<_> = match std::fs::read_dir(dir) {
        Ok(rd) => rd.filter_map(|e| e.ok()).map(|e| e.path()).filter(|p| p.is_file()).collect(),
        Err(_) => return,
    };
    names.sort();
    let stdout = std::io::stdout();
    let mut out = BufWriter::with_capacity(1 << 20, stdout.lock());
    for (i, p) in names.iter().enumerate() {
        if let Ok(data) = std::fs::read(p) {
            for l in oplang::render(&data, &format!("z{}", i)) {
                let _ = writeln!(out, "{}", l);
            }
        }
    }
    let _ = out.flush();
}

#[allow(dead_code)]
fn main() {
    let args: Vec<String> = std::env::args().collect();
    if args.len() == 3 && args[1] == "--render" {
        render_dir(&args[2]);
        return;
    }
    install_hook();
    let stdin = std::io::stdin();
    let stdout = std::io::stdout();
    let mut out = BufWriter::with_capacity(1 << 20, stdout.lock());
    let mut ex = Exec {
        ctxs: HashMap::new(),
    };
    for line in stdin.lock().lines() {
        let line = match line {
            Ok(l) => l,
            Err(_) => break,
        };
        let ans = ex.handle(&line);
        let _ = writeln!(out, "{}", ans);
    }
    let _ = out.flush();
}
