//! A compact binary encoding of line-protocol operations, so that a coverage-guided fuzzer can
//! mutate operation sequences byte-wise.  `render` turns one fuzzer input into the text lines the
//! executor and the Lean driver both understand: one context (configuration taken from the input)
//! followed by up to 16 operations on it.  Zero bytes decode to the most "ordinary" choice
//! (own address, valid framing, recomputed byte count and PEC), so the fuzzer starts from
//! well-formed traffic and reaches malformed traffic by setting flag bits.

pub struct R<'a> {
    d: &'a [u8],
    i: usize,
}

impl<'a> R<'a> {
    pub fn new(d: &'a [u8]) -> Self {
        R { d, i: 0 }
    }
    pub fn left(&self) -> usize {
        self.d.len().saturating_sub(self.i)
    }
    pub fn u8(&mut self) -> u8 {
        let v = self.d.get(self.i).copied().unwrap_or(0);
        self.i += 1;
        v
    }
    pub fn u16(&mut self) -> u16 {
        ((self.u8() as u16) << 8) | self.u8() as u16
    }
    pub fn u32(&mut self) -> u32 {
        ((self.u16() as u32) << 16) | self.u16() as u32
    }
    pub fn bytes(&mut self, n: usize) -> Vec<u8> {
        (0..n).map(|_| self.u8()).collect()
    }
    /// a length-prefixed blob, at most `max` bytes, never beyond the end of the input
    pub fn blob(&mut self, max: usize) -> Vec<u8> {
        let n = (self.u8() as usize).min(max).min(self.left());
        self.bytes(n)
    }
}

fn hex(b: &[u8]) -> String {
    if b.is_empty() {
        return "-".to_string();
    }
    let mut s = String::with_capacity(b.len() * 2);
    for x in b {
        s.push_str(&format!("{:02x}", x));
    }
    s
}

fn crc8(data: &[u8]) -> u8 {
    let mut c = 0u8;
    for &b in data {
        c ^= b;
        for _ in 0..8 {
            c = if c & 0x80 != 0 { (c << 1) ^ 0x07 } else { c << 1 };
        }
    }
    c
}

const TYPES: [&str; 6] = ["control", "spdm", "secured", "pci", "iana", "invalid"];
const TYPE_BYTES: [u8; 6] = [0x00, 0x05, 0x06, 0x7E, 0x7F, 0xFF];
const VERSION_Q: [u8; 5] = [0xFF, 0, 1, 2, 3];

fn buffer(r: &mut R) -> String {
    // output buffer: size class and fill
    let k = r.u8();
    let n = match k & 7 {
        0 => 64,
        1 => 260,
        2 => 300,
        3 => 96,
        4 => 14 + (r.u8() as usize),
        5 => r.u8() as usize,
        6 => 516,
        _ => 270 + (r.u8() as usize),
    };
    let fill = match (k >> 3) & 3 {
        0 => 0x00,
        1 => 0xFF,
        2 => 0xA5,
        _ => r.u8(),
    };
    hex(&vec![fill; n])
}

fn packet(r: &mut R, addr: u8) -> Vec<u8> {
    // flag bits SET mean "leave what the input says"; all clear = well-formed framing
    let flags = r.u8();
    let mut p = Vec::new();
    let dst = r.u8();
    let src = r.u8();
    let de = r.u8();
    let se = r.u8();
    let tf = r.u8();
    let ty = r.u8();
    p.push(if flags & 1 != 0 { dst } else { (addr & 0x7F) << 1 });
    p.push(if flags & 2 != 0 { r.u8() } else { 0x0F });
    p.push(0);
    p.push(if flags & 4 != 0 { src } else { src | 1 });
    p.push(if flags & 8 != 0 { r.u8() } else { 0x01 });
    p.push(de);
    p.push(se);
    p.push(if flags & 16 != 0 { tf } else { 0xC8 });
    p.push(if flags & 32 != 0 { ty } else { TYPE_BYTES[(ty % 5) as usize] });
    let body = r.blob(255);
    p.extend_from_slice(&body);
    p.push(0);
    let n = p.len();
    p[2] = if flags & 64 != 0 { r.u8() } else { ((n - 4) & 0xFF) as u8 };
    p[n - 1] = if flags & 128 != 0 { r.u8() } else { crc8(&p[..n - 1]) };
    p
}

fn vendor(r: &mut R) -> String {
    let f = r.u8();
    let f = if f < 0xF0 { f & 1 } else { f };
    format!("{:02x}.{:08x}.{:04x}", f, r.u32(), r.u16())
}

fn encoder(r: &mut R) -> String {
    let k = r.u8() % 36;
    let cc = |r: &mut R| format!("{:02x}", r.u8() % 6);
    match k {
        0 => format!("reqSetEid {:02x} {:02x}", r.u8() % 4, r.u8()),
        1 => "reqGetEid".into(),
        2 => "reqGetUuid".into(),
        3 => format!("reqVersion {:02x}", VERSION_Q[(r.u8() % 5) as usize]),
        4 => "reqMsgTypes".into(),
        5 => format!("reqVendor {:02x}", r.u8()),
        6 => format!("reqResolveEid {:02x}", r.u8()),
        7 => format!("reqAllocate {:02x} {:02x} {:02x}", r.u8() % 3, r.u8(), r.u8()),
        8 | 9 => {
            let n = (r.u8() % 9) as usize;
            let mut raw = Vec::new();
            for _ in 0..n {
                let e = r.bytes(4);
                raw.extend_from_slice(&[if k == 9 { e[0] % 4 } else { e[0] }, e[1], e[2], e[3]]);
            }
            format!("{} {}", if k == 9 { "reqRoutingNew" } else { "reqRouting" }, hex(&raw))
        }
        10 => format!("reqGetRouting {:02x}", r.u8()),
        11 => "reqPrepare".into(),
        12 => "reqDiscovery".into(),
        13 => "reqNotify".into(),
        14 => "reqNetworkId".into(),
        15 => format!("reqQueryHop {:02x} {:02x}", r.u8(), TYPE_BYTES[(r.u8() % 6) as usize]),
        16 => format!("reqResolveUuid {} {:02x}", hex(&r.bytes(16)), r.u8()),
        17 => "reqQueryRate".into(),
        18 => format!("vendorDefined {} {}", vendor(r), hex(&r.blob(255))),
        19 => format!("respSetEid {} {} {:02x}", cc(r), r.u8() & 1, r.u8() % 3),
        20 => format!("respGetEid {} {:02x} {:02x} {}", cc(r), r.u8() % 2, r.u8() % 4, r.u8() & 1),
        21 => format!("respUuid {} {}", cc(r), hex(&r.bytes(16))),
        22 => format!("respVersion {}", cc(r)),
        23 => format!("respMsgTypes {} {}", cc(r), hex(&r.blob(40))),
        24 => {
            let c = cc(r);
            let s = r.u8();
            let v = if r.u8() & 1 == 0 { r.bytes(3) } else { r.bytes(5) };
            format!("respVendor {} {:02x} {}", c, s, hex(&v))
        }
        25..=32 => {
            let name = ["genControl", "genPci", "genIana", "genSpdm"][((k - 25) % 4) as usize];
            let h = if r.u8() & 1 == 0 { "none".to_string() } else { hex(&r.blob(40)) };
            let d = hex(&r.blob(255));
            if name == "genSpdm" {
                format!("{} {} {} {}", name, TYPES[(r.u8() % 6) as usize], h, d)
            } else {
                format!("{} {} {}", name, h, d)
            }
        }
        33 => format!("vendorDefined {} {}", vendor(r), hex(&r.blob(16))),
        34 => format!("reqSetEid {:02x} {:02x}", r.u8() % 4, r.u8()),
        _ => format!("reqVendor {:02x}", r.u8()),
    }
}

const FIELDS: [&str; 12] = [
    "smbus.dest_slave_addr", "smbus.byte_count", "smbus.source_slave_addr", "routing.entry_type",
    "routing.physical_address", "transport.hdr_version", "transport.pkt_seq", "transport.msg_tag",
    "body.msg_type", "ctrl.instance_id", "ctrl.command_code", "ctrl.rq",
];

/// one fuzzer input -> operation lines; `id` is the context id used in them
pub fn render(data: &[u8], id: &str) -> Vec<String> {
    let mut r = R::new(data);
    let mut out = Vec::new();
    let addr = r.u8();
    let types = r.blob(30);
    let nv = 1 + (r.u8() % 4) as usize;
    let vs: Vec<String> = (0..nv).map(|_| vendor(&mut r)).collect();
    out.push(format!("ctx {} {:02x} {} {}", id, addr, hex(&types), vs.join(",")));
    let mut n = 0;
    while r.left() > 0 && n < 16 {
        n += 1;
        let op = r.u8() % 16;
        match op {
            0..=4 => {
                // decode alone, then process: the two must agree, and the decoder has its own properties
                let p = packet(&mut r, addr);
                out.push(format!("dec {} {}", id, hex(&p)));
                out.push(format!("proc {} {} {}", id, hex(&p), buffer(&mut r)));
            }
            5 => {
                let p = packet(&mut r, addr);
                let k = (r.u8() as usize) % (p.len() + 1);
                out.push(format!("len {} {}", id, hex(&p[..k])));
            }
            6..=8 => {
                let dst = r.u8();
                let e = encoder(&mut r);
                let verb = if e.starts_with("gen") && r.u8() & 1 == 1 { "encr" } else { "enc" };
                out.push(format!("{} {} {:02x} {} {}", verb, id, dst, e, buffer(&mut r)));
            }
            9 => out.push(format!("seteid {} {} {:02x}", id, if r.u8() & 1 == 0 { "req" } else { "resp" }, r.u8())),
            10 => out.push(format!("setuuid {} {}", id, hex(&r.bytes(16)))),
            11 => out.push(format!("new iana {:x}", r.u32())),
            12 => out.push(format!("new pci {:x}", r.u16())),
            13 => {
                let f = FIELDS[(r.u8() % 12) as usize];
                let raw = r.bytes(4);
                let raw = if f.starts_with("body") { &raw[..1] } else if f.starts_with("ctrl") { &raw[..2] } else { &raw[..] };
                if r.u8() & 1 == 0 {
                    out.push(format!("view get {} {}", f, hex(raw)));
                } else {
                    out.push(format!("view set {} {:x} {}", f, r.u8(), hex(raw)));
                }
            }
            14 => match r.u8() % 4 {
                0 => out.push(format!("new routing {:02x} {:02x} {:02x} {:02x}", r.u8() % 4, r.u8(), r.u8(), r.u8())),
                1 => out.push(format!("new transport {:02x}", r.u8())),
                2 => out.push(format!("view tfb {} {:02x}", hex(&r.bytes(4)), r.u8())),
                _ => out.push(format!("view bfb {:02x}", r.u8())),
            },
            _ => {
                let w = r.u8();
                out.push(format!("hdr {} {} {:02x}", if w & 1 == 0 { "smbus" } else { "transport" }, id, r.u8()));
            }
        }
    }
    out
}
