#!/bin/sh
# usage: tools/verify_mutant.sh <dir with patch.diff demo.rs meta.json>
# Confirms, in a scratch worktree of /repo (removed afterwards): the patch applies, the existing
# suite still passes with it, the demonstration fails with it and passes without it.
set -u
D=$(cd "$1" && pwd)
W=$(mktemp -d /tmp/vm_XXXXXX)
rmdir "$W"
git -C /repo worktree add -q --detach "$W" HEAD || exit 2
cleanup() { git -C /repo worktree remove --force "$W" >/dev/null 2>&1; rm -rf "$W"; }
trap cleanup EXIT
cd "$W"
mkdir -p tests
cp "$D/demo.rs" tests/demo.rs
clean=$(cargo test --offline --test demo 2>&1 | grep -c "test result: ok")
git apply "$D/patch.diff" || { echo "RESULT patch-does-not-apply"; exit 1; }
demo=$(cargo test --offline --test demo 2>&1 | grep -c "test result: FAILED\|panicked\|error\[")
rm -rf tests
suite=$(cargo test --offline 2>&1 | grep "test result" | tr '\n' ' ')
echo "RESULT demo_passes_clean=$clean demo_fails_patched=$demo suite_with_patch: $suite"
