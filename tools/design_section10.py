#!/usr/bin/env python3
"""Regenerates section 10 of DESIGN.md (seeded changes and which checks catch them) from
seeded/*/meta.json and seeded/results.json."""
import glob
import json
import os

V = os.path.dirname(os.path.dirname(os.path.abspath(__file__)))
res = json.load(open(os.path.join(V, "seeded", "results.json")))
rows = []
nbreak = nharm = 0
caught_target = 0
concrete_target = 0
harmless_alarms = 0
for d in sorted(glob.glob(os.path.join(V, "seeded", "*"))):
    mp = os.path.join(d, "meta.json")
    if not os.path.exists(mp):
        continue
    sid = os.path.basename(d)
    m = json.load(open(mp))
    r = res.get(sid, {})
    hits = []
    for p in sorted(r):
        if r[p]["exit"] == 1:
            conc = any("no-failing-input-found" not in k for k in r[p]["violations"])
            hits.append(p if conc else p + "°")
    tgt = m["breaks_property"]
    if tgt == "none":
        nharm += 1
        harmless_alarms += len(hits)
    else:
        nbreak += 1
        if any(h.rstrip("°") == tgt for h in hits):
            caught_target += 1
        if tgt in hits:
            concrete_target += 1
    s = (m.get("summary") or "").replace("|", "/").replace("\n", " ")
    if len(s) > 150:
        s = s[:147] + "…"
    ran = len(r)
    rows.append((sid, tgt, s, " ".join(hits) or ("none of %d" % ran if ran else "(not run)")))

out = ["",
       "---------------------------------------------------------------------------------------------------",
       "",
       "## 10. Seeded changes and which checks catch them",
       "",
       "Independent sub-agents were given only the text of one property and a scratch worktree of `/repo`",
       "(nothing from `/verif`) and asked for changes that break the property, still compile, keep the 59-test",
       "suite green and need something specific to manifest. Round 1: two changes per property (38). Round 2",
       "(14 properties): the first round's changes as an avoid-list and a demand for state-dependent or",
       "two-site changes (28). Round 5 is described below. Rounds 3 (10 properties, 18 changes; one agent failed) and 4 (the other 9",
       "properties, 18 changes): additionally told, in general terms, what kind of tester they were up against",
       "(parameter sweeps, forged packets with every header/length/PEC variation, random histories,",
       "byte-for-byte comparison) and asked for changes such a tester could still miss.",
       "Each change was re-confirmed by `tools/verify_mutant.sh` in a fresh worktree (patch applies, suite passes",
       "with it, the demonstration fails with it and passes without) before being kept under `seeded/<id>/`.",
       "Rounds 5-8 were fully adversarial, round 9 realistic again (both described below).",
       "Five more are the reverse patches of the `fix:` commits. A further group of sub-agents wrote 15 *harmless",
       "rewrites* (behaviour-preserving refactorings of every part of the crate, each validated by its author with",
       "a differential test of 10^5 calls) to probe for false alarms.",
       "",
       "Result (`seeded/results.json`, quick tier, `tools/mutants.py matrix --all`, every seeded change against",
       "all 19 checks): **%d of the %d breaking changes are caught by the quick check of the property they target"
       % (caught_target, nbreak),
       "(%d with a concrete failing input as replay; the others, marked ° in the target column, as a broken"
       % concrete_target,
       "correspondence without a failing input of *that* property, because the change makes an encoder panic or",
       "refuse — C16 / C04 report those concretely); the %d harmless rewrites raise %d alarms in the 19 checks.**"
       % (nharm, harmless_alarms),
       "",
       "What the rounds taught, and what was strengthened in response (all caught since):",
       "",
       "* Round 1 missed 9 of 38 at first: C02-1 → PEC-over-wrong-range family (last byte = CRC of a proper",
       "  prefix, long packets); C03-1 → responses written by `process_packet` are judged as encoded packets too",
       "  (C03/C04/C05 verdicts on `proc` ops, instance ids swept); C06-2, C08-2 → model-side verdicts always",
       "  reported, so a case where only the model yields a packet counts; C10-2 → systematic `get_length`",
       "  families; C13-1 → histories reuse values an accessor just stored; C15-2 → a query after every",
       "  `set_uuid`; C16-1 → routing counts 255–264, 512; C16-2 → second pass re-issuing every successful call",
       "  into a buffer of exactly the reported length.",
       "* Round 2 missed 3 of 28 at first: C10-r2-1, C11-r2-2 → `gen_state_probes` (EIDs 0x00/0xFF/own address",
       "  assigned by packet or accessor, then every answerable request from sources coinciding with that",
       "  state); C07-r2-2 → boundary-valued list contents (zeros, 0xFF) for the response encoders.",
       "* Round 3 (adversarial): the reports were read as they arrived and the generators extended before the",
       "  changes were run, so no before/after count exists; the dimensions they exposed as under-varied were:",
       "  the transport flags byte and fragment sequences (C10-r3-1), the length probe followed by a decode on",
       "  the same context (C09-r3-1, C02-r3-2), trailing 0xFF/0x00 padding (C02-r3-1), response buffers smaller",
       "  than 64 bytes for non-requests and exactly sized ones for requests (C11-r3-2, C12-r3-2 — which led to",
       "  theorem `Refine.process_eq_ref_fit` and the judge's precondition \"the response fits\" instead of",
       "  \"64 bytes\"), caller buffers of 260–520 bytes (C14-r3-2), configurations with repeated vendor sets",
       "  (C14-r3-1), bodies ≥ 65 536 bytes (C04-r3-1), buffers one byte short (C04-r3-2), assignments processed",
       "  into tiny buffers (C13-r3-1), the IC bit on minimal-length packets (C10-r3-2, missed by the quick",
       "  tier's stride until header bytes 4 and 8 were swept completely on 10–15-byte packets).",
       "* Round 4 (adversarial, 9 encoder/table-side properties) was run against the checks *as they stood*: 9 of",
       "  18 were caught by the target check at once. Of the 9 misses, 3 are changes that do not break the targeted",
       "  property itself and are caught by the properties they do break (C07-r4-1 → C13, C07-r4-2 → C15,",
       "  C19-r4-2 → C10/C11; they stay listed as not caught by their nominal target), and 6 exposed gaps that were",
       "  then closed: buffers still holding an older well-formed packet (C03-r4-2 → `G.stale`), destinations",
       "  equal to the context's own address / stored EIDs (C08-r4-1), configuration shapes relating message-type",
       "  codes to vendor formats (C15-r4-2), state probes for the identity queries (C15-r4-1), the probe after",
       "  processed traffic and on inputs of 256–514 / 65 536 bytes (C17-r4-1, C17-r4-2), and — the most",
       "  instructive — C19-r4-1: a *consistent renumbering* of two enum variants keeps `from(b) as u8 == b`, so",
       "  the conversions are now observed by variant **name** as well as by value. C09-r3-2 turned out to have",
       "  been caught by luck (a random data byte) and is now covered by complete data-byte sweeps of the",
       "  fixed-length commands.",
       "* Round 5 (6 agents, one per part of the crate, 18 changes) was fully adversarial: the agents were given",
       "  all 19 properties, the list of the ~100 changes already detected, and a complete description of what",
       "  the tester varies and compares, and were asked for changes it would still miss. Against the checks *as",
       "  they stood* only 2 of 17 were caught (the 18th needs 2^32 calls and was not runnable at the time). This",
       "  is the honest measure of what a differential tie cannot see by itself: behaviour that depends on the",
       "  number of calls so far (16- and 32-bit counters that overflow: R5-1-1, R5-2-1, R5-3-3, R5-5-1, R5-4-3,",
       "  R5-6-2), on relations between several fields (R5-1-3: the same bit wrong in bytes 4 and 8; R5-6-1:",
       "  equal endpoint IDs with SOM and TO clear; R5-6-3: physical address = 2 × EID in a constructor; R5-4-1:",
       "  adjacent EID ranges in a routing table; R5-4-2: a vendor body beginning with its own header; R5-2-3: a",
       "  received IANA number equal to a configured one; R5-2-2: UUIDs differing only in their tail; R5-3-1: the",
       "  output buffer already holding the same packet with a damaged last byte), and on sizes nobody tries",
       "  (R5-1-2: inputs over 512 bytes; R5-3-2: an optional header of 250 bytes). Each of these dimensions now",
       "  has a family: executor-only `repeat <n> <op>` (every answer must equal the first; 70 000 repetitions in",
       "  the quick tier, 2·10^6 maximum-size encodes and 4.3·10^9 validator refusals in the thorough tier),",
       "  `gen_relations`, `gen_own_config`, realistic routing tables, relational constructor arguments, own",
       "  output damaged and reused as the buffer, headers up to 65 536 bytes, inputs up to 70 000 bytes. After",
       "  that all 18 are caught (R5-4-3 and R5-6-2 only by the thorough tier). The lesson recorded here: the",
       "  theorems quantify over everything, but they are about the model; against a change that adds state the",
       "  model does not have, only the generators stand, and an adversary who knows them can always pick the",
       "  next unvaried dimension — which is why the tie is reported as differential, generator-bounded, in",
       "  every evidence file.",
       "* Round 6 repeated round 5 with the tester description brought up to date (repeat ops, relations, the",
       "  static state inventory of section 3.3b); three of six agents failed on an API limit, the other three",
       "  delivered 9 changes, none of which adds state. As they stood the checks caught 3 in the quick tier and",
       "  a fourth (R6-6-3, a magic destination-address/byte-count pair in the length probe) only through the",
       "  exhaustive 2^24 sweep of the thorough tier. The misses were conjunctions of specific constants in two",
       "  or three unrelated fields (datagram bit x broadcast destination; three magic constructor arguments),",
       "  a body that is itself a framed packet or starts with the call's own transport header, and — new — a",
       "  dependence on *pointer identity* (the optional header passed as a sub-slice of the data slice). In",
       "  response: products of special values over destination EID x source EID x flags x control byte,",
       "  nested-packet bodies, an `encalias` op that passes aliased slices, routing entries built through the",
       "  public constructor with bus-owner-style values, and exhaustive in-process enumerations wherever the",
       "  domain allows it (`sweep routing-new` 2^26, `sweep transport-from-buf` 2^32, `sweep ctrl-new`, and the",
       "  2^24 probe sweep moved into the quick tier — a few seconds each). All 9 are caught since. What",
       "  remains out of reach by construction: conjunctions of arbitrary magic constants over domains too large",
       "  to enumerate (e.g. a 28-byte routing table, a 250-byte body).",
       "* Round 7 (the three focus areas whose round-6 agents had failed; 9 changes; tester description updated",
       "  again): 3 of 9 caught as the checks stood. The six misses were once more coincidences of special",
       "  literals the generators had not paired: a count byte consistent with a longer-than-fixed payload, the",
       "  datagram bit with a non-zero completion code, an all-zero trailing vendor set, an all-0xFF UUID after",
       "  a non-nil one, the nil UUID with entry handle 0xFF, an output buffer of 65 536 bytes. Added: counted",
       "  payloads with consistent and inconsistent (count, length) pairs for every command, control byte x",
       "  completion code products, all-zero / all-ones vendor sets in every position, UUID update orderings,",
       "  products of special values over every pair of encoder parameters, output buffers of 65 535-131 072",
       "  bytes. All 9 caught since. Over rounds 5-7 the pattern is stable: an informed adversary gets about",
       "  two thirds of fresh changes past the quick tier *as it stands at that moment*, every one of them is",
       "  caught after one more family is added, and the families keep getting cheaper to think of (pairs of",
       "  special values) but can never be complete over unstructured 2^k domains.",
       "* Round 8 (6 agents, 18 changes, fully adversarial with the tester description of round 7): 12 of 18 caught",
       "  as the checks stood. The six misses were of one kind: behaviour gated on a conjunction of constants *inside",
       "  an opaque payload or argument* (an SPDM body that looks like NEGOTIATE_ALGORITHMS with a wrong length field,",
       "  a GET_VERSION body, a VERSION response with a scratch tail, the DMTF's PCI vendor ID used as an IANA",
       "  number, an Allocate request with operation 2 and a short payload, a peer's UUID response equal to the",
       "  context's own UUID and EID). No hand-written family reaches such gates except by luck, so instead of one",
       "  more family two *source-derived* search stages were added (section 3.3d): literals that are new in the",
       "  source are planted into the cases, and a coverage- and comparison-guided libFuzzer run over the operation",
       "  language looks for inputs that reach new code; both only propose cases, the model and the specification",
       "  judge them. With them 16 of 18 are caught by the quick tier (R8-3-2, R8-4-2, R8-4-3, R8-5-1 newly). Not",
       "  caught in 60 s of search: R8-3-3 (needs >= 32 body bytes with four constrained positions) and R8-4-1 (an",
       "  exact 4-byte SPDM body). The thorough tier (420 s x 14 jobs of search) catches R8-4-1 with concrete",
       "  failing inputs (123 bodies of the gated shape); R8-3-3 is caught by neither tier and is recorded as a",
       "  miss - it is the residue a differential tie cannot promise.",
       "* Round 9 went back to what the checks are for: 6 fresh agents, given only the property texts (no",
       "  description of the tester, no list of earlier changes) and asked for *realistic* slips - a wrong mask, an",
       "  off-by-one bound, a check moved or merged, state consulted in one place, a table rebuilt by a loop - that",
       "  need something specific to manifest; 21 changes, one per property plus a second for C18 and C19. All 21",
       "  are caught by the quick check of the property they target, each with a concrete failing input as replay",
       "  (among them a PEC that skips the R/W bit of byte 0, a lookup-table CRC whose last entry is never filled,",
       "  an oversize check that forgets the optional header, a validator whose two conditions were merged with the",
       "  wrong connective, a selector advanced from the stored cell instead of the request, a 30-type limit that",
       "  became 29). Three of them are also seen statically by the translator tie of section 3.3c (`Tie.msg_from`",
       "  for the masked message-type conversion, `Tie.pci_format_fields` for the dropped `MSB0`, and - reported as",
       "  'not translated', without alarm - the command table rebuilt as an array lookup).",
       "* An independent reading audit of the model against the Rust source (a sub-agent, reading every non-test",
       "  function against its Lean definition and running 75 000 lines of its own through both sides) found no",
       "  input on which they disagree on return value, panic kind or file, EIDs, or bytes written on success,",
       "  and pointed out: (1) views over a backing buffer *shorter than the field* panic in the code (index out",
       "  of bounds) while the model's total accessors return 0 - outside C18's quantifier (raw values of each",
       "  header's size) but a real limit of the C18 theorems' transfer to the code, now listed in the trusted",
       "  base; (2) the buffer after a panic is not modelled (known; C02's projection no longer compares it);",
       "  (3) `set_uuid` with a wrong length was never compared (now is, under C15); (4) a one-sided `bad-op`",
       "  answer was dropped silently (now counts as a broken correspondence).",
       "* The Lean-side counterpart of these experiments is `Props/JudgeSound*.lean`: it proves that the judge",
       "  never says `fail` about the model. Proving it found three clauses where the judge was stricter than",
       "  the theorems on calls outside the documented argument shapes (routing entries that are not whole, a",
       "  vendor ID field of ≥ 246 bytes, completion codes above 5 — none reachable through the Rust API, the",
       "  executor refuses them); the judge was corrected.",
       "",
       "| id | breaks | change | caught by (quick) |",
       "|---|---|---|---|"]
for r in rows:
    out.append("| %s | %s | %s | %s |" % r)
p = os.path.join(V, "DESIGN.md")
s = open(p).read()
k = s.find("\n---------------------------------------------------------------------------------------------------\n\n## 10. Seeded")
if k > 0:
    s = s[:k]
s = s.rstrip() + "\n" + "\n".join(out) + "\n"
open(p, "w").write(s)
print("breaking %d, caught by target %d (concrete %d); harmless %d, alarms %d" % (nbreak, caught_target, concrete_target, nharm, harmless_alarms))
