#!/bin/sh
# usage: tools/tie_probe.sh <seeded id>...   apply the seeded change, run only the translator tie, undo
cd "$(dirname "$0")/.."
for id in "$@"; do
  git -C /repo apply "$PWD/seeded/$id/patch.diff" || { echo "$id: patch does not apply"; continue; }
  python3 checker/translate.py | grep -v '"translated"' | grep -v '^[{}]' | sed "s/^/$id status: /"
  for m in Names Enums Tables Layout Consts Direct Encoders EncoderData Dispatch; do
    if (cd lean && lake build Mctp.Tie.$m >/tmp/tie_probe.log 2>&1); then echo "$id Tie.$m ok"; else echo "$id Tie.$m BROKEN: $(grep -c '^error' /tmp/tie_probe.log) errors, first: $(grep -m1 '^error' /tmp/tie_probe.log | cut -c1-160)"; fi
  done
  git -C /repo checkout -- .
done
python3 checker/translate.py >/dev/null
