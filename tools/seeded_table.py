#!/usr/bin/env python3
"""prints the markdown table of seeded changes and which checks caught them (from seeded/results.json)"""
import glob, json, os
V = os.path.dirname(os.path.dirname(os.path.abspath(__file__)))
res = json.load(open(os.path.join(V, "seeded", "results.json")))
print("| id | breaks | change (needs) | caught by (quick tier) |")
print("|---|---|---|---|")
for d in sorted(glob.glob(os.path.join(V, "seeded", "*"))):
    mp = os.path.join(d, "meta.json")
    if not os.path.exists(mp):
        continue
    sid = os.path.basename(d)
    m = json.load(open(mp))
    r = res.get(sid, {})
    hits = []
    for p in sorted(r):
        if r[p]["exit"] == 1:
            kinds = r[p]["violations"]
            conc = any("no-failing-input-found" not in k for k in kinds)
            hits.append(p if conc else p + "°")
    s = (m.get("summary") or "").replace("|", "/").replace("\n", " ")
    print("| %s | %s | %s | %s |" % (sid, m["breaks_property"], s[:200], " ".join(hits) or "—"))
