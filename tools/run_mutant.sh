#!/bin/sh
# usage: tools/run_mutant.sh <patch.diff> <property>...   (applies to /repo, runs quick checks, reverts)
set -u
P=$(realpath "$1"); shift
[ -z "$(git -C /repo status --porcelain)" ] || { echo "/repo not clean"; exit 2; }
git -C /repo apply "$P" || exit 2
cd /verif
for p in "$@"; do
  out=$(VERIF_DEV_SKIP_PROOF=${VERIF_DEV_SKIP_PROOF:-0} bin/check "$p" "${TIER:-quick}" 2>&1)
  echo "$out" | grep -E "^VIOLATION|^$p " | head -4
done
git -C /repo checkout -- .
rm -f /verif/evidence/replay/*.json
