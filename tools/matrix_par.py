#!/usr/bin/env python3
"""tools/matrix_par.py <ids...>: like `mutants.py matrix --all`, but after the first check of a seeded change
(which pays for the source-state-wide search) the other 18 checks run four at a time."""
import concurrent.futures as cf
import glob, json, os, re, subprocess, sys
V = os.path.dirname(os.path.dirname(os.path.abspath(__file__)))
PROPS = ["C%02d" % i for i in range(1, 20)]


def run(p):
    r = subprocess.run([os.path.join(V, "bin", "check"), p, "quick"], cwd=V, stdout=subprocess.PIPE, stderr=subprocess.STDOUT, text=True)
    viol = [l for l in r.stdout.splitlines() if l.startswith("VIOLATION")]
    kinds = []
    for v in viol:
        mm = re.search(r"replay=(\S+)", v)
        k = "?"
        if mm and os.path.exists(mm.group(1)):
            doc = json.load(open(mm.group(1)))
            k = str(doc.get("kind")) + ":" + str(doc.get("verdict"))[:60]
        kinds.append(k + (" no-failing-input-found" if v.endswith("no-failing-input-found") else ""))
    return p, {"exit": r.returncode, "violations": kinds[:4]}


def main():
    if subprocess.run(["git", "-C", "/repo", "status", "--porcelain"], stdout=subprocess.PIPE, text=True).stdout.strip():
        print("/repo is not clean; refusing")
        return 2
    path = os.path.join(V, "seeded", "results.json")
    for sid in sys.argv[1:]:
        d = os.path.join(V, "seeded", sid)
        if subprocess.run(["git", "-C", "/repo", "apply", os.path.join(d, "patch.diff")]).returncode != 0:
            print(sid, "patch does not apply")
            continue
        try:
            res = dict([run(PROPS[0])])
            with cf.ThreadPoolExecutor(4) as ex:
                res.update(dict(ex.map(run, PROPS[1:])))
        finally:
            subprocess.run(["git", "-C", "/repo", "checkout", "--", "."])
            for f in glob.glob(os.path.join(V, "evidence", "replay", "*.json")):
                os.remove(f)
        results = json.load(open(path))
        results[sid] = res
        json.dump(results, open(path, "w"), indent=1, sort_keys=True)
        print(sid, "alarms:", [p for p in PROPS if res[p]["exit"] != 0], flush=True)
    return 0


if __name__ == "__main__":
    sys.exit(main())
