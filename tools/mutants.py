#!/usr/bin/env python3
"""Seeded-change bookkeeping.
  tools/mutants.py intake            verify every /tmp/mut_*/out/* and copy the confirmed ones to /verif/seeded/<id>/
  tools/mutants.py matrix [--all] [ids...]   apply each seeded change to /repo, run checks, undo; results -> seeded/results.json
Never commits anything to /repo; refuses to run when /repo's working tree is dirty."""
import glob
import json
import os
import re
import shutil
import subprocess
import sys

VERIF = os.path.dirname(os.path.dirname(os.path.abspath(__file__)))
SEEDED = os.path.join(VERIF, "seeded")


def sh(cmd, **kw):
    p = subprocess.run(cmd, stdout=subprocess.PIPE, stderr=subprocess.STDOUT, text=True, **kw)
    return p.returncode, p.stdout


def intake():
    os.makedirs(SEEDED, exist_ok=True)
    for d in sorted(glob.glob("/tmp/mut_C*/out/*") + glob.glob("/tmp/m2_C*/out/*") + glob.glob("/tmp/m3_C*/out/*") + glob.glob("/tmp/m4_C*/out/*")):
        m = re.match(r"/tmp/(mut|m2|m3|m4)_(C\d+)/out/(\w+)", d)
        if not m or not os.path.exists(os.path.join(d, "patch.diff")) or not os.path.exists(os.path.join(d, "demo.rs")):
            continue
        sid = "%s-%s%s" % (m.group(2), {"m2": "r2-", "m3": "r3-", "m4": "r4-"}.get(m.group(1), ""), m.group(3))
        m = re.match(r"(C\d+)()", m.group(2))
        dst = os.path.join(SEEDED, sid)
        if os.path.exists(os.path.join(dst, "meta.json")):
            continue
        rc, out = sh([os.path.join(VERIF, "tools", "verify_mutant.sh"), d])
        res = [l for l in out.splitlines() if l.startswith("RESULT")]
        line = res[-1] if res else "RESULT none"
        ok = ("demo_passes_clean=1" in line and "demo_fails_patched=0" not in line and "59 passed; 0 failed" in line
              and "4 passed; 0 failed" in line and "patch-does-not-apply" not in line)
        print(sid, "OK" if ok else "REJECTED", line)
        if not ok:
            continue
        os.makedirs(dst, exist_ok=True)
        shutil.copy(os.path.join(d, "patch.diff"), dst)
        shutil.copy(os.path.join(d, "demo.rs"), dst)
        try:
            meta = json.load(open(os.path.join(d, "meta.json")))
        except Exception:
            meta = {}
        meta = {"breaks_property": m.group(1), "summary": meta.get("summary"), "needs_to_manifest": meta.get("needs"),
                "files": meta.get("files"), "author_ran": meta.get("ran"),
                "confirmed_by": "tools/verify_mutant.sh in a scratch worktree of /repo: " + line}
        json.dump(meta, open(os.path.join(dst, "meta.json"), "w"), indent=1)


def claimed():
    m = json.load(open(os.path.join(VERIF, "MANIFEST.json")))
    return [c["property_id"] for c in m["checks"]]


def matrix(args):
    allp = "--all" in args
    ids = [a for a in args if not a.startswith("--")]
    rc, out = sh(["git", "-C", "/repo", "status", "--porcelain"])
    if out.strip():
        print("/repo is not clean; refusing")
        return 2
    path = os.path.join(SEEDED, "results.json")
    results = json.load(open(path)) if os.path.exists(path) else {}
    for d in sorted(glob.glob(os.path.join(SEEDED, "*"))):
        sid = os.path.basename(d)
        if not os.path.exists(os.path.join(d, "meta.json")) or (ids and sid not in ids):
            continue
        target = json.load(open(os.path.join(d, "meta.json")))["breaks_property"]
        if target == "none":
            props = sorted(claimed())
        else:
            props = sorted(set(claimed()) | {target}) if allp else [target]
        rc, out = sh(["git", "-C", "/repo", "apply", os.path.join(d, "patch.diff")])
        if rc != 0:
            print(sid, "patch does not apply:", out)
            continue
        try:
            r = results.setdefault(sid, {})
            for p in props:
                env = dict(os.environ)
                if p not in claimed():
                    env["VERIF_DEV_SKIP_PROOF"] = "1"
                rc, out = sh([os.path.join(VERIF, "bin", "check"), p, os.environ.get("TIER", "quick")], cwd=VERIF, env=env)
                viol = [l for l in out.splitlines() if l.startswith("VIOLATION")]
                kinds = []
                for v in viol:
                    mm = re.search(r"replay=(\S+)", v)
                    k = "?"
                    if mm and os.path.exists(mm.group(1)):
                        doc = json.load(open(mm.group(1)))
                        k = doc.get("kind") + ":" + str(doc.get("verdict"))[:60]
                    kinds.append(k + (" no-failing-input-found" if v.endswith("no-failing-input-found") else ""))
                r[p] = {"exit": rc, "violations": kinds[:4]}
                print(sid, p, "CAUGHT" if rc == 1 else "missed", kinds[:2])
                sys.stdout.flush()
        finally:
            sh(["git", "-C", "/repo", "checkout", "--", "."])
            for f in glob.glob(os.path.join(VERIF, "evidence", "replay", "*.json")):
                os.remove(f)
        json.dump(results, open(path, "w"), indent=1, sort_keys=True)
    return 0


if __name__ == "__main__":
    if len(sys.argv) > 1 and sys.argv[1] == "intake":
        intake()
    elif len(sys.argv) > 1 and sys.argv[1] == "matrix":
        sys.exit(matrix(sys.argv[2:]))
    else:
        print(__doc__)
