/-
L2: what DSP0237 (SMBus binding) and DSP0236 (base + control protocol) say an encoded packet
looks like, as literal layouts.  `Enc` (the description of an API call) is only the input
language; nothing here calls the model's encoders.
-/
import Mctp.Model.Encode
import Mctp.Spec.Crc
namespace Mctp
namespace Spec

/-- C04: SMBus framing of a packet of reported length `n` sent from `addr` to `dst` -/
def frameOk (addr dst : B) (pkt : Bytes) (n : Nat) : Bool :=
  decide (4 ≤ pkt.length) &&
  byteAt pkt 0 == (dst &&& 0x7F#8) <<< 1 &&
  byteAt pkt 1 == 0x0F#8 &&
  decide ((byteAt pkt 2).toNat + 4 = pkt.length) &&
  byteAt pkt 3 == (((addr &&& 0x7F#8) <<< 1) ||| 1#8) &&
  decide (n = pkt.length)

/-- C05: message-type byte of the API used -/
def typeByte : Enc → Option B
  | .vendorDefined v _ => if v.format = 0#8 then some 0x7E#8 else if v.format = 1#8 then some 0x7F#8 else none
  | .genPci _ _ => some 0x7E#8
  | .genIana _ _ => some 0x7F#8
  | .genSpdm .spdm _ _ => some 0x05#8
  | .genSpdm .secured _ _ => some 0x06#8
  | .genSpdm _ _ _ => none            -- not an SPDM / secured call
  | _ => some 0x00#8                  -- every control request / response API

/-- C05: bytes 4-8: version 1, destination EID, source EID = own address, SOM=EOM=1 seq 0 TO=1 tag 0 -/
def transportOk (addr dst : B) (e : Enc) (pkt : Bytes) : Bool :=
  decide (9 ≤ pkt.length) &&
  byteAt pkt 4 == 0x01#8 && byteAt pkt 5 == dst && byteAt pkt 6 == addr && byteAt pkt 7 == 0xC8#8 &&
  (match typeByte e with | some t => byteAt pkt 8 == t | none => true)

/-- C06: control request body (from the Rq/D/instance byte up to the last parameter) -/
def reqBody : Enc → Option Bytes
  | .reqSetEid op eid => some [0x80#8, 0x01#8, op, eid]
  | .reqGetEid => some [0x80#8, 0x02#8]
  | .reqGetUuid => some [0x80#8, 0x03#8]
  | .reqVersion q => some [0x80#8, 0x04#8, q]
  | .reqMsgTypes => some [0x80#8, 0x05#8]
  | .reqVendor s => some [0x80#8, 0x06#8, s]
  | .reqResolveEid e => some [0x80#8, 0x07#8, e]
  | .reqAllocate op n f => some [0x80#8, 0x08#8, op, n, f]
  | .reqRouting es => some (0x80#8 :: 0x09#8 :: BitVec.ofNat 8 (es.length / 4) :: es)
  | .reqGetRouting h => some [0x80#8, 0x0A#8, h]
  | .reqPrepare => some [0x80#8, 0x0B#8]
  | .reqDiscovery => some [0x80#8, 0x0C#8]
  | .reqNotify => some [0x80#8, 0x0D#8]
  | .reqNetworkId => some [0x80#8, 0x0E#8]
  | .reqQueryHop e t => some [0x80#8, 0x0F#8, e, t]
  | .reqResolveUuid u h => some (0x80#8 :: 0x10#8 :: (u ++ [h]))
  | .reqQueryRate => some [0x80#8, 0x11#8]
  | _ => none

/-- C07: command code, completion code and the Success fields of a control response -/
def respFields (respEid : B) : Enc → Option (B × B × Bytes)
  | .respSetEid cc rej alloc => some (0x01#8, cc, [((if rej then 1#8 else 0#8) <<< 4) ||| alloc, respEid, 0x00#8])
  | .respGetEid cc et it fair => some (0x02#8, cc, [respEid, (et <<< 4) ||| it, if fair then 1#8 else 0#8])
  | .respUuid cc u => some (0x03#8, cc, u)
  | .respVersion cc => some (0x04#8, cc, [0x01#8, 0xF1#8, 0xF3#8, 0xF1#8, 0x00#8])
  | .respMsgTypes cc ts => some (0x05#8, cc, BitVec.ofNat 8 ts.length :: ts)
  | .respVendor cc sel vid => some (0x06#8, cc, sel :: vid)
  | _ => none

/-- C08: everything from the message-type byte up to the end of the message -/
def vendorFrame : Enc → Option Bytes
  | .vendorDefined v msg =>
      if v.format = 0#8 then
        some (0x7E#8 :: (v.data >>> 8).setWidth 8 :: v.data.setWidth 8 :: msg)
      else if v.format = 1#8 then
        some (0x7F#8 :: (v.data >>> 24).setWidth 8 :: (v.data >>> 16).setWidth 8 ::
              (v.data >>> 8).setWidth 8 :: v.data.setWidth 8 :: msg)
      else none
  | .genSpdm .spdm h d => some (0x05#8 :: (optBytes h ++ d))
  | .genSpdm .secured h d => some (0x06#8 :: (optBytes h ++ d))
  | .genPci h d => some (0x7E#8 :: (optBytes h ++ d))
  | .genIana h d => some (0x7F#8 :: (optBytes h ++ d))
  | _ => none

/-- bytes `a .. b-1` of a packet -/
def sub (p : Bytes) (a b : Nat) : Bytes := (p.take b).drop a

/-- the message: everything between the transport header and the PEC -/
def message (pkt : Bytes) : Bytes := sub pkt 8 (pkt.length - 1)

/-- C16: argument values the API documents as invalid -/
def documentedInvalid : Enc → Bool
  | .reqSetEid _ eid => eid == 0x00#8 || eid == 0xFF#8
  | .reqRouting es => decide (8 ≤ es.length / 4)
  | .respMsgTypes _ ts => decide (30 < ts.length)
  | .vendorDefined v _ => !(v.format == 0#8 || v.format == 1#8)
  | _ => false

end Spec
end Mctp
