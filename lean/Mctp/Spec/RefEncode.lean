/-
L2: a reference encoder assembled from the literal DSP0236/DSP0237 layouts of `Spec/Wire.lean`,
covering EVERY call of the public encoders: documented-invalid arguments are refused, oversize messages
are refused, everything else is the SMBus header, the transport header, the message and the PEC.
It records the library's two deviations explicitly: `query_hop` carries command code 0x0E (finding D5),
and the three stub encoders / an over-long vendor ID field panic.
`Props/RefineEnc.lean` proves the model's pure encoder equal to it for all calls.
-/
import Mctp.Spec.Api
namespace Mctp
namespace Spec

/-- the message (type byte, headers, data) the library emits for a call; equals the DSP0236 layout
except for `query_hop` (D5) and for routing entries that are not whole (only whole entries are sent) -/
def libMessage (respEid : B) : Enc → Bytes
  | .reqQueryHop e t => [0x00#8, 0x80#8, 0x0E#8, e, t]
  | .reqRouting es => 0x00#8 :: 0x80#8 :: 0x09#8 :: BitVec.ofNat 8 (es.length / 4) :: es.take (4 * (es.length / 4))
  | .reqTxRate | .reqUpdateRate | .reqQueryIfaces => [0x00#8, 0x80#8, 0x12#8]
  | .genControl h d => 0x00#8 :: (optBytes h ++ d)
  | .genSpdm t h d => (t.toByte &&& 0x7F#8) :: (optBytes h ++ d)
  | e =>
    match reqBody e with
    | some b => 0x00#8 :: b
    | none =>
      match respFields respEid e with
      | some (cmd, cc, f) => 0x00#8 :: 0x00#8 :: cmd :: cc :: f
      | none => (vendorFrame e).getD []

def refEncode (addr respEid dst : B) (e : Enc) : Out Unit Bytes :=
  if documentedInvalid e then .err ()
  else
    match e with
    | .respVendor _ _ vid =>
      if 7 < vid.length then .panic ⟨.indexOOB, .response⟩
      else
        let m := libMessage respEid e
        let pre := ((dst &&& 0x7F#8) <<< 1) :: 0x0F#8 :: BitVec.ofNat 8 (m.length + 5) ::
          (((addr &&& 0x7F#8) <<< 1) ||| 1#8) :: 0x01#8 :: dst :: addr :: 0xC8#8 :: m
        .ok (pre ++ [crc pre])
    | .reqTxRate | .reqUpdateRate | .reqQueryIfaces => .panic ⟨.unimplemented, .request⟩
    | _ =>
      let m := libMessage respEid e
      if 250 < m.length then .err ()
      else
        let pre := ((dst &&& 0x7F#8) <<< 1) :: 0x0F#8 :: BitVec.ofNat 8 (m.length + 5) ::
          (((addr &&& 0x7F#8) <<< 1) ||| 1#8) :: 0x01#8 :: dst :: addr :: 0xC8#8 :: m
        .ok (pre ++ [crc pre])

end Spec
end Mctp
