/-
L2: shape conditions on API arguments, and what a successfully encoded packet must decode to (C01).
-/
import Mctp.Spec.Wire
namespace Mctp
namespace Spec

/-- the documented shapes of slice arguments: whole routing entries, 16-byte UUIDs,
vendor ID fields of at most 7 bytes -/
def argsOk : Enc → Bool
  | .reqRouting es => es.length % 4 == 0
  | .reqResolveUuid u _ => u.length == 16
  | .respUuid _ u => u.length == 16
  | .respVendor _ _ vid => decide (vid.length ≤ 7)
  | _ => true

/-- C01: message type and payload the decoder must report for the packet this call encodes -/
def rtPayload (respEid : B) (e : Enc) : Option (MsgType × Bytes) :=
  match reqBody e with
  | some b => some (.control, b.drop 2)          -- the bytes after the command code
  | none =>
    match respFields respEid e with
    | some (_, cc, fields) => if cc = 0x00#8 then some (.control, fields) else none
    | none =>
      match e, vendorFrame e with
      | .vendorDefined v _, some fr => some (if v.format = 0#8 then .pci else .iana, fr.drop 1)
      | .genPci _ _, some fr => some (.pci, fr.drop 1)
      | .genIana _ _, some fr => some (.iana, fr.drop 1)
      | .genSpdm t _ _, some fr => some (t, fr.drop 1)
      | _, _ => none

inductive RtClass
  | holds      -- the round trip holds
  | d2         -- finding D2: own Success Get Endpoint ID response rejected
  | d3         -- finding D3: request kinds whose command has no length-table entry
  deriving DecidableEq, Repr

def rtClass : Enc → RtClass
  | .respGetEid _ _ _ _ => .d2
  | .reqRouting _ | .reqGetRouting _ | .reqPrepare | .reqDiscovery | .reqNotify | .reqNetworkId
  | .reqQueryHop _ _ | .reqResolveUuid _ _ | .reqQueryRate => .d3
  | _ => .holds

/-- the completion code argument of a response encoder call -/
def respCc : Enc → Option B
  | .respSetEid cc _ _ | .respGetEid cc _ _ _ | .respUuid cc _ | .respVersion cc
  | .respMsgTypes cc _ | .respVendor cc _ _ => some cc
  | _ => none

end Spec
end Mctp
