/-
L2: the documented wire layouts of the header views (DSP0237: SMBus header, routing entry; DSP0236:
transport header, message body header, control message header) and the code-point tables
(DSP0236 tables 12 and 13, DSP0239), as literal data.  `Props/C18.lean` and `Props/C19.lean` prove the
model against them; `Spec/Judge.lean` judges observations with them.
-/
import Mctp.Model.Views
namespace Mctp
namespace C18

/-- wire position of a field that lives inside one byte: byte index, lowest bit (bit 0 = least
significant bit of the byte), width in bits -/
structure Layout where
  byte : Nat
  lo : Nat
  width : Nat
  deriving DecidableEq, Repr

/-- the layouts of DSP0237 (SMBus header, routing entry) and DSP0236 (transport header, message
body header, control message header), as the library documents them -/
def table : List (Field × Layout) :=
  [ (SMBusHdr.destReadWrite, ⟨0, 0, 1⟩), (SMBusHdr.destSlaveAddr, ⟨0, 1, 7⟩),
    (SMBusHdr.commandCode, ⟨1, 0, 8⟩), (SMBusHdr.byteCount, ⟨2, 0, 8⟩),
    (SMBusHdr.sourceReadWrite, ⟨3, 0, 1⟩), (SMBusHdr.sourceSlaveAddr, ⟨3, 1, 7⟩),
    (RoutingEntry.entryType, ⟨0, 0, 4⟩), (RoutingEntry.eidRangeSize, ⟨1, 0, 8⟩),
    (RoutingEntry.firstEid, ⟨2, 0, 8⟩), (RoutingEntry.physicalAddress, ⟨3, 0, 8⟩),
    (TransportHdr.rsvd, ⟨0, 4, 4⟩), (TransportHdr.hdrVersion, ⟨0, 0, 4⟩),
    (TransportHdr.destEndpointId, ⟨1, 0, 8⟩), (TransportHdr.sourceEndpointId, ⟨2, 0, 8⟩),
    (TransportHdr.som, ⟨3, 7, 1⟩), (TransportHdr.eom, ⟨3, 6, 1⟩), (TransportHdr.pktSeq, ⟨3, 4, 2⟩),
    (TransportHdr.to, ⟨3, 3, 1⟩), (TransportHdr.msgTag, ⟨3, 0, 3⟩),
    (BodyHdr.ic, ⟨0, 7, 1⟩), (BodyHdr.msgType, ⟨0, 0, 7⟩),
    (CtrlHdr.rq, ⟨0, 7, 1⟩), (CtrlHdr.d, ⟨0, 6, 1⟩), (CtrlHdr.rsvd, ⟨0, 5, 1⟩),
    (CtrlHdr.instanceId, ⟨0, 0, 5⟩), (CtrlHdr.commandCode, ⟨1, 0, 8⟩) ]

def Layout.mask (l : Layout) : B := BitVec.ofNat 8 (2 ^ l.width - 1) <<< l.lo


end C18

namespace C19

/-- DSP0236 table 12 (command codes) as a literal list -/
def cmdTable : List (B × Cmd) :=
  [(0x00#8, .reserved), (0x01#8, .setEndpointID), (0x02#8, .getEndpointID), (0x03#8, .getEndpointUUID),
   (0x04#8, .getMCTPVersionSupport), (0x05#8, .getMessageTypeSupport),
   (0x06#8, .getVendorDefinedMessageSupport), (0x07#8, .resolveEndpointID), (0x08#8, .allocateEndpointIDs),
   (0x09#8, .routingInformationUpdate), (0x0A#8, .getRoutingTableEntries),
   (0x0B#8, .prepareForEndpointDiscovery), (0x0C#8, .endpointDiscovery), (0x0D#8, .discoveryNotify),
   (0x0E#8, .getNetworkID), (0x0F#8, .queryHop), (0x10#8, .resolveUUID), (0x11#8, .queryRateLimit),
   (0x12#8, .requestTXRateLimit), (0x13#8, .updateRateLimit), (0x14#8, .querySupportedInterfaces)]

/-- DSP0239 message type codes the library supports -/
def msgTable : List (B × MsgType) :=
  [(0x00#8, .control), (0x05#8, .spdm), (0x06#8, .secured), (0x7E#8, .pci), (0x7F#8, .iana)]

/-- DSP0236 table 13 (completion codes) -/
def ccTable : List (B × CC) :=
  [(0x00#8, .success), (0x01#8, .error), (0x02#8, .errorInvalidData), (0x03#8, .errorInvalidLength),
   (0x04#8, .errorNotReady), (0x05#8, .errorUnsupportedCmd)]

end C19
end Mctp
