/-
L2: the SMBus Packet Error Code as the SMBus specification defines it — a bit-serial CRC
(MSB first) with polynomial x^8 + x^2 + x + 1, initial value 0, no reflection, no final XOR —
and "the last byte is the PEC of all bytes before it".  Independent of the byte-wise
algorithm of the library (Model/Crc8.lean).
-/
import Mctp.Model.Basic
namespace Mctp
namespace Spec

/-- the eight bits of a byte in wire order (most significant first) -/
def bitsOf (b : B) : List Bool :=
  [b.getLsbD 7, b.getLsbD 6, b.getLsbD 5, b.getLsbD 4, b.getLsbD 3, b.getLsbD 2, b.getLsbD 1, b.getLsbD 0]

/-- one clock of the LFSR: shift left, feed back x^2 + x + 1 when (bit shifted out) ≠ (input bit) -/
def lfsr (r : B) (bit : Bool) : B :=
  if r.msb != bit then (r <<< 1) ^^^ 0x07#8 else r <<< 1

def crcBits (bits : List Bool) : B := bits.foldl lfsr 0#8

def crc (xs : Bytes) : B := crcBits (xs.flatMap bitsOf)

/-- the final byte is the PEC of everything before it -/
def pecOk (p : Bytes) : Bool :=
  match p.getLast? with
  | some l => l == crc p.dropLast
  | none => false

/-- XOR of two byte strings position by position (corruption applied to a packet) -/
def xorBytes : Bytes → Bytes → Bytes
  | a :: as, b :: bs => (a ^^^ b) :: xorBytes as bs
  | _, _ => []

/-- wire positions (0 = first bit on the wire) of the set bits of an error pattern -/
def setBits (e : Bytes) : List Nat :=
  (List.range (8 * e.length)).filter fun i => (e.getD (i / 8) 0).getLsbD (7 - i % 8)

/-- a non-zero error pattern confined to eight consecutive bits on the wire -/
def isBurst8 (e : Bytes) : Bool :=
  let s := setBits e
  !s.isEmpty && s.all fun i => s.all fun j => decide (i < j + 8 ∧ j < i + 8)

end Spec
end Mctp
