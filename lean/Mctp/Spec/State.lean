/-
L2: the abstract behaviour of an endpoint context over a history of operations
(C11-C15): which EID it holds, what its identity answers are, how vendor sets enumerate.
-/
import Mctp.Model.Process
import Mctp.Spec.Accept
import Mctp.Spec.Wire
namespace Mctp
namespace Spec

/-- an accepted control request (the only inputs that are answered): well-formed per C09 and long
enough to hold the control header -/
def isAcceptedRequest (p : Bytes) : Bool :=
  accept p && isControl p && isRequest p && decide (12 ≤ p.length)

/-- C13: the EID an accepted Set Endpoint ID request with operation Set or Force assigns -/
def assigns (p : Bytes) : Option B :=
  if isAcceptedRequest p && cmdOf p == 0x01#8 && (byteAt p 11 == 0x00#8 || byteAt p 11 == 0x01#8)
  then some (byteAt p 12) else none

/-- C13: (request half, response half) after one more operation -/
def eidsStep (s : B × B) : Op → B × B
  | .process p _ => match assigns p with | some e => (e, e) | none => s
  | .setEidReq e => (e, s.2)
  | .setEidResp e => (s.1, e)
  | _ => s

/-- C13: the EIDs a fresh context reports after a history -/
def eids (ops : List Op) : B × B := ops.foldl eidsStep (0#8, 0#8)

/-- C15: the UUID after a history (all zero before any `set_uuid`) -/
def uuidStep (u : Bytes) : Op → Bytes
  | .setUuid v => if v.length = 16 then v else u
  | _ => u
def uuid (ops : List Op) : Bytes := ops.foldl uuidStep (List.replicate 16 0#8)

/-- preconditions the properties place on operations: response buffers of at least 64 bytes -/
def opOk : Op → Bool
  | .process _ buf => decide (64 ≤ buf.length)
  | _ => true

/-- C10/C12/C14/C15: a validly configured context -/
def configOk (c : Ctx) : Bool :=
  decide (c.msgTypes.length ≤ 30) && c.vendorIds.all (fun v => v.format == 0#8 || v.format == 1#8) &&
  decide (1 ≤ c.vendorIds.length) && decide (c.vendorIds.length ≤ 255) && decide (c.uuid.length = 16)

/-- C14: a vendor ID set in its own format, numeric value last, all most-significant byte first -/
def encodeSet (v : VendorId) : Bytes :=
  if v.format = 0#8 then
    [0x00#8, (v.data >>> 8).setWidth 8, v.data.setWidth 8, (v.numeric >>> 8).setWidth 8, v.numeric.setWidth 8]
  else
    [0x01#8, (v.data >>> 24).setWidth 8, (v.data >>> 16).setWidth 8, (v.data >>> 8).setWidth 8,
     v.data.setWidth 8, (v.numeric >>> 8).setWidth 8, v.numeric.setWidth 8]

/-- C14: next selector after set `i` of `n` -/
def nextSelector (i n : Nat) : B := if i + 1 = n then 0xFF#8 else BitVec.ofNat 8 (i + 1)

/-- C10: requests the processor accepts but panics on instead of answering (finding D11),
given a valid configuration with `n` vendor sets -/
def dispatchPanicClass (n : Nat) (p : Bytes) : Option Panic :=
  if isAcceptedRequest p then
    let cmd := cmdOf p
    if cmd = 0x00#8 then some ⟨.unreachable, .smbus⟩
    else if cmd = 0x01#8 then
      if byteAt p 11 = 0x02#8 then some ⟨.unimplemented, .smbus⟩
      else if 4 ≤ (byteAt p 11).toNat then some ⟨.unreachable, .smbus⟩ else none
    else if cmd = 0x06#8 then
      if byteAt p 11 = 0xFF#8 then some ⟨.addOverflow, .smbus⟩
      else if n ≤ (byteAt p 11).toNat then some ⟨.indexOOB, .smbus⟩ else none
    else if cmd = 0x07#8 ∨ cmd = 0x08#8 then some ⟨.unimplemented, .smbus⟩
    else none
  else none

/-- C10: every input on which `process_packet` panics, with the panic -/
def processPanicClass (n : Nat) (p : Bytes) : Option Panic :=
  match decodePanicClass p with
  | some k => some k
  | none => dispatchPanicClass n p

/-- C12: an accepted request the responder answers -/
def answerable (n : Nat) (p : Bytes) : Bool :=
  isAcceptedRequest p && (processPanicClass n p).isNone

/-- C12: the response `resp` (reported length `m`) answers request `p` from a responder at `addr` -/
def respondsTo (addr : B) (p resp : Bytes) (m : Nat) : Bool :=
  frameOk addr (byteAt p 6) resp m && pecOk resp && crc resp == 0x00#8 &&
  decide (13 ≤ resp.length) &&
  byteAt resp 4 == 0x01#8 && byteAt resp 5 == byteAt p 6 && byteAt resp 6 == addr &&
  (byteAt resp 7 &&& 0xF0#8) == 0xC0#8 &&                    -- SOM, EOM, sequence 0
  byteAt resp 8 == 0x00#8 &&                                  -- control message, IC clear
  (byteAt resp 9 &&& 0xE0#8) == 0x00#8 &&                     -- Rq, D, reserved clear
  byteAt resp 10 == byteAt p 10                               -- same command code

/-- C12: the instance ID is echoed -/
def instanceEchoed (p resp : Bytes) : Bool := (byteAt resp 9 &&& 0x1F#8) == (byteAt p 9 &&& 0x1F#8)

end Spec
end Mctp
