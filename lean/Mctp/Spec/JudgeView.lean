/-
L2, executable: judges for the observations of C18 (header views: getters, setters, validators,
constructors, the two header generators) and C19 (the three `From<u8>` conversions).  The only
inputs are the literal tables of `Spec/Layout.lean`; none of the model's accessors, constructors or
conversions is used.  `Props/JudgeSoundView.lean` proves the model's own observation is never judged
`fail` here.
-/
import Mctp.Spec.Judge
import Mctp.Spec.Layout
namespace Mctp
namespace Spec
open C18 C19

/-- where a view field lives: inside one byte, or a big-endian integer over the first `n` bytes -/
inductive Shape
  | bits (l : Layout)
  | be (n : Nat)
  deriving DecidableEq, Repr

def layoutOf (f : Field) : Option Layout := (table.find? (fun p => decide (p.1 = f))).map (·.2)

def shapeOf (f : Field) : Option Shape :=
  match layoutOf f with
  | some l => some (.bits l)
  | none =>
    if f = PciFmt.vendorId then some (.be 2)
    else if f = IanaFmt.vendorId then some (.be 4)
    else none

/-- highest byte index the accessor touches -/
def Shape.top : Shape → Nat
  | .bits l => l.byte
  | .be n => n - 1

def beGet (raw : Bytes) (n : Nat) : Nat := (raw.take n).foldl (fun a b => a * 256 + b.toNat) 0

def beBytes (n v : Nat) : Bytes := (List.range n).reverse.map fun i => BitVec.ofNat 8 (v / 256 ^ i)

def Shape.get (raw : Bytes) : Shape → Nat
  | .bits l => (byteAt raw l.byte).toNat / 2 ^ l.lo % 2 ^ l.width
  | .be n => beGet raw n

def Shape.set (raw : Bytes) (v : Nat) : Shape → Bytes
  | .bits l => raw.set l.byte ((byteAt raw l.byte &&& ~~~l.mask) ||| (BitVec.ofNat 8 (v % 2 ^ l.width) <<< l.lo))
  | .be n => beBytes n v ++ raw.drop n

/-- C18 getter: the documented bits (or big-endian integer); on a backing buffer that does not
reach the field, an index panic in the file declaring the view -/
def judgeViewGet (f : Field) (file : SrcFile) (raw : Bytes) (o : Out Unit Nat) : Verdict :=
  match shapeOf f with
  | none => .na
  | some s =>
    if raw.length ≤ s.top then chk (o == .panic ⟨.indexOOB, file⟩) "short-view"
    else chk (o == .ok (s.get raw)) "getter-layout"

/-- C18 setter: exactly the documented bits change (to the value, truncated to the field), nothing
else, the length stays -/
def judgeViewSet (f : Field) (file : SrcFile) (raw : Bytes) (v : Nat) (o : Out Unit Bytes) : Verdict :=
  match shapeOf f with
  | none => .na
  | some s =>
    if raw.length ≤ s.top then chk (o == .panic ⟨.indexOOB, file⟩) "short-view"
    else chk (o == .ok (s.set raw v)) "setter-layout"

/-- transport header validator: reserved nibble zero and the version nibble equal to the expected one -/
def judgeTfb (raw : Bytes) (ver : B) (o : Bool) : Verdict :=
  if raw.length < 1 then .na
  else chk (o == ((byteAt raw 0 &&& 0xF0#8) == 0x00#8 && (byteAt raw 0 &&& 0x0F#8) == ver)) "transport-validator"

/-- body header validator: IC clear and a message type of the DSP0239 table -/
def judgeBfb (raw : Bytes) (o : Bool) : Verdict :=
  if raw.length < 1 then .na
  else chk (o == ((byteAt raw 0 &&& 0x80#8) == 0x00#8 && (msgTable.lookup (byteAt raw 0 &&& 0x7F#8)).isSome))
    "body-validator"

/-- numeric value of a message type (DSP0239; the library's `Invalid` is 0xFF) -/
def typeValue (t : MsgType) : B :=
  match msgTable.find? (fun p => decide (p.2 = t)) with
  | some p => p.1
  | none => 0xFF#8

def bit (b : Bool) (k : Nat) : B := if b then 1#8 <<< k else 0#8

def judgeNewCtrl (rq d : Bool) (iid cmd : B) (o : Out Unit Bytes) : Verdict :=
  chk (o == .ok [bit rq 7 ||| bit d 6 ||| (iid &&& 0x1F#8), cmd]) "constructor-layout"

def judgeNewTransport (v : B) (o : Out Unit Bytes) : Verdict :=
  chk (o == .ok [v &&& 0x0F#8, 0x00#8, 0x00#8, 0x00#8]) "constructor-layout"

/-- the library refuses (panics on) integrity-checked bodies; otherwise one byte: IC clear, 7-bit type -/
def judgeNewBody (ic : Bool) (t : MsgType) (o : Out Unit Bytes) : Verdict :=
  if ic then chk (o == .panic ⟨.explicit, .base⟩) "constructor-layout"
  else chk (o == .ok [typeValue t &&& 0x7F#8]) "constructor-layout"

def judgeNewRouting (t sz first phys : B) (o : Out Unit Bytes) : Verdict :=
  chk (o == .ok [t &&& 0x0F#8, sz, first, phys]) "constructor-layout"

def judgeNewBe (n v : Nat) (o : Out Unit Bytes) : Verdict :=
  chk (o == .ok (beBytes n v)) "constructor-layout"

/-- DSP0237 SMBus header as generated for a context with address `addr` sending to `dst` (the
byte count is filled in later) -/
def judgeHdrSmbus (addr dst : B) (o : Out Unit Bytes) : Verdict :=
  chk (o == .ok [(dst &&& 0x7F#8) <<< 1, 0x0F#8, 0x00#8, ((addr &&& 0x7F#8) <<< 1) ||| 1#8]) "header-generator"

def judgeHdrTransport (addr dst : B) (o : Out Unit Bytes) : Verdict :=
  chk (o == .ok [0x01#8, dst, addr, 0xC8#8]) "header-generator"

/-- C19: the conversion hits the table row of the byte (numeric value = the byte), every other
byte is `Unknown` (0xFF) -/
def judgeConvCmd (b : B) (o : Out Unit (B × Cmd)) : Verdict :=
  match cmdTable.lookup b with
  | some c => chk (o == .ok (b, c)) "command-code-table"
  | none => chk (o == .ok (0xFF#8, .unknown)) "command-code-table"

def judgeConvMsg (b : B) (o : Out Unit (B × MsgType)) : Verdict :=
  match msgTable.lookup b with
  | some t => chk (o == .ok (b, t)) "message-type-table"
  | none => chk (o == .ok (0xFF#8, .invalid)) "message-type-table"

/-- C19 constrains completion codes 0-5 only (the panic above 5 is C10's finding D10) -/
def judgeConvCc (b : B) (o : Out Unit (B × CC)) : Verdict :=
  match ccTable.lookup b with
  | some c => chk (o == .ok (b, c)) "completion-code-table"
  | none => .na

end Spec
end Mctp
