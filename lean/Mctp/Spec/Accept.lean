/-
L2: the reference acceptance predicate for the decoder (C09), the classes of inputs on which
the receive path is known to panic (C10 findings), and the condition each error may name.
Stated directly on the bytes; nothing here calls the model's decoder.
-/
import Mctp.Model.Decode
import Mctp.Spec.Crc
namespace Mctp
namespace Spec

def typeBits (p : Bytes) : B := byteAt p 8 &&& 0x7F#8

/-- transport header version 1 with zero reserved bits, IC clear, supported message type -/
def hdrOk (p : Bytes) : Bool :=
  byteAt p 4 == 0x01#8 && (byteAt p 8 &&& 0x80#8) == 0x00#8 &&
  (typeBits p == 0x00#8 || typeBits p == 0x05#8 || typeBits p == 0x06#8 ||
   typeBits p == 0x7E#8 || typeBits p == 0x7F#8)

def msgTypeOf (p : Bytes) : MsgType :=
  if typeBits p = 0x00#8 then .control
  else if typeBits p = 0x05#8 then .spdm
  else if typeBits p = 0x06#8 then .secured
  else if typeBits p = 0x7E#8 then .pci
  else if typeBits p = 0x7F#8 then .iana
  else .invalid

def isControl (p : Bytes) : Bool := typeBits p == 0x00#8
def isRequest (p : Bytes) : Bool := (byteAt p 9 &&& 0x80#8) != 0x00#8
def cmdOf (p : Bytes) : B := byteAt p 10
def ccByte (p : Bytes) : B := byteAt p 11

/-- DSP0236 request data lengths the decoder enforces -/
def reqFixed (cmd : B) : Option Nat :=
  if cmd = 0x01#8 then some 2 else if cmd = 0x04#8 then some 1 else if cmd = 0x06#8 then some 1
  else if cmd = 0x07#8 then some 1 else if cmd = 0x08#8 then some 3 else none

/-- response data lengths inside the claim of C09 (Set EID, UUID, Version) -/
def respFixed (cmd : B) : Option Nat :=
  if cmd = 0x01#8 then some 3 else if cmd = 0x03#8 then some 16 else if cmd = 0x04#8 then some 5 else none

/-- where the payload starts -/
def hdrEnd (p : Bytes) : Nat :=
  if isControl p then (if isRequest p then 11 else 12) else 9

def lenFits (o : Option Nat) (n : Nat) : Bool :=
  match o with | some k => n == k | none => true

/-- C09: the decoder must accept exactly these byte strings (inside the claim) -/
def accept (p : Bytes) : Bool :=
  hdrOk p && pecOk p &&
  (if isControl p then
     if isRequest p then lenFits (reqFixed (cmdOf p)) (p.length - 12)
     else ccByte p == 0x00#8 && lenFits (respFixed (cmdOf p)) (p.length - 13)
   else true)

/-- long enough to hold the headers its type needs (plus the PEC) -/
def longEnough (p : Bytes) : Bool :=
  decide (10 ≤ p.length) &&
  (if isControl p then (if isRequest p then decide (12 ≤ p.length) else decide (13 ≤ p.length)) else true)

/-- the request length table has no entry: `unimplemented!()` (finding D3) -/
def reqUnimpl (cmd : B) : Bool := decide (0x09 ≤ cmd.toNat)
/-- the response length table has no entry: `unimplemented!()` (finding D3) -/
def respUnimpl (cmd : B) : Bool := cmd == 0x07#8 || decide (0x0A ≤ cmd.toNat)

/-- C10: the inputs on which the decoder panics, with the panic (findings D3 and D10) -/
def decodePanicClass (p : Bytes) : Option Panic :=
  if hdrOk p && decide (10 ≤ p.length) && isControl p && decide (12 ≤ p.length) then
    if isRequest p then
      if reqUnimpl (cmdOf p) then some ⟨.unimplemented, .traits⟩ else none
    else if decide (13 ≤ p.length) then
      if decide (6 ≤ (ccByte p).toNat) then some ⟨.unreachable, .control⟩
      else if ccByte p == 0x00#8 && respUnimpl (cmdOf p) then some ⟨.unimplemented, .traits⟩
      else none
    else none
  else none

/-- C09: the inputs the claim is about -/
def inClaim (p : Bytes) : Bool :=
  longEnough p &&
  !(isControl p && !isRequest p && (cmdOf p == 0x02#8 || cmdOf p == 0x08#8 || cmdOf p == 0x09#8)) &&
  (decodePanicClass p).isNone

/-- C09: the condition an error is allowed to name -/
def errTruthful (p : Bytes) : DErr → Bool
  | (_, .ctl .pec) => !pecOk p
  | (_, .ctl .len) =>
      isControl p &&
      (!longEnough p ||
       (if isRequest p then !lenFits (reqFixed (cmdOf p)) (p.length - 12)
        else !lenFits (respFixed (cmdOf p)) (p.length - 13)))
  | (_, .ctl (.cc c)) => isControl p && !isRequest p && decide (13 ≤ p.length) && ccByte p == c.toByte && c != .success
  | (.invalid, .unknown) => !hdrOk p || decide (p.length < 10)
  | (_, .unknown) => false
  | (_, .ctl .hdr) => false
  | (_, .ctl .unknown) => false

end Spec
end Mctp
