/-
L2, executable: judge an observation (what the implementation — or the model — returned for one
operation) against each property's specification clause.  A verdict is
  ok          the clause holds at this case
  na          the clause does not apply to this case
  known:<id>  the clause fails, exactly in the way finding <id> describes
  fail:<why>  the clause fails in any other way
Only specification-level definitions are used (Spec.*); the model's encoders/decoders are not.
-/
import Mctp.Spec.State
import Mctp.Spec.Api
namespace Mctp
namespace Spec

inductive Verdict
  | ok | na | known (id : String) | fail (why : String)
  deriving DecidableEq, Repr

def Verdict.toString : Verdict → String
  | .ok => "ok" | .na => "na" | .known id => s!"known:{id}" | .fail w => s!"fail:{w}"

def Verdict.and (a b : Verdict) : Verdict :=
  match a, b with
  | .fail w, _ => .fail w
  | _, .fail w => .fail w
  | .known i, _ => .known i
  | _, .known i => .known i
  | .ok, _ => .ok
  | _, .ok => .ok
  | .na, .na => .na

def chk (b : Bool) (why : String) : Verdict := if b then .ok else .fail why

/-- specification-level state of one context -/
structure SpecSt where
  addr : B
  types : Bytes
  vendors : List VendorId
  eids : B × B
  uuid : Bytes
  deriving Repr

def SpecSt.new (a : B) (t : Bytes) (v : List VendorId) : SpecSt :=
  ⟨a, t, v, (0#8, 0#8), List.replicate 16 0#8⟩

def SpecSt.step (s : SpecSt) (op : Op) : SpecSt :=
  { s with eids := eidsStep s.eids op, uuid := uuidStep s.uuid op }

def SpecSt.configOk (s : SpecSt) : Bool :=
  decide (s.types.length ≤ 30) && s.vendors.all (fun v => v.format == 0#8 || v.format == 1#8) &&
  decide (1 ≤ s.vendors.length) && decide (s.vendors.length ≤ 255) && decide (s.uuid.length = 16)

abbrev EncObs := Out Unit (Bytes × Nat)      -- for `err` the harness reports the buffer separately
abbrev DecObs := Out DErr Dec
abbrev ProcObs := ProcRes

/-- length of the message (type byte, headers, data) the call asks to send, when the spec knows it -/
def messageLen (respEid : B) (e : Enc) : Option Nat :=
  match reqBody e with
  | some b => some (1 + b.length)
  | none =>
    match respFields respEid e with
    | some (_, _, f) => some (4 + f.length)
    | none =>
      match e with
      | .genControl h d => some (1 + optLen h + d.length)
      | .vendorDefined v m =>
          if v.format = 0#8 then some (3 + m.length) else if v.format = 1#8 then some (5 + m.length) else none
      | _ => (vendorFrame e).map (·.length)

def isStubCall : Enc → Bool
  | .reqTxRate | .reqUpdateRate | .reqQueryIfaces => true
  | _ => false

/-! ### encoder calls -/

def judgeEnc (prop : String) (s : SpecSt) (dst : B) (e : Enc) (buf : Bytes) (o : EncObs) (errBuf : Bytes) : Verdict :=
  let respEid := s.eids.2
  match prop with
  | "C03" =>
    match o with
    | .ok (b, n) => chk (pecOk (b.take n) && crc (b.take n) == 0x00#8) "pec"
    | _ => .na
  | "C04" =>
    match o with
    | .ok (b, n) => chk (frameOk s.addr dst (b.take n) n && decide (n ≤ 259) && decide (n ≤ b.length)) "frame"
    | .err _ =>
      match messageLen respEid e with
      | some m => if 250 < m then .ok else .na
      | none => .na
    | .panic _ =>
      match messageLen respEid e with
      | some m => if 250 < m && argsOk e then .fail "oversize-not-refused" else .na
      | none => .na
  | "C05" =>
    match o with
    | .ok (b, n) => chk (transportOk s.addr dst e (b.take n)) "transport"
    | _ => .na
  | "C06" =>
    match o, reqBody e with
    | .ok (b, n), some body =>
      if !argsOk e then .na
      else if sub (b.take n) 9 (n - 1) == body then .ok
      else match e with
        | .reqQueryHop a t => if sub (b.take n) 9 (n - 1) == [0x80#8, 0x0E#8, a, t] then .known "D5" else .fail "body"
        | _ => .fail "body"
    | .err _, some _ => if documentedInvalid e || !argsOk e then .na else .fail "valid-request-refused"
    | .panic _, some body =>
      if documentedInvalid e || !argsOk e || decide (buf.length < 10 + body.length) then .na else .fail "valid-request-panics"
    | _, _ => .na
  | "C07" =>
    match o, respFields respEid e with
    | .ok (b, n), some (cmd, cc, fields) =>
      (chk (sub (b.take n) 9 12 == [0x00#8, cmd, cc]) "header").and
        (if cc = 0x00#8 then chk (sub (b.take n) 12 (n - 1) == fields) "fields" else .ok)
    | .err _, some _ => if documentedInvalid e || !argsOk e then .na else .fail "valid-response-refused"
    | .panic _, some (_, _, fields) =>
      if documentedInvalid e || !argsOk e || decide (buf.length < 13 + fields.length) then .na else .fail "valid-response-panics"
    | _, _ => .na
  | "C08" =>
    match e with
    | .vendorDefined v _ =>
      if v.format = 0#8 ∨ v.format = 1#8 then
        match o, vendorFrame e with
        | .ok (b, n), some fr => chk (message (b.take n) == fr) "frame"
        | .err _, some fr => if decide (fr.length ≤ 250) then .fail "valid-message-refused" else .na
        | .panic _, some fr => if decide (fr.length ≤ 250) && decide (9 + fr.length < buf.length) then .fail "valid-message-panics" else .na
        | _, _ => .na
      else
        match o with
        | .err _ => chk (errBuf == buf) "buffer-touched"
        | _ => .fail "bad-format-not-refused"
    | _ =>
      match o, vendorFrame e with
      | .ok (b, n), some fr => chk (message (b.take n) == fr) "frame"
      | .err _, some fr => if decide (fr.length ≤ 250) then .fail "valid-message-refused" else .na
      | .panic _, some fr => if decide (fr.length ≤ 250) && decide (9 + fr.length < buf.length) then .fail "valid-message-panics" else .na
      | _, _ => .na
  | "C16" =>
    let fits : Option Bool := (messageLen respEid e).map (fun m => decide (m ≤ 250))
    match o with
    | .ok (b, n) =>
      (chk (b.length == buf.length && b.drop n == buf.drop n && decide (n ≤ buf.length)) "wrote-beyond-length").and
        (chk (!documentedInvalid e) "documented-invalid-accepted")
    | .err _ =>
      (chk (errBuf == buf) "buffer-touched-on-error").and
        (if documentedInvalid e then .ok
         else match fits with
           | some false => .ok
           | some true => if argsOk e then .fail "valid-argument-refused" else .na
           | none => .na)
    | .panic _ =>
      if isStubCall e then .na
      else if documentedInvalid e then .fail "documented-invalid-panics"
      else match fits, messageLen respEid e with
        | some true, some m => if argsOk e && decide (m + 9 ≤ buf.length) then .fail "panic" else .na
        | some false, _ => if argsOk e then .fail "oversize-panics" else .na
        | _, _ => .na
  | _ => .na

/-! ### round trip (C01): the real encoder's output handed to the decoder -/

def judgeRt (s : SpecSt) (e : Enc) (pkt : Bytes) (o : DecObs) (outside : Bool) : Verdict :=
  let n := pkt.length
  match respCc e with
  | some cc =>
    if 5 < cc.toNat then .na            -- not expressible through the API's CompletionCode enum
    else if cc ≠ 0x00#8 then
      match o with
      | .err (.control, .ctl (.cc c)) => chk (c.toByte == cc) "wrong-completion-code"
      | _ => .fail "error-response-not-reported"
    else
      match rtPayload s.eids.2 e, o with
      | some (t, pl), .ok (t', off, len) =>
        chk (!outside && t' == t && off == n - 1 - pl.length && len == pl.length && sub pkt off (off + len) == pl) "payload"
      | some _, .err (.control, .ctl .len) => if rtClass e == .d2 then .known "D2" else .fail "rejected"
      | some _, .err _ => .fail "rejected"
      | some _, .panic _ => .fail "panic"
      | none, _ => .na
  | none =>
    match rtPayload s.eids.2 e, o with
    | some (t, pl), .ok (t', off, len) =>
      chk (!outside && t' == t && off == n - 1 - pl.length && len == pl.length && sub pkt off (off + len) == pl) "payload"
    | some _, .panic k =>
      if rtClass e == .d3 && k == ⟨.unimplemented, .traits⟩ then .known "D3" else .fail "panic"
    | some _, .err _ => .fail "rejected"
    | none, _ => .na

/-! ### decoder -/

def panicId (k : Panic) : String :=
  if k == ⟨.unimplemented, .traits⟩ then "D3"
  else if k == ⟨.unreachable, .control⟩ then "D10"
  else "D11"

def judgeDec (prop : String) (p : Bytes) (o : DecObs) (outside : Bool) : Verdict :=
  match prop with
  | "C02" =>
    match o with
    | .ok _ => chk (pecOk p) "accepted-with-bad-pec"
    | _ => if pecOk p then .na else .ok
  | "C09" =>
    if inClaim p then
      match o with
      | .ok (t, off, len) =>
        (chk (accept p) "accepted-malformed").and
          (chk (!outside && t == msgTypeOf p && off == hdrEnd p && off + len + 1 == p.length) "payload")
      | .err e => (chk (!accept p) "rejected-wellformed").and (chk (errTruthful p e) "untruthful-error")
      | .panic _ => .fail "panic-inside-claim"
    else .na
  | "C10" =>
    match o with
    | .panic k => if decodePanicClass p == some k then .known (panicId k) else .fail "panic"
    | _ => .ok
  | _ => .na

def judgeLen (prop : String) (p : Bytes) (o : Out DErr Nat) : Verdict :=
  match prop with
  | "C17" | "C04" =>
    match o with
    | .panic _ => .fail "panic"
    | .ok n => chk (decide (3 ≤ p.length) && byteAt p 1 == 0x0F#8 && n == (byteAt p 2).toNat + 4) "length"
    | .err (t, _) => chk ((decide (p.length < 3) || byteAt p 1 != 0x0F#8) && t == .invalid) "error"
  | "C10" =>
    match o with
    | .panic _ => .fail "panic"
    | _ => .ok
  | _ => .na

/-! ### request processor -/

/-- expected control body (bytes 9 .. n-2) of the response to an accepted request, where the
specification determines it -/
def expectedResponse (s : SpecSt) (p : Bytes) : Option Bytes :=
  let cmd := cmdOf p
  if cmd = 0x01#8 then
    if byteAt p 11 = 0x00#8 ∨ byteAt p 11 = 0x01#8 then some [0x00#8, 0x01#8, 0x00#8, 0x00#8, byteAt p 12, 0x00#8]
    else if byteAt p 11 = 0x03#8 then some [0x00#8, 0x01#8, 0x02#8, 0x00#8, s.eids.2, 0x00#8]
    else none
  else if cmd = 0x02#8 then some [0x00#8, 0x02#8, 0x00#8, s.eids.2, 0x00#8, 0x00#8]
  else if cmd = 0x03#8 then some ([0x00#8, 0x03#8, 0x00#8] ++ s.uuid)
  else if cmd = 0x04#8 then some [0x00#8, 0x04#8, 0x00#8, 0x01#8, 0xF1#8, 0xF3#8, 0xF1#8, 0x00#8]
  else if cmd = 0x05#8 then some ([0x00#8, 0x05#8, 0x00#8, BitVec.ofNat 8 s.types.length] ++ s.types)
  else if cmd = 0x06#8 then
    match s.vendors[(byteAt p 11).toNat]? with
    | some v => some ([0x00#8, 0x06#8, 0x00#8, nextSelector (byteAt p 11).toNat s.vendors.length] ++ encodeSet v)
    | none => none
  else none

def respBody (b : Bytes) (n : Nat) : Bytes := sub (b.take n) 9 (n - 1)

def judgeProc (prop : String) (s : SpecSt) (p buf : Bytes) (o : ProcObs) (outside : Bool)
    (buf' : Bytes) (eidsAfter : B × B) : Verdict :=
  -- validly configured, and the buffer is long enough for the response the specification prescribes
  -- (64 bytes always are; exactly sized buffers count too: Refine.process_eq_ref_fit)
  let pre := s.configOk &&
    (match expectedResponse s p with
     | some body => decide (10 + body.length ≤ buf.length)
     | none => true)
  let nv := s.vendors.length
  match prop with
  | "C02" =>
    match o with
    | .ok _ => chk (pecOk p) "accepted-with-bad-pec"
    | _ => if pecOk p then .na else chk (buf' == buf && eidsAfter == s.eids) "bad-pec-had-effect"
  | "C03" =>
    -- a response written by the processor is an encoded packet too
    match o with
    | .ok (_, some n) => chk (pecOk (buf'.take n) && crc (buf'.take n) == 0x00#8) "pec"
    | _ => .na
  | "C04" =>
    match o with
    | .ok (_, some n) => chk (frameOk s.addr (byteAt p 6) (buf'.take n) n) "frame"
    | _ => .na
  | "C05" =>
    match o with
    | .ok (_, some n) =>
      chk (decide (9 ≤ n) && byteAt buf' 4 == 0x01#8 && byteAt buf' 5 == byteAt p 6 && byteAt buf' 6 == s.addr &&
           (byteAt buf' 7 &&& 0xF0#8) == 0xC0#8 && byteAt buf' 8 == 0x00#8) "transport"
    | _ => .na
  | "C10" =>
    if pre then
      match o with
      | .panic k => if processPanicClass nv p == some k then .known (panicId k) else .fail "panic"
      | _ => .ok
    else .na
  | "C11" =>
    match o with
    | .ok ((_, _, _), some n) =>
      chk (!outside && isAcceptedRequest p && buf'.length == buf.length && buf'.drop n == buf.drop n &&
           decide (n ≤ buf.length)) "response-frame"
    | .ok (_, none) => chk (!outside && !(isControl p && isRequest p) && buf' == buf) "no-response-but-written"
    | .err _ => chk (buf' == buf) "rejected-but-written"
    | .panic _ => .na
  | "C12" =>
    if pre && answerable nv p then
      match o with
      | .ok (_, some n) =>
        (chk (respondsTo s.addr p (buf'.take n) n) "response-malformed").and
          (if instanceEchoed p (buf'.take n) then .ok
           else if (byteAt (buf'.take n) 9 &&& 0x1F#8) == 0x00#8 then .known "D12" else .fail "instance-id")
      | _ => .fail "not-answered"
    else .na
  | "C13" =>
    (chk (eidsAfter == eidsStep s.eids (.process p buf)) "eid").and
      (if pre && answerable nv p && (cmdOf p == 0x01#8 || cmdOf p == 0x02#8) then
         match o, expectedResponse s p with
         | .ok (_, some n), some body => chk (respBody buf' n == body) "eid-answer"
         | _, _ => .fail "eid-answer-missing"
       else .na)
  | "C14" =>
    if pre && answerable nv p && cmdOf p == 0x06#8 then
      match o, expectedResponse s p with
      | .ok (_, some n), some body => chk (respBody buf' n == body) "vendor-answer"
      | _, _ => .fail "vendor-answer-missing"
    else .na
  | "C15" =>
    if pre && answerable nv p && (cmdOf p == 0x03#8 || cmdOf p == 0x04#8 || cmdOf p == 0x05#8) then
      match o, expectedResponse s p with
      | .ok (_, some n), some body => chk (respBody buf' n == body) "identity-answer"
      | _, _ => .fail "identity-answer-missing"
    else .na
  | _ => .na

/-- accessor writes -/
def judgeSet (prop : String) (s : SpecSt) (op : Op) (eidsAfter : B × B) : Verdict :=
  match prop with
  | "C13" => chk (eidsAfter == eidsStep s.eids op) "eid"
  | _ => .na

end Spec
end Mctp
