/-
L2 specification predicates, executable so that the driver can evaluate them on what the
implementation returned. Written from DSP0236 / DSP0237 and the property texts; nothing here
calls the L1 model of the library (only the shared byte type and the CRC-free helpers).
-/
import Mctp.Model.Basic
namespace Mctp
namespace Spec

/-- placeholder dispatcher, extended property by property -/
def eval (name : String) (args : List String) : String :=
  let _ := args
  s!"unknown-spec {name}"

end Spec
end Mctp
