/-
L2: a reference decoder written directly on the bytes (no bit-field views, no slices), covering
EVERY input: inside the C09 claim it is the DSP0236/DSP0237 acceptance rule, outside it records
what the library does (its own response length table, and the finding classes where it panics).
`Props/Refine.lean` proves the model's decoder equal to it for all byte strings.
-/
import Mctp.Spec.Accept
namespace Mctp
namespace Spec

/-- the library's response length table, including the three entries outside the C09 claim -/
def respFixedLib (cmd : B) : Option Nat :=
  if cmd = 0x02#8 then some 4 else if cmd = 0x08#8 then some 4 else if cmd = 0x09#8 then some 1
  else respFixed cmd

/-- completion codes 1-5 -/
def ccOfByte (b : B) : CC :=
  if b = 0x01#8 then .error else if b = 0x02#8 then .errorInvalidData
  else if b = 0x03#8 then .errorInvalidLength else if b = 0x04#8 then .errorNotReady
  else if b = 0x05#8 then .errorUnsupportedCmd else .success

def refDecode (p : Bytes) : Out DErr Dec :=
  if p.length < 10 then .err (.invalid, .unknown)
  else if !hdrOk p then .err (.invalid, .unknown)
  else if !isControl p then
    if pecOk p then .ok (msgTypeOf p, 9, p.length - 10) else .err (msgTypeOf p, .ctl .pec)
  else if p.length < 12 then .err (.control, .ctl .len)
  else if isRequest p then
    if reqUnimpl (cmdOf p) then .panic ⟨.unimplemented, .traits⟩
    else if !pecOk p then .err (.control, .ctl .pec)
    else if !lenFits (reqFixed (cmdOf p)) (p.length - 12) then .err (.control, .ctl .len)
    else .ok (.control, 11, p.length - 12)
  else if p.length < 13 then .err (.control, .ctl .len)
  else if ccByte p ≠ 0x00#8 then
    if 6 ≤ (ccByte p).toNat then .panic ⟨.unreachable, .control⟩
    else .err (.control, .ctl (.cc (ccOfByte (ccByte p))))
  else if respUnimpl (cmdOf p) then .panic ⟨.unimplemented, .traits⟩
  else if !pecOk p then .err (.control, .ctl .pec)
  else if !lenFits (respFixedLib (cmdOf p)) (p.length - 13) then .err (.control, .ctl .len)
  else .ok (.control, 12, p.length - 13)

end Spec
end Mctp
