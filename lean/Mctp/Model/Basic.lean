/-
L1 model, common definitions: bytes, the three-way outcome of a Rust call
(value / error value / panic), and small list helpers that mirror Rust slice
operations.  Imports nothing outside core so that the driver links natively.
-/
namespace Mctp

abbrev B := BitVec 8
abbrev Bytes := List B

/-- What kind of Rust panic a model function stands for. -/
inductive PanicKind
  | indexOOB | sliceRange | unimplemented | unreachable | addOverflow | subOverflow
  | unwrapErr | copyLen | explicit
  deriving DecidableEq, Repr, Inhabited

/-- Source file of /repo/src in which the panicking construct lives. -/
inductive SrcFile
  | smbus | traits | control | proto | base | request | response | vendor
  deriving DecidableEq, Repr, Inhabited

structure Panic where
  kind : PanicKind
  file : SrcFile
  deriving DecidableEq, Repr, Inhabited

/-- Outcome of a modelled Rust call returning `Result<α, ε>`: `ok`, `err`, or a panic. -/
inductive Out (ε α : Type) where
  | ok (a : α)
  | err (e : ε)
  | panic (p : Panic)
  deriving DecidableEq, Repr

namespace Out

@[inline] def bind {ε α β : Type} (x : Out ε α) (f : α → Out ε β) : Out ε β :=
  match x with
  | .ok a => f a
  | .err e => .err e
  | .panic p => .panic p

@[inline] def map {ε α β : Type} (f : α → β) (x : Out ε α) : Out ε β :=
  match x with
  | .ok a => .ok (f a)
  | .err e => .err e
  | .panic p => .panic p

def isOk {ε α : Type} : Out ε α → Bool
  | .ok _ => true
  | _ => false

def isPanic {ε α : Type} : Out ε α → Bool
  | .panic _ => true
  | _ => false

@[simp] theorem bind_ok {ε α β : Type} (a : α) (f : α → Out ε β) : (Out.ok a).bind f = f a := rfl
@[simp] theorem bind_err {ε α β : Type} (e : ε) (f : α → Out ε β) :
    (Out.err e : Out ε α).bind f = .err e := rfl
@[simp] theorem bind_panic {ε α β : Type} (p : Panic) (f : α → Out ε β) :
    (Out.panic p : Out ε α).bind f = .panic p := rfl

theorem bind_eq_ok {ε α β : Type} {x : Out ε α} {f : α → Out ε β} {r : β} :
    x.bind f = .ok r ↔ ∃ a, x = .ok a ∧ f a = .ok r := by
  cases x <;> simp [bind]

theorem bind_eq_err {ε α β : Type} {x : Out ε α} {f : α → Out ε β} {e : ε} :
    x.bind f = .err e ↔ x = .err e ∨ ∃ a, x = .ok a ∧ f a = .err e := by
  cases x <;> simp [bind]

theorem bind_eq_panic {ε α β : Type} {x : Out ε α} {f : α → Out ε β} {p : Panic} :
    x.bind f = .panic p ↔ x = .panic p ∨ ∃ a, x = .ok a ∧ f a = .panic p := by
  cases x <;> simp [bind]

end Out

/-- Byte `i` of a slice, `0` when out of range (only used where the range was checked). -/
@[inline] def byteAt (p : Bytes) (i : Nat) : B := p.getD i 0

/-- `&p[a..b]` for `a ≤ b ≤ p.len()`. -/
@[inline] def slice (p : Bytes) (a b : Nat) : Bytes := (p.take b).drop a

/-- `buf[off..off+src.len()].copy_from_slice(src)` when it is in range. -/
def splice (buf : Bytes) (off : Nat) (src : Bytes) : Bytes :=
  buf.take off ++ src ++ buf.drop (off + src.length)

theorem forall_byte (P : B → Prop) (h : ∀ i : Fin 256, P (BitVec.ofFin i)) : ∀ b, P b := by
  intro b; exact h b.toFin

end Mctp
