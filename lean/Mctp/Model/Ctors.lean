/-
L1: the remaining public constructors of the header views (they are not used on the library's own
transmit path with these argument ranges, but are public API):

  MCTPControlMessageHeader::new(request, datagram, instance_id, command_code)   control_packet.rs:278-288
  MCTPTransportHeader::new(version)                                              base_packet.rs:72-79
  MCTPMessageBodyHeader::new(ic, msg_type)                                       base_packet.rs:119-131
  SMBusRoutingInformationUpdateEntry::new(entry_type, range_size, first_eid, physical_address)  smbus_proto.rs:148-163
  PCIMessageFormat::new(u16) / IANAMessageFormat::new(u32)                       vendor_packets.rs:31-70
-/
import Mctp.Model.Encode
namespace Mctp

def ctrlHeaderNew (rq d : Bool) (iid : B) (cmd : Cmd) : Bytes :=
  let h : Bytes := [0, 0]
  let h := CtrlHdr.rq.set h (if rq then 1 else 0)
  let h := CtrlHdr.d.set h (if d then 1 else 0)
  let h := CtrlHdr.instanceId.set h iid.toNat
  let h := CtrlHdr.commandCode.set h cmd.toByte.toNat
  h

def transportHeaderNew (version : B) : Bytes :=
  TransportHdr.hdrVersion.set [0, 0, 0, 0] version.toNat

/-- panics when `ic` is set ("Message Integrity bit is currently not supported") -/
def bodyHeaderNew (ic : Bool) (t : MsgType) : Out Unit Bytes :=
  if ic then .panic ⟨.explicit, .base⟩ else .ok (bodyHeader t)

def routingEntryNew (etype size first phys : B) : Bytes :=
  let h : Bytes := [0, 0, 0, 0]
  let h := RoutingEntry.entryType.set h etype.toNat
  let h := RoutingEntry.eidRangeSize.set h size.toNat
  let h := RoutingEntry.firstEid.set h first.toNat
  let h := RoutingEntry.physicalAddress.set h phys.toNat
  h

def pciFormatNew (v : BitVec 16) : Bytes := PciFmt.vendorId.set [0, 0] v.toNat
def ianaFormatNew (v : BitVec 32) : Bytes := IanaFmt.vendorId.set [0, 0, 0, 0] v.toNat

end Mctp
