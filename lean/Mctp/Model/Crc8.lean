/-
L0: `smbus_pec::pec` = `embedded_crc_macros::crc8!(fn pec, 7, 0)`:

    let mut crc = 0;
    for byte in data { crc ^= byte;
      for _ in 0..8 { crc = if (crc & (1 << 7)) != 0 { (crc << 1) ^ 7 } else { crc << 1 }; } }
    crc
-/
import Mctp.Model.Basic
namespace Mctp

def step (c : B) : B := if c.msb then (c <<< 1) ^^^ 7#8 else c <<< 1

def step8 (c : B) : B := step (step (step (step (step (step (step (step c)))))))

def byteStep (c b : B) : B := step8 (c ^^^ b)

def crcFrom (c : B) (xs : Bytes) : B := xs.foldl byteStep c

def crc8 (xs : Bytes) : B := crcFrom 0 xs

end Mctp
