/-
L1: the seven public header views declared with `bitfield!`, field by field, each
as the call of the generic slice accessor the macro expands to
(`bit_range(msb, lsb)` / `set_bit_range(msb, lsb, value)`), plus the two validators.

  MCTPSMBusHeader            (LSB0) smbus_proto.rs:16-32
  SMBusRoutingInformationUpdateEntry (LSB0) smbus_proto.rs:126-139
  MCTPTransportHeader        (MSB0) base_packet.rs:45-66
  MCTPMessageBodyHeader      (MSB0) base_packet.rs:100-109
  MCTPControlMessageHeader   (MSB0) control_packet.rs:7-21
  PCIMessageFormat           (MSB0, u16) vendor_packets.rs:17-23
  IANAMessageFormat          (MSB0, u32) vendor_packets.rs:49-55
-/
import Mctp.Model.Bitfield
import Mctp.Model.Enums
namespace Mctp

/-- A named field of a view: bit order, `msb`, `lsb` (as written in the `bitfield!` block)
and the width in bits of the Rust value type. -/
structure Field where
  msb0 : Bool
  msb : Nat
  lsb : Nat
  valBits : Nat
  deriving Repr, DecidableEq

def Field.get (f : Field) (buf : Bytes) : Nat :=
  if f.msb0 then getMsb0 buf f.msb f.lsb else getLsb0 buf f.msb f.lsb

/-- the setter receives a value of the Rust value type, i.e. already `< 2^valBits` -/
def Field.set (f : Field) (buf : Bytes) (v : Nat) : Bytes :=
  if f.msb0 then setMsb0 buf f.msb f.lsb (v % 2 ^ f.valBits) else setLsb0 buf f.msb f.lsb (v % 2 ^ f.valBits)

def Field.width (f : Field) : Nat := f.msb + 1 - f.lsb

/-- The accessors as the generated Rust code behaves on a backing buffer of ANY length: both loops
index `buf[i/8]` for every `i` in `lsb..=msb`, so they panic (index out of bounds, in the file that
declares the view) exactly when the field's highest byte is missing; the getter has no effect, the
MSB0 setter starts at the highest index and the LSB0 fields are all single-byte, so no byte is
written before the panic.  `Field.get` / `Field.set` are the total functions used wherever the
buffer is known to be long enough (every view the library builds itself). -/
def Field.getC (f : Field) (file : SrcFile) (buf : Bytes) : Out Unit Nat :=
  if f.msb / 8 < buf.length then .ok (f.get buf) else .panic ⟨.indexOOB, file⟩

def Field.setC (f : Field) (file : SrcFile) (buf : Bytes) (v : Nat) : Out Unit Bytes :=
  if f.msb / 8 < buf.length then .ok (f.set buf v) else .panic ⟨.indexOOB, file⟩

namespace SMBusHdr   -- LSB0, 4 bytes
def destReadWrite : Field := ⟨false, 0, 0, 8⟩
def destSlaveAddr : Field := ⟨false, 7, 1, 8⟩
def commandCode : Field := ⟨false, 15, 8, 8⟩
def byteCount : Field := ⟨false, 23, 16, 8⟩
def sourceReadWrite : Field := ⟨false, 24, 24, 8⟩
def sourceSlaveAddr : Field := ⟨false, 31, 25, 8⟩
end SMBusHdr

namespace RoutingEntry   -- LSB0, 4 bytes
def entryType : Field := ⟨false, 3, 0, 8⟩
def eidRangeSize : Field := ⟨false, 15, 8, 8⟩
def firstEid : Field := ⟨false, 23, 16, 8⟩
def physicalAddress : Field := ⟨false, 31, 24, 8⟩
end RoutingEntry

namespace TransportHdr   -- MSB0, 4 bytes
def rsvd : Field := ⟨true, 3, 0, 8⟩
def hdrVersion : Field := ⟨true, 7, 4, 8⟩
def destEndpointId : Field := ⟨true, 15, 8, 8⟩
def sourceEndpointId : Field := ⟨true, 23, 16, 8⟩
def som : Field := ⟨true, 24, 24, 8⟩
def eom : Field := ⟨true, 25, 25, 8⟩
def pktSeq : Field := ⟨true, 27, 26, 8⟩
def to : Field := ⟨true, 28, 28, 8⟩
def msgTag : Field := ⟨true, 31, 29, 8⟩
end TransportHdr

namespace BodyHdr   -- MSB0, 1 byte
def ic : Field := ⟨true, 0, 0, 8⟩
def msgType : Field := ⟨true, 7, 1, 8⟩
end BodyHdr

namespace CtrlHdr   -- MSB0, 2 bytes
def rq : Field := ⟨true, 0, 0, 8⟩
def d : Field := ⟨true, 1, 1, 8⟩
def rsvd : Field := ⟨true, 2, 2, 8⟩
def instanceId : Field := ⟨true, 7, 3, 8⟩
def commandCode : Field := ⟨true, 15, 8, 8⟩
end CtrlHdr

namespace PciFmt   -- MSB0, 2 bytes, u16
def vendorId : Field := ⟨true, 15, 0, 16⟩
end PciFmt

namespace IanaFmt   -- MSB0, 4 bytes, u32
def vendorId : Field := ⟨true, 31, 0, 32⟩
end IanaFmt

/-- `MCTPTransportHeader::new_from_buf(buf, version)` succeeds? (base_packet.rs:85-97) -/
def transportFromBufOk (buf : Bytes) (version : B) : Bool :=
  if TransportHdr.rsvd.get buf ≠ 0 then false
  else if TransportHdr.hdrVersion.get buf ≠ version.toNat then false
  else true

/-- `MCTPMessageBodyHeader::new_from_buf(buf)` succeeds? (base_packet.rs:136-149) -/
def bodyFromBufOk (buf : Bytes) : Bool :=
  if BodyHdr.ic.get buf ≠ 0 then false
  else if MsgType.ofByte (BitVec.ofNat 8 (BodyHdr.msgType.get buf)) = .invalid then false
  else true

end Mctp
