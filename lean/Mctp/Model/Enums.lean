/-
L1: the three `From<u8>` tables (base_packet.rs:32-43, control_packet.rs:85-112, 142-154)
and the numeric values of the enums (`as u8`).
-/
import Mctp.Model.Basic
namespace Mctp

inductive MsgType
  | control | spdm | secured | pci | iana | invalid
  deriving DecidableEq, Repr, Inhabited

def MsgType.ofByte (b : B) : MsgType :=
  if b = 0x00#8 then .control
  else if b = 0x05#8 then .spdm
  else if b = 0x06#8 then .secured
  else if b = 0x7E#8 then .pci
  else if b = 0x7F#8 then .iana
  else .invalid

def MsgType.toByte : MsgType → B
  | .control => 0x00#8 | .spdm => 0x05#8 | .secured => 0x06#8
  | .pci => 0x7E#8 | .iana => 0x7F#8 | .invalid => 0xFF#8

inductive Cmd
  | reserved | setEndpointID | getEndpointID | getEndpointUUID | getMCTPVersionSupport
  | getMessageTypeSupport | getVendorDefinedMessageSupport | resolveEndpointID
  | allocateEndpointIDs | routingInformationUpdate | getRoutingTableEntries
  | prepareForEndpointDiscovery | endpointDiscovery | discoveryNotify | getNetworkID
  | queryHop | resolveUUID | queryRateLimit | requestTXRateLimit | updateRateLimit
  | querySupportedInterfaces | unknown
  deriving DecidableEq, Repr, Inhabited

def Cmd.ofByte (b : B) : Cmd :=
  if b = 0x00#8 then .reserved
  else if b = 0x01#8 then .setEndpointID
  else if b = 0x02#8 then .getEndpointID
  else if b = 0x03#8 then .getEndpointUUID
  else if b = 0x04#8 then .getMCTPVersionSupport
  else if b = 0x05#8 then .getMessageTypeSupport
  else if b = 0x06#8 then .getVendorDefinedMessageSupport
  else if b = 0x07#8 then .resolveEndpointID
  else if b = 0x08#8 then .allocateEndpointIDs
  else if b = 0x09#8 then .routingInformationUpdate
  else if b = 0x0A#8 then .getRoutingTableEntries
  else if b = 0x0B#8 then .prepareForEndpointDiscovery
  else if b = 0x0C#8 then .endpointDiscovery
  else if b = 0x0D#8 then .discoveryNotify
  else if b = 0x0E#8 then .getNetworkID
  else if b = 0x0F#8 then .queryHop
  else if b = 0x10#8 then .resolveUUID
  else if b = 0x11#8 then .queryRateLimit
  else if b = 0x12#8 then .requestTXRateLimit
  else if b = 0x13#8 then .updateRateLimit
  else if b = 0x14#8 then .querySupportedInterfaces
  else .unknown

def Cmd.toByte : Cmd → B
  | .reserved => 0x00#8 | .setEndpointID => 0x01#8 | .getEndpointID => 0x02#8
  | .getEndpointUUID => 0x03#8 | .getMCTPVersionSupport => 0x04#8
  | .getMessageTypeSupport => 0x05#8 | .getVendorDefinedMessageSupport => 0x06#8
  | .resolveEndpointID => 0x07#8 | .allocateEndpointIDs => 0x08#8
  | .routingInformationUpdate => 0x09#8 | .getRoutingTableEntries => 0x0A#8
  | .prepareForEndpointDiscovery => 0x0B#8 | .endpointDiscovery => 0x0C#8
  | .discoveryNotify => 0x0D#8 | .getNetworkID => 0x0E#8 | .queryHop => 0x0F#8
  | .resolveUUID => 0x10#8 | .queryRateLimit => 0x11#8 | .requestTXRateLimit => 0x12#8
  | .updateRateLimit => 0x13#8 | .querySupportedInterfaces => 0x14#8 | .unknown => 0xFF#8

inductive CC
  | success | error | errorInvalidData | errorInvalidLength | errorNotReady | errorUnsupportedCmd
  deriving DecidableEq, Repr, Inhabited

/-- `CompletionCode::from(u8)`; the wildcard arm is `unreachable!()`. -/
def CC.ofByte (b : B) : Out Unit CC :=
  if b = 0x00#8 then .ok .success
  else if b = 0x01#8 then .ok .error
  else if b = 0x02#8 then .ok .errorInvalidData
  else if b = 0x03#8 then .ok .errorInvalidLength
  else if b = 0x04#8 then .ok .errorNotReady
  else if b = 0x05#8 then .ok .errorUnsupportedCmd
  else .panic ⟨.unreachable, .control⟩

def CC.toByte : CC → B
  | .success => 0x00#8 | .error => 0x01#8 | .errorInvalidData => 0x02#8
  | .errorInvalidLength => 0x03#8 | .errorNotReady => 0x04#8 | .errorUnsupportedCmd => 0x05#8

/- The `as u8` values of the field-less enums that encoder arguments are drawn from: only these can be
expressed through the API (the driver and the executor refuse anything else).  `Tie/Consts.lean` proves
each list equal to the discriminants of the Rust enum of /repo's working tree, in declaration order. -/
namespace ArgEnum
def setEidOp : List Nat := [0, 1, 2, 3]            -- MCTPSetEndpointIDOperations
def versionQuery : List Nat := [0xFF, 0, 1, 2, 3]  -- MCTPVersionQuery
def allocOp : List Nat := [0, 1, 2]                -- AllocateEndpointIDOperation
def msgType : List Nat := [0x00, 0x05, 0x06, 0x7E, 0x7F, 0xFF]   -- MessageType
def completionCode : List Nat := [0, 1, 2, 3, 4, 5]              -- CompletionCode
def assignStatus : List Nat := [0, 1]              -- MCTPSetEndpointIDAssignmentStatus (a flag in the op language)
def allocStatus : List Nat := [0, 1, 2]            -- MCTPSetEndpointIDAllocationStatus
def endpointType : List Nat := [0, 1]              -- MCTPGetEndpointIDEndpointType
def endpointIdType : List Nat := [0, 1, 2, 3]      -- MCTPGetEndpointIDEndpointIDType
def routingEntryType : List Nat := [0, 1, 2, 3]    -- RoutingInformationUpdateEntryType
end ArgEnum

end Mctp
