/-
L1: the receive path (smbus.rs, after the `fix:` commits).

  get_smbus_headers        smbus.rs:217-246
  decode_packet            smbus.rs:255-328
  get_length               smbus.rs:346-362
  get_mctp_control_packet  smbus.rs:365-452
  decode_mctp_control      smbus.rs:455-471
  get_request_data_len / get_response_data_len   mctp_traits.rs:33-88

A returned sub-slice `&packet[a..b]` is the pair (offset `a`, length `b - a`).
The decoder takes `&self` but reads nothing from it; the model therefore has no context argument
(C09's context independence is checked by the correspondence on differing contexts).
-/
import Mctp.Model.Crc8
import Mctp.Model.Views
namespace Mctp

inductive CtlErr
  | unknown | len | hdr | cc (c : CC) | pec
  deriving DecidableEq, Repr

inductive DecErr
  | unknown | ctl (e : CtlErr)
  deriving DecidableEq, Repr

abbrev DErr := MsgType × DecErr
/-- message type, payload offset into the packet, payload length -/
abbrev Dec := MsgType × Nat × Nat

/-- `get_smbus_headers` -/
def getHeaders (p : Bytes) : Out DErr Unit :=
  if p.length < 10 then .err (.invalid, .unknown)
  else if !transportFromBufOk (slice p 4 8) 1#8 then .err (.invalid, .unknown)
  else if !bodyFromBufOk [byteAt p 8] then .err (.invalid, .unknown)
  else .ok ()

/-- `body_header.msg_type().into()` -/
def bodyMsgType (p : Bytes) : MsgType :=
  MsgType.ofByte (BitVec.ofNat 8 (BodyHdr.msgType.get [byteAt p 8]))

/-- `get_request_data_len` -/
def reqDataLen (cmd : B) : Out DErr Nat :=
  match Cmd.ofByte cmd with
  | .reserved => .ok 0
  | .setEndpointID => .ok 2
  | .getEndpointID => .ok 0
  | .getEndpointUUID => .ok 0
  | .getMCTPVersionSupport => .ok 1
  | .getMessageTypeSupport => .ok 0
  | .getVendorDefinedMessageSupport => .ok 1
  | .resolveEndpointID => .ok 1
  | .allocateEndpointIDs => .ok 3
  | _ => .panic ⟨.unimplemented, .traits⟩

/-- `get_response_data_len` -/
def respDataLen (cmd : B) : Out DErr Nat :=
  match Cmd.ofByte cmd with
  | .reserved => .ok 0
  | .setEndpointID => .ok 3
  | .getEndpointID => .ok 4
  | .getEndpointUUID => .ok 16
  | .getMCTPVersionSupport => .ok 5
  | .getMessageTypeSupport => .ok 0
  | .getVendorDefinedMessageSupport => .ok 0
  | .allocateEndpointIDs => .ok 4
  | .routingInformationUpdate => .ok 1
  | _ => .panic ⟨.unimplemented, .traits⟩

/-- what `get_mctp_control_packet` returns: command byte, "no completion code was parsed"
(a request), payload offset inside the control slice and payload length -/
structure Ctrl where
  cmd : B
  isReq : Bool
  off : Nat
  dataLen : Nat
  deriving DecidableEq, Repr

/-- `CompletionCode::from(b)` lifted into the decoder's outcome type -/
def ccOf (b : B) : Out DErr CC :=
  match CC.ofByte b with
  | .ok c => .ok c
  | .err _ => .panic ⟨.unreachable, .control⟩
  | .panic p => .panic p

/-- the `match control_message_header.rq()` block: payload offset, request?, expected length -/
def ctrlSelect (cp : Bytes) : Out DErr (Nat × Bool × Nat) :=
  let h : Bytes := [byteAt cp 0, byteAt cp 1]
  let cmd : B := BitVec.ofNat 8 (CtrlHdr.commandCode.get h)
  let rq := CtrlHdr.rq.get h
  if rq = 1 then (reqDataLen cmd).map fun n => (2, true, n)
  else if rq = 0 then
    if cp.length < 4 then .err (.control, .ctl .len)
    else if byteAt cp 2 ≠ 0x00#8 then
      (ccOf (byteAt cp 2)).bind fun c => .err (.control, .ctl (.cc c))
    else (ccOf (byteAt cp 2)).bind fun _ => (respDataLen cmd).map fun n => (3, false, n)
  else .err (.control, .ctl .hdr)

/-- `get_mctp_control_packet` on the control slice `cp = &packet[9..]` -/
def getCtrl (cp : Bytes) (pec : B) : Out DErr Ctrl :=
  if cp.length < 3 then .err (.control, .ctl .len)
  else
    (ctrlSelect cp).bind fun (off, isReq, n) =>
      let payloadLen := cp.length - 1
      let dataLen := payloadLen - off
      if byteAt cp payloadLen ≠ pec then .err (.control, .ctl .pec)
      else if n > 0 ∧ dataLen ≠ n then .err (.control, .ctl .len)
      else .ok ⟨BitVec.ofNat 8 (CtrlHdr.commandCode.get [byteAt cp 0, byteAt cp 1]), isReq, off, dataLen⟩

/-- one of the four vendor/SPDM arms of `decode_packet` -/
def vendorArm (p : Bytes) (pec : B) (t : MsgType) : Out DErr Dec :=
  let n := p.length - 1
  if byteAt p n ≠ pec then .err (t, .ctl .pec) else .ok (t, 9, n - 9)

/-- `pec(&packet[0..packet.len()-1])` -/
def calcPec (p : Bytes) : B := crc8 (p.take (p.length - 1))

/-- `decode_packet` -/
def decode (p : Bytes) : Out DErr Dec :=
  (getHeaders p).bind fun _ =>
    let pec := calcPec p
    match bodyMsgType p with
    | .control => (getCtrl (p.drop 9) pec).bind fun c => .ok (.control, 9 + c.off, c.dataLen)
    | .pci => vendorArm p pec .pci
    | .iana => vendorArm p pec .iana
    | .spdm => vendorArm p pec .spdm
    | .secured => vendorArm p pec .secured
    | .invalid => .err (.invalid, .unknown)

/-- `get_length` -/
def getLength (p : Bytes) : Out DErr Nat :=
  if p.length < 3 then .err (.invalid, .unknown)
  else
    let h : Bytes := [byteAt p 0, byteAt p 1, byteAt p 2, 0]
    if SMBusHdr.commandCode.get h = 0x0F then .ok (SMBusHdr.byteCount.get h + 4)
    else .err (.invalid, .unknown)

end Mctp
