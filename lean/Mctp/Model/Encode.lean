/-
L1: the transmit path.

  generate_smbus_header / generate_transport_header / generate_*_packet_bytes   mctp_traits.rs:105-230
  MCTPMessageBodyHeader::new, MCTPMessageBody::{len,to_raw_bytes}                base_packet.rs:119-224
  MCTPControlMessageHeader::new                                                  control_packet.rs:278-288
  MCTPSMBusPacket::{new,finalise,len,to_raw_bytes}                               smbus_proto.rs:68-128
  PCIMessageFormat::new / IANAMessageFormat::new                                 vendor_packets.rs:31-70
  the 20 request encoders + vendor_defined                                       smbus_request.rs:61-521
  the 6 response encoders                                                        smbus_response.rs:62-299

`&mut [u8]` parameters become "old buffer in, new buffer out".
-/
import Mctp.Model.Crc8
import Mctp.Model.Views
namespace Mctp

structure VendorId where
  format : B
  data : BitVec 32
  numeric : BitVec 16
  deriving DecidableEq, Repr, Inhabited

/-- `MCTPSMBusContext`: the two halves' `eid` cells, the immutable configuration, the UUID and
the scratch selector cell. Both halves hold the same immutable `address`. -/
structure Ctx where
  address : B
  reqEid : B
  respEid : B
  uuid : Bytes
  msgTypes : Bytes
  selector : B
  vendorIds : List VendorId
  deriving DecidableEq, Repr, Inhabited

/-- `MCTPSMBusContext::new` -/
def Ctx.new (address : B) (msgTypes : Bytes) (vendorIds : List VendorId) : Ctx :=
  { address, reqEid := 0, respEid := 0, uuid := List.replicate 16 0, msgTypes, selector := 0, vendorIds }

/-- `generate_smbus_header(dest_addr)` (byte count still 0) -/
def smbusHeader (addr dst : B) : Bytes :=
  let h : Bytes := [0, 0, 0, 0]
  let h := SMBusHdr.destReadWrite.set h 0
  let h := SMBusHdr.destSlaveAddr.set h dst.toNat
  let h := SMBusHdr.commandCode.set h 0x0F
  let h := SMBusHdr.sourceSlaveAddr.set h addr.toNat
  let h := SMBusHdr.sourceReadWrite.set h 1
  h

/-- `generate_transport_header(dest_addr)` -/
def transportHeader (addr dst : B) : Bytes :=
  let h : Bytes := [0, 0, 0, 0]
  let h := TransportHdr.hdrVersion.set h 1
  let h := TransportHdr.destEndpointId.set h dst.toNat
  let h := TransportHdr.sourceEndpointId.set h addr.toNat
  let h := TransportHdr.som.set h 1
  let h := TransportHdr.eom.set h 1
  let h := TransportHdr.pktSeq.set h 0
  let h := TransportHdr.to.set h 1
  let h := TransportHdr.msgTag.set h 0
  h

/-- `MCTPMessageBodyHeader::new(false, msg_type)` -/
def bodyHeader (t : MsgType) : Bytes :=
  let h : Bytes := [0]
  let h := BodyHdr.ic.set h 0
  let h := BodyHdr.msgType.set h t.toByte.toNat
  h

/-- `MCTPControlMessageHeader::new(request, false, 0, command_code)` -/
def ctrlHeader (rq : Bool) (cmd : Cmd) : Bytes :=
  let h : Bytes := [0, 0]
  let h := CtrlHdr.rq.set h (if rq then 1 else 0)
  let h := CtrlHdr.d.set h 0
  let h := CtrlHdr.instanceId.set h 0
  let h := CtrlHdr.commandCode.set h cmd.toByte.toNat
  h

/-- `PCIMessageFormat::new(format.data as u16)` -/
def pciHeader (data : BitVec 32) : Bytes := PciFmt.vendorId.set [0, 0] (data.toNat % 65536)
/-- `IANAMessageFormat::new(format.data)` -/
def ianaHeader (data : BitVec 32) : Bytes := IanaFmt.vendorId.set [0, 0, 0, 0] data.toNat

/-- `buf[off..off+src.len()].copy_from_slice(src)` -/
def writeAt (buf : Bytes) (off : Nat) (src : Bytes) (file : SrcFile) : Out Unit Bytes :=
  if off + src.length ≤ buf.length then .ok (splice buf off src) else .panic ⟨.sliceRange, file⟩

def optLen (h : Option Bytes) : Nat := match h with | some x => x.length | none => 0
def optBytes (h : Option Bytes) : Bytes := match h with | some x => x | none => []

/-- `MCTPSMBusPacket::to_raw_bytes` including `MCTPMessageBody::to_raw_bytes` -/
def packetToRaw (sm tr bh : Bytes) (hdr : Option Bytes) (data : Bytes) (buf : Bytes) :
    Out Unit (Bytes × Nat) :=
  (writeAt buf 0 sm .proto).bind fun b1 =>
  (writeAt b1 4 tr .proto).bind fun b2 =>
  (writeAt b2 8 bh .base).bind fun b3 =>
  (writeAt b3 9 (optBytes hdr) .base).bind fun b4 =>
  (writeAt b4 (9 + optLen hdr) data .base).bind fun b5 =>
  let size := 9 + optLen hdr + data.length
  if size < b5.length then .ok (b5.set size (crc8 (b5.take size)), size + 1)
  else .panic ⟨.indexOOB, .proto⟩

/-- the largest body for which the byte count fits in one byte (`MCTP_SMBUS_MAX_BODY_LEN`) -/
def maxBodyLen : Nat := 250

/-- the SMBus header after `MCTPSMBusPacket::new` → `finalise` -/
def smbusHeaderFinal (addr dst : B) (total : Nat) : Bytes :=
  SMBusHdr.byteCount.set (smbusHeader addr dst) ((total - 4) % 256)

/-- the four `generate_*_packet_bytes` (they differ only in the message type) -/
def genPacket (addr dst : B) (t : MsgType) (hdr : Option Bytes) (data : Bytes) (buf : Bytes) :
    Out Unit (Bytes × Nat) :=
  let bodyLen := 1 + optLen hdr + data.length
  if bodyLen > maxBodyLen then .err ()
  else
    let total := 4 + 4 + bodyLen + 1
    packetToRaw (smbusHeaderFinal addr dst total) (transportHeader addr dst) (bodyHeader t) hdr data buf

/-- the bytes of the packet, independent of any buffer -/
def packetBytes (addr dst : B) (t : MsgType) (hdr : Option Bytes) (data : Bytes) : Bytes :=
  let total := 4 + 4 + (1 + optLen hdr + data.length) + 1
  let pre := smbusHeaderFinal addr dst total ++ transportHeader addr dst ++ bodyHeader t ++ optBytes hdr ++ data
  pre ++ [crc8 pre]

/-- One call of a public encoder, with its arguments (enum arguments as their `as u8` value). -/
inductive Enc
  | reqSetEid (op eid : B)
  | reqGetEid | reqGetUuid
  | reqVersion (query : B)
  | reqMsgTypes
  | reqVendor (sel : B)
  | reqResolveEid (eid : B)
  | reqAllocate (op pool first : B)
  | reqRouting (entries : Bytes)       -- the entries' raw bytes, 4 per entry
  | reqGetRouting (handle : B)
  | reqPrepare | reqDiscovery | reqNotify | reqNetworkId
  | reqQueryHop (eid t : B)
  | reqResolveUuid (uuid : Bytes) (handle : B)
  | reqQueryRate
  | reqTxRate | reqUpdateRate | reqQueryIfaces   -- end in `unimplemented!()`
  | vendorDefined (v : VendorId) (msg : Bytes)
  | respSetEid (cc : B) (rejected : Bool) (alloc : B)
  | respGetEid (cc etype idtype : B) (fair : Bool)
  | respUuid (cc : B) (uuid : Bytes)
  | respVersion (cc : B)
  | respMsgTypes (cc : B) (types : Bytes)
  | respVendor (cc sel : B) (vid : Bytes)
  | genControl (hdr : Option Bytes) (data : Bytes)
  | genPci (hdr : Option Bytes) (data : Bytes)
  | genIana (hdr : Option Bytes) (data : Bytes)
  | genSpdm (t : MsgType) (hdr : Option Bytes) (data : Bytes)
  deriving DecidableEq, Repr, Inhabited

/-- message type, additional header and data the encoder hands to `generate_*_packet_bytes`,
or the error / panic it raises before doing so -/
def Enc.body (c : Ctx) : Enc → Out Unit (MsgType × Option Bytes × Bytes)
  | .reqSetEid op eid =>
      if eid = 0xFF#8 ∨ eid = 0x00#8 then .err ()
      else .ok (.control, some (ctrlHeader true .setEndpointID), [op, eid])
  | .reqGetEid => .ok (.control, some (ctrlHeader true .getEndpointID), [])
  | .reqGetUuid => .ok (.control, some (ctrlHeader true .getEndpointUUID), [])
  | .reqVersion q => .ok (.control, some (ctrlHeader true .getMCTPVersionSupport), [q])
  | .reqMsgTypes => .ok (.control, some (ctrlHeader true .getMessageTypeSupport), [])
  | .reqVendor sel => .ok (.control, some (ctrlHeader true .getVendorDefinedMessageSupport), [sel])
  | .reqResolveEid e => .ok (.control, some (ctrlHeader true .resolveEndpointID), [e])
  | .reqAllocate op n f => .ok (.control, some (ctrlHeader true .allocateEndpointIDs), [op, n, f])
  | .reqRouting es =>
      let n := es.length / 4
      if n * 4 > 31 then .err ()
      else .ok (.control, some (ctrlHeader true .routingInformationUpdate),
                BitVec.ofNat 8 n :: es.take (4 * n))
  | .reqGetRouting h => .ok (.control, some (ctrlHeader true .getRoutingTableEntries), [h])
  | .reqPrepare => .ok (.control, some (ctrlHeader true .prepareForEndpointDiscovery), [])
  | .reqDiscovery => .ok (.control, some (ctrlHeader true .endpointDiscovery), [])
  | .reqNotify => .ok (.control, some (ctrlHeader true .discoveryNotify), [])
  | .reqNetworkId => .ok (.control, some (ctrlHeader true .getNetworkID), [])
  | .reqQueryHop e t => .ok (.control, some (ctrlHeader true .getNetworkID), [e, t])   -- sic: smbus_request.rs:380
  | .reqResolveUuid u h => .ok (.control, some (ctrlHeader true .resolveUUID), u ++ [h])
  | .reqQueryRate => .ok (.control, some (ctrlHeader true .queryRateLimit), [])
  | .reqTxRate => .ok (.control, some (ctrlHeader true .requestTXRateLimit), [])
  | .reqUpdateRate => .ok (.control, some (ctrlHeader true .requestTXRateLimit), [])
  | .reqQueryIfaces => .ok (.control, some (ctrlHeader true .requestTXRateLimit), [])
  | .vendorDefined v msg =>
      if v.format = 0#8 then .ok (.pci, some (pciHeader v.data), msg)
      else if v.format = 1#8 then .ok (.iana, some (ianaHeader v.data), msg)
      else .err ()
  | .respSetEid cc rej alloc =>
      .ok (.control, some (ctrlHeader false .setEndpointID),
           [cc, if rej then alloc ||| (1#8 <<< 4) else alloc, c.respEid, 0x00#8])
  | .respGetEid cc et it fair =>
      .ok (.control, some (ctrlHeader false .getEndpointID),
           [cc, c.respEid, (et <<< 4) ||| it, if fair then 1#8 else 0#8])
  | .respUuid cc u => .ok (.control, some (ctrlHeader false .getEndpointUUID), cc :: u)
  | .respVersion cc =>
      .ok (.control, some (ctrlHeader false .getMCTPVersionSupport), [cc, 1#8, 0xF1#8, 0xF3#8, 0xF1#8, 0x00#8])
  | .respMsgTypes cc ts =>
      if ts.length > 30 then .err ()
      else .ok (.control, some (ctrlHeader false .getMessageTypeSupport), cc :: BitVec.ofNat 8 ts.length :: ts)
  | .respVendor cc sel vid =>
      if vid.length > 7 then .panic ⟨.indexOOB, .response⟩
      else .ok (.control, some (ctrlHeader false .getVendorDefinedMessageSupport), cc :: sel :: vid)
  | .genControl h d => .ok (.control, h, d)
  | .genPci h d => .ok (.pci, h, d)
  | .genIana h d => .ok (.iana, h, d)
  | .genSpdm t h d => .ok (t, h, d)

/-- the three encoders that write a packet and then hit `unimplemented!()` -/
def Enc.isStub : Enc → Bool
  | .reqTxRate | .reqUpdateRate | .reqQueryIfaces => true
  | _ => false

/-- an encoder call on a caller buffer: new buffer contents and reported length -/
def encode (c : Ctx) (dst : B) (e : Enc) (buf : Bytes) : Out Unit (Bytes × Nat) :=
  (e.body c).bind fun (t, h, d) =>
    if e.isStub then
      match genPacket c.address dst t h d buf with
      | .panic p => .panic p
      | _ => .panic ⟨.unimplemented, .request⟩
    else genPacket c.address dst t h d buf

/-- the packet an encoder call produces, independent of the buffer (`none`-like outcomes kept) -/
def encodeBytes (c : Ctx) (dst : B) (e : Enc) : Out Unit Bytes :=
  (e.body c).bind fun (t, h, d) =>
    if e.isStub then .panic ⟨.unimplemented, .request⟩
    else if 1 + optLen h + d.length > maxBodyLen then .err ()
    else .ok (packetBytes c.address dst t h d)

end Mctp
