/-
L1: `process_packet` (smbus.rs:485-690) and the operations on a context as a state machine.
-/
import Mctp.Model.Encode
import Mctp.Model.Decode
namespace Mctp

abbrev ProcRes := Out DErr (Dec × Option Nat)

/-- a response encoder called as `.unwrap()` from `process_packet` -/
def respond (c : Ctx) (dst : B) (e : Enc) (buf : Bytes) : Ctx × Out DErr Nat × Bytes :=
  match encode c dst e buf with
  | .ok (buf', n) => (c, .ok n, buf')
  | .err _ => (c, .panic ⟨.unwrapErr, .smbus⟩, buf)
  | .panic p => (c, .panic p, buf)

/-- the `vendor_data` array handed to the response encoder -/
def vendorField (v : VendorId) : Option Bytes :=
  if v.format = 0#8 then
    some [v.format, (v.data >>> 8).setWidth 8, v.data.setWidth 8, (v.numeric >>> 8).setWidth 8, v.numeric.setWidth 8]
  else if v.format = 1#8 then
    some [v.format, (v.data >>> 24).setWidth 8, (v.data >>> 16).setWidth 8, (v.data >>> 8).setWidth 8,
          v.data.setWidth 8, (v.numeric >>> 8).setWidth 8, v.numeric.setWidth 8]
  else none

/-- the `match header.command_code().into()` of `process_packet`, for a request;
`src` is the request's source endpoint id, `pay i` is `payload[i]` -/
def dispatch (c : Ctx) (cmd : B) (src : B) (pay : Nat → B) (buf : Bytes) : Ctx × Out DErr Nat × Bytes :=
  match Cmd.ofByte cmd with
  | .reserved => (c, .panic ⟨.unreachable, .smbus⟩, buf)
  | .setEndpointID =>
      if pay 0 = 0#8 ∨ pay 0 = 1#8 then
        let c' := { c with respEid := pay 1, reqEid := pay 1 }
        respond c' src (.respSetEid 0#8 false 0#8) buf
      else if pay 0 = 2#8 then (c, .panic ⟨.unimplemented, .smbus⟩, buf)
      else if pay 0 = 3#8 then respond c src (.respSetEid 2#8 false 0#8) buf
      else (c, .panic ⟨.unreachable, .smbus⟩, buf)
  | .getEndpointID => respond c src (.respGetEid 0#8 0#8 0#8 false) buf
  | .getEndpointUUID => respond c src (.respUuid 0#8 c.uuid) buf
  | .getMCTPVersionSupport => respond c src (.respVersion 0#8) buf
  | .getMessageTypeSupport => respond c src (.respMsgTypes 0#8 c.msgTypes) buf
  | .getVendorDefinedMessageSupport =>
      if pay 0 = 0xFF#8 then (c, .panic ⟨.addOverflow, .smbus⟩, buf)
      else
        let next : B := if (pay 0) + 1#8 = BitVec.ofNat 8 c.vendorIds.length then 0xFF#8 else (pay 0) + 1#8
        let c' := { c with selector := next }
        match c.vendorIds[(pay 0).toNat]? with
        | none => (c', .panic ⟨.indexOOB, .smbus⟩, buf)
        | some v =>
          match vendorField v with
          | some f => respond c' src (.respVendor 0#8 c'.selector f) buf
          | none => (c', .panic ⟨.unreachable, .smbus⟩, buf)
  | _ => (c, .panic ⟨.unimplemented, .smbus⟩, buf)

/-- `process_packet` -/
def process (c : Ctx) (p buf : Bytes) : Ctx × ProcRes × Bytes :=
  match decode p with
  | .err e => (c, .err e, buf)
  | .panic k => (c, .panic k, buf)
  | .ok (t, off, len) =>
    match t with
    | .control =>
      match getHeaders p with
      | .err e => (c, .err e, buf)
      | .panic k => (c, .panic k, buf)
      | .ok _ =>
        match getCtrl (p.drop 9) (calcPec p) with
        | .err e => (c, .err e, buf)
        | .panic k => (c, .panic k, buf)
        | .ok ctl =>
          -- `MCTPSMBusPacket::new` over the incoming packet: `(len() - 4) as u8`, no effect
          if ctl.isReq then
            let src : B := BitVec.ofNat 8 (TransportHdr.sourceEndpointId.get (slice p 4 8))
            match dispatch c ctl.cmd src (fun i => byteAt p (off + i)) buf with
            | (c', .ok n, buf') => (c', .ok ((t, off, len), some n), buf')
            | (c', .err e, buf') => (c', .err e, buf')
            | (c', .panic k, buf') => (c', .panic k, buf')
          else (c, .ok ((t, off, len), none), buf)
    | .pci | .iana | .spdm | .secured => (c, .ok ((t, off, len), none), buf)
    | .invalid => (c, .err (.invalid, .unknown), buf)

/-- operations on a context -/
inductive Op
  | process (p buf : Bytes)
  | decode (p : Bytes)
  | getLength (p : Bytes)
  | setEidReq (e : B)
  | setEidResp (e : B)
  | setUuid (u : Bytes)
  | encode (dst : B) (e : Enc) (buf : Bytes)
  deriving DecidableEq, Repr

/-- what an operation lets the caller observe -/
inductive Obs
  | processed (r : ProcRes) (buf : Bytes)
  | decoded (r : Out DErr Dec)
  | length (r : Out DErr Nat)
  | unit
  | panicked (k : Panic)
  | encoded (r : Out Unit (Bytes × Nat))
  deriving DecidableEq, Repr

def stepOp (c : Ctx) : Op → Ctx × Obs
  | .process p buf => let (c', r, b) := process c p buf; (c', .processed r b)
  | .decode p => (c, .decoded (decode p))
  | .getLength p => (c, .length (getLength p))
  | .setEidReq e => ({ c with reqEid := e }, .unit)
  | .setEidResp e => ({ c with respEid := e }, .unit)
  | .setUuid u => if u.length = 16 then ({ c with uuid := u }, .unit) else (c, .panicked ⟨.copyLen, .smbus⟩)
  | .encode dst e buf => (c, .encoded (encode c dst e buf))

def runOps (c : Ctx) : List Op → Ctx × List Obs
  | [] => (c, [])
  | op :: ops =>
    let (c', o) := stepOp c op
    let (c'', os) := runOps c' ops
    (c'', o :: os)

end Mctp
