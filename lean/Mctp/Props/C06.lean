/-
C06 — control request bodies follow the DSP0236 command layouts (partial: finding D5, query_hop).
-/
import Mctp.Lemmas.EncodeApi
import Mctp.Spec.Api
namespace Mctp
namespace C06

/-- every request encoder except `query_hop`: the bytes between the message-type byte and
the PEC are exactly the DSP0236 layout -/
theorem body_partial (c : Ctx) (dst : B) (e : Enc) (buf buf' body : Bytes) (n : Nat)
    (hq : ∀ a t, e ≠ .reqQueryHop a t) (ha : Spec.argsOk e = true)
    (hb : Spec.reqBody e = some body)
    (h : encode c dst e buf = .ok (buf', n)) :
    Spec.sub (buf'.take n) 9 (n - 1) = body := by
  obtain ⟨t, hd, d, hbd, hs⟩ := encode_ok_sub9 h
  rw [hs, reqBody_body hq ha hb hbd]

/-- finding D5: `query_hop` carries command code 0x0E (Get Network ID) instead of 0x0F;
everything else of its body is as specified -/
theorem query_hop_code (c : Ctx) (dst a t : B) (buf buf' : Bytes) (n : Nat)
    (h : encode c dst (.reqQueryHop a t) buf = .ok (buf', n)) :
    Spec.sub (buf'.take n) 9 (n - 1) = [0x80#8, 0x0E#8, a, t] := by
  obtain ⟨t', hd, d, hbd, hs⟩ := encode_ok_sub9 h
  enc_body_inv hbd
  rw [hs, ctrlHeader_eq]
  rfl

/-- the full statement fails exactly there -/
theorem query_hop_violates (c : Ctx) (dst a t : B) (buf buf' : Bytes) (n : Nat)
    (h : encode c dst (.reqQueryHop a t) buf = .ok (buf', n)) :
    some (Spec.sub (buf'.take n) 9 (n - 1)) ≠ Spec.reqBody (.reqQueryHop a t) := by
  rw [query_hop_code c dst a t buf buf' n h]
  have h2 : Spec.reqBody (.reqQueryHop a t) = some [0x80#8, 0x0F#8, a, t] := rfl
  rw [h2]
  simp

end C06
end Mctp
