/-
Refinement of the whole transmit path: the model's pure encoder equals the reference encoder for
EVERY call (so C03-C08 and the refusal clauses of C16 are corollaries), and an encoder call on a caller
buffer is the reference packet spliced over the front of the buffer.
-/
import Mctp.Props.C16
import Mctp.Lemmas.Decode
import Mctp.Spec.RefEncode
import Mctp.Lemmas.RefineEnc
namespace Mctp
namespace RefineEnc

theorem encodeBytes_eq_ref (c : Ctx) (dst : B) (e : Enc) :
    encodeBytes c dst e = Spec.refEncode c.address c.respEid dst e := by
  cases e
  case reqTxRate => rfl
  case reqUpdateRate => rfl
  case reqQueryIfaces => rfl
  all_goals try (
    apply via_body
    case hb => rfl
    case hs => rfl
    case hm => first | (rw [ctrlHeader_eq]; rfl) | rfl
    case href => rfl
    done)
  case reqSetEid op eid =>
    by_cases hd : Spec.documentedInvalid (.reqSetEid op eid) = true
    · exact via_err hd
    · have h' : ¬ (eid = 0xFF#8 ∨ eid = 0x00#8) := by simpa [Spec.documentedInvalid, or_comm] using hd
      apply via_body
      case hb => exact if_neg h'
      case hs => rfl
      case hm => rw [ctrlHeader_eq]; rfl
      case href => unfold Spec.refEncode; rw [if_neg hd]; rfl
  case reqRouting es =>
    by_cases hd : Spec.documentedInvalid (.reqRouting es) = true
    · exact via_err hd
    · have h' : ¬ (es.length / 4 * 4 > 31) := by
        simp only [Spec.documentedInvalid, decide_eq_true_eq] at hd; omega
      apply via_body
      case hb => exact if_neg h'
      case hs => rfl
      case hm => rw [ctrlHeader_eq]; rfl
      case href => unfold Spec.refEncode; rw [if_neg hd]; rfl
  case respMsgTypes cc ts =>
    by_cases hd : Spec.documentedInvalid (.respMsgTypes cc ts) = true
    · exact via_err hd
    · have h' : ¬ (ts.length > 30) := by
        simp only [Spec.documentedInvalid, decide_eq_true_eq] at hd; omega
      apply via_body
      case hb => exact if_neg h'
      case hs => rfl
      case hm => rw [ctrlHeader_eq]; rfl
      case href => unfold Spec.refEncode; rw [if_neg hd]; rfl
  case respSetEid cc rej alloc =>
    apply via_body
    case hb => rfl
    case hs => rfl
    case hm =>
      rw [ctrlHeader_eq]
      have e0 : ∀ a : B, a = ((0#8 <<< 4) ||| a) := by intro a; simp
      cases rej
      · exact congrArg (fun x => [0x00#8, 0x00#8, 0x01#8, cc, x, c.respEid, 0x00#8]) (e0 alloc)
      · exact congrArg (fun x => [0x00#8, 0x00#8, 0x01#8, cc, x, c.respEid, 0x00#8]) (BitVec.or_comm _ _)
    case href => rfl
  case respVendor cc sel vid =>
    by_cases hv : vid.length > 7
    · unfold encodeBytes Spec.refEncode
      simp only [Enc.body, Spec.documentedInvalid]
      rw [if_pos hv, if_pos hv]
      rfl
    · rw [encodeBytes_of_body (Spec.libMessage c.respEid (.respVendor cc sel vid))
        (show Enc.body c (.respVendor cc sel vid) = _ from if_neg hv) rfl (by rw [ctrlHeader_eq]; rfl)]
      have hm : Spec.libMessage c.respEid (.respVendor cc sel vid) =
          0x00#8 :: 0x00#8 :: 0x06#8 :: cc :: sel :: vid := rfl
      have hl : ¬ 250 < (Spec.libMessage c.respEid (.respVendor cc sel vid)).length := by
        rw [hm]; simp only [List.length_cons]; omega
      unfold Spec.refEncode
      simp only [Spec.documentedInvalid]
      rw [if_neg hl, if_neg hv]
      rfl
  case vendorDefined v msg =>
    by_cases hd : Spec.documentedInvalid (.vendorDefined v msg) = true
    · exact via_err hd
    · by_cases h0 : v.format = 0#8
      · apply via_body
        case hb => exact if_pos h0
        case hs => rfl
        case hm =>
          have hm : Spec.libMessage c.respEid (.vendorDefined v msg) =
              (Spec.vendorFrame (.vendorDefined v msg)).getD [] := rfl
          rw [hm, pciHeader_eq]; simp only [Spec.vendorFrame]; rw [if_pos h0]; rfl
        case href => unfold Spec.refEncode; rw [if_neg hd]; rfl
      · have h1 : v.format = 1#8 := by
          simp [Spec.documentedInvalid, h0] at hd; exact hd
        apply via_body
        case hb => simp only [Enc.body]; rw [if_neg h0, if_pos h1]
        case hs => rfl
        case hm =>
          have hm : Spec.libMessage c.respEid (.vendorDefined v msg) =
              (Spec.vendorFrame (.vendorDefined v msg)).getD [] := rfl
          rw [hm, ianaHeader_eq]; simp only [Spec.vendorFrame]; rw [if_neg h0, if_pos h1]; rfl
        case href => unfold Spec.refEncode; rw [if_neg hd]; rfl

/-- on a buffer at least as long as the packet, the call writes exactly the reference packet -/
theorem encode_eq_ref (c : Ctx) (dst : B) (e : Enc) (buf pkt : Bytes)
    (h : Spec.refEncode c.address c.respEid dst e = .ok pkt) (hl : pkt.length ≤ buf.length) :
    encode c dst e buf = .ok (pkt ++ buf.drop pkt.length, pkt.length) :=
  C16.refine c dst e buf pkt (by rw [encodeBytes_eq_ref]; exact h) hl

/-- refusals do not depend on the buffer -/
theorem encode_err_iff_ref (c : Ctx) (dst : B) (e : Enc) (buf : Bytes) :
    encode c dst e buf = .err () ↔ Spec.refEncode c.address c.respEid dst e = .err () := by
  rw [C16.err_iff, encodeBytes_eq_ref]

end RefineEnc
end Mctp
