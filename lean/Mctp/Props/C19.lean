/-
C19 — wire code points map to the right enumeration values.
The quantifier is the finite table of 256 byte values, enumerated completely in the kernel.
-/
import Mctp.Model.Enums
namespace Mctp
namespace C19

/-- DSP0236 table 12 (command codes) as a literal list -/
def cmdTable : List (B × Cmd) :=
  [(0x00#8, .reserved), (0x01#8, .setEndpointID), (0x02#8, .getEndpointID), (0x03#8, .getEndpointUUID),
   (0x04#8, .getMCTPVersionSupport), (0x05#8, .getMessageTypeSupport),
   (0x06#8, .getVendorDefinedMessageSupport), (0x07#8, .resolveEndpointID), (0x08#8, .allocateEndpointIDs),
   (0x09#8, .routingInformationUpdate), (0x0A#8, .getRoutingTableEntries),
   (0x0B#8, .prepareForEndpointDiscovery), (0x0C#8, .endpointDiscovery), (0x0D#8, .discoveryNotify),
   (0x0E#8, .getNetworkID), (0x0F#8, .queryHop), (0x10#8, .resolveUUID), (0x11#8, .queryRateLimit),
   (0x12#8, .requestTXRateLimit), (0x13#8, .updateRateLimit), (0x14#8, .querySupportedInterfaces)]

/-- DSP0239 message type codes the library supports -/
def msgTable : List (B × MsgType) :=
  [(0x00#8, .control), (0x05#8, .spdm), (0x06#8, .secured), (0x7E#8, .pci), (0x7F#8, .iana)]

/-- DSP0236 table 13 (completion codes) -/
def ccTable : List (B × CC) :=
  [(0x00#8, .success), (0x01#8, .error), (0x02#8, .errorInvalidData), (0x03#8, .errorInvalidLength),
   (0x04#8, .errorNotReady), (0x05#8, .errorUnsupportedCmd)]

theorem cmd_table : ∀ b : B, Cmd.ofByte b = ((cmdTable.lookup b).getD .unknown) := by
  apply forall_byte; decide +kernel

theorem cmd_value : ∀ b : B, Cmd.ofByte b ≠ .unknown → (Cmd.ofByte b).toByte = b := by
  apply forall_byte; decide +kernel

theorem cmd_inverts : ∀ v : Cmd, v ≠ .unknown → Cmd.ofByte v.toByte = v := by
  intro v; cases v <;> decide

theorem cmd_unknown_iff : ∀ b : B, Cmd.ofByte b = .unknown ↔ ∀ v : Cmd, v ≠ .unknown → v.toByte ≠ b := by
  intro b
  constructor
  · intro h v hv hb
    subst hb
    rw [cmd_inverts v hv] at h
    exact hv h
  · intro h
    apply Classical.byContradiction
    intro hne
    exact h _ hne (cmd_value b hne)

theorem msg_table : ∀ b : B, MsgType.ofByte b = ((msgTable.lookup b).getD .invalid) := by
  apply forall_byte; decide +kernel

theorem msg_value : ∀ b : B, MsgType.ofByte b ≠ .invalid → (MsgType.ofByte b).toByte = b := by
  apply forall_byte; decide +kernel

theorem msg_inverts : ∀ v : MsgType, v ≠ .invalid → MsgType.ofByte v.toByte = v := by
  intro v; cases v <;> decide

theorem msg_invalid_iff : ∀ b : B, MsgType.ofByte b = .invalid ↔ ∀ v : MsgType, v ≠ .invalid → v.toByte ≠ b := by
  intro b
  constructor
  · intro h v hv hb
    subst hb
    rw [msg_inverts v hv] at h
    exact hv h
  · intro h
    apply Classical.byContradiction
    intro hne
    exact h _ hne (msg_value b hne)

theorem cc_table : ∀ b : B, b.toNat ≤ 5 → CC.ofByte b = .ok ((ccTable.lookup b).getD .success) := by
  apply forall_byte; decide +kernel

theorem cc_inverts : ∀ v : CC, CC.ofByte v.toByte = .ok v := by
  intro v; cases v <;> decide

theorem cc_value : ∀ b : B, ∀ v, CC.ofByte b = .ok v → v.toByte = b := by
  intro b v; revert b; cases v <;> (apply forall_byte; decide +kernel)

/-- finding D10: completion codes above 5 reach `unreachable!()` -/
theorem cc_above_five_panics : ∀ b : B, 6 ≤ b.toNat → CC.ofByte b = .panic ⟨.unreachable, .control⟩ := by
  apply forall_byte; decide +kernel

-- non-vacuity: the tables really are hit
example : Cmd.ofByte 0x0F#8 = .queryHop ∧ Cmd.ofByte 0x15#8 = .unknown ∧ MsgType.ofByte 0x7E#8 = .pci := by decide

end C19
end Mctp
