/-
C19 — wire code points map to the right enumeration values.
The quantifier is the finite table of 256 byte values, enumerated completely in the kernel.
-/
import Mctp.Model.Enums
import Mctp.Spec.Layout
namespace Mctp
namespace C19

theorem cmd_table : ∀ b : B, Cmd.ofByte b = ((cmdTable.lookup b).getD .unknown) := by
  apply forall_byte; decide +kernel

theorem cmd_value : ∀ b : B, Cmd.ofByte b ≠ .unknown → (Cmd.ofByte b).toByte = b := by
  apply forall_byte; decide +kernel

theorem cmd_inverts : ∀ v : Cmd, v ≠ .unknown → Cmd.ofByte v.toByte = v := by
  intro v; cases v <;> decide

theorem cmd_unknown_iff : ∀ b : B, Cmd.ofByte b = .unknown ↔ ∀ v : Cmd, v ≠ .unknown → v.toByte ≠ b := by
  intro b
  constructor
  · intro h v hv hb
    subst hb
    rw [cmd_inverts v hv] at h
    exact hv h
  · intro h
    apply Classical.byContradiction
    intro hne
    exact h _ hne (cmd_value b hne)

theorem msg_table : ∀ b : B, MsgType.ofByte b = ((msgTable.lookup b).getD .invalid) := by
  apply forall_byte; decide +kernel

theorem msg_value : ∀ b : B, MsgType.ofByte b ≠ .invalid → (MsgType.ofByte b).toByte = b := by
  apply forall_byte; decide +kernel

theorem msg_inverts : ∀ v : MsgType, v ≠ .invalid → MsgType.ofByte v.toByte = v := by
  intro v; cases v <;> decide

theorem msg_invalid_iff : ∀ b : B, MsgType.ofByte b = .invalid ↔ ∀ v : MsgType, v ≠ .invalid → v.toByte ≠ b := by
  intro b
  constructor
  · intro h v hv hb
    subst hb
    rw [msg_inverts v hv] at h
    exact hv h
  · intro h
    apply Classical.byContradiction
    intro hne
    exact h _ hne (msg_value b hne)

theorem cc_table : ∀ b : B, b.toNat ≤ 5 → CC.ofByte b = .ok ((ccTable.lookup b).getD .success) := by
  apply forall_byte; decide +kernel

theorem cc_inverts : ∀ v : CC, CC.ofByte v.toByte = .ok v := by
  intro v; cases v <;> decide

theorem cc_value : ∀ b : B, ∀ v, CC.ofByte b = .ok v → v.toByte = b := by
  intro b v; revert b; cases v <;> (apply forall_byte; decide +kernel)

/-- finding D10: completion codes above 5 reach `unreachable!()` -/
theorem cc_above_five_panics : ∀ b : B, 6 ≤ b.toNat → CC.ofByte b = .panic ⟨.unreachable, .control⟩ := by
  apply forall_byte; decide +kernel

-- non-vacuity: the tables really are hit
example : Cmd.ofByte 0x0F#8 = .queryHop ∧ Cmd.ofByte 0x15#8 = .unknown ∧ MsgType.ofByte 0x7E#8 = .pci := by decide

end C19
end Mctp
