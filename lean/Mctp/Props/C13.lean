/-
C13 — the endpoint's EID is the last one assigned, and nothing else changes it.
-/
import Mctp.Lemmas.Process
import Mctp.Spec.State
namespace Mctp
namespace C13

/-- one operation moves both EID cells exactly as the abstract specification says -/
theorem step (c : Ctx) (op : Op) (h : Spec.opOk op = true) :
    ((stepOp c op).1.reqEid, (stepOp c op).1.respEid) = Spec.eidsStep (c.reqEid, c.respEid) op := by
  cases op with
  | process p buf =>
    rw [Proc.stepOp_process, Proc.process_eids]
    rfl
  | setUuid u =>
    show ((if u.length = 16 then ({ c with uuid := u }, Obs.unit) else (c, Obs.panicked ⟨.copyLen, .smbus⟩)).1.reqEid,
          (if u.length = 16 then ({ c with uuid := u }, Obs.unit) else (c, Obs.panicked ⟨.copyLen, .smbus⟩)).1.respEid) =
      (c.reqEid, c.respEid)
    split <;> rfl
  | _ => rfl

/-- after any history on a fresh context, both halves hold what the specification says -/
theorem refine (a : B) (ts : Bytes) (vs : List VendorId) (ops : List Op)
    (h : ∀ op ∈ ops, Spec.opOk op = true) :
    let c := (runOps (Ctx.new a ts vs) ops).1
    (c.reqEid, c.respEid) = Spec.eids ops := by
  have gen : ∀ (ops : List Op) (c : Ctx), (∀ op ∈ ops, Spec.opOk op = true) →
      ((runOps c ops).1.reqEid, (runOps c ops).1.respEid) = ops.foldl Spec.eidsStep (c.reqEid, c.respEid) := by
    intro ops
    induction ops with
    | nil => intro c _; rfl
    | cons op ops ih =>
      intro c hok
      rw [Proc.runOps_cons, List.foldl_cons, ← step c op (hok op (by simp))]
      exact ih _ (fun o ho => hok o (by simp [ho]))
  exact gen ops (Ctx.new a ts vs) h

/-- nothing but an accepted Set/Force request or an accessor write changes either cell -/
theorem frame (c : Ctx) (op : Op) (hok : Spec.opOk op = true)
    (hp : ∀ p buf, op = .process p buf → Spec.assigns p = none)
    (h1 : ∀ e, op ≠ .setEidReq e) (h2 : ∀ e, op ≠ .setEidResp e) :
    (stepOp c op).1.reqEid = c.reqEid ∧ (stepOp c op).1.respEid = c.respEid := by
  have hs := step c op hok
  have : Spec.eidsStep (c.reqEid, c.respEid) op = (c.reqEid, c.respEid) := by
    cases op with
    | process p buf =>
      show (match Spec.assigns p with | some e => (e, e) | none => (c.reqEid, c.respEid)) = _
      rw [hp p buf rfl]
    | setEidReq e => exact absurd rfl (h1 e)
    | setEidResp e => exact absurd rfl (h2 e)
    | _ => rfl
  rw [this] at hs
  exact ⟨congrArg Prod.fst hs, congrArg Prod.snd hs⟩

/-- an accepted assignment is answered Success, status accepted, and the new EID -/
theorem assign_answer (c : Ctx) (p buf : Bytes) (e : B) (hb : 64 ≤ buf.length)
    (ha : Spec.assigns p = some e) :
    ∃ c' d buf', process c p buf = (c', .ok (d, some 16), buf') ∧
      c'.reqEid = e ∧ c'.respEid = e ∧
      Spec.sub buf' 9 15 = [0x00#8, 0x01#8, 0x00#8, 0x00#8, e, 0x00#8] := by
  obtain ⟨hacc, hcmd, hop, rfl⟩ := Proc.assigns_some p e ha
  have hun : Spec.reqUnimpl (byteAt p 10) = false := by rw [hcmd]; decide
  have hd := Proc.dispatch_setEid_assign c (byteAt p 10) (byteAt p 6) (fun i => byteAt p (11 + i)) buf
    (by rw [hcmd]; rfl) hop (by omega)
  refine ⟨_, _, _, Proc.process_of_dispatch c p buf hacc hun _ _ _ hd, rfl, rfl, ?_⟩
  exact Proc.sub_respPkt c.address (byteAt p 6) 0x01#8 [0x00#8, 0x00#8, byteAt p 12, 0x00#8] (buf.drop 16)

/-- Set-Discovered-Flag is answered with the invalid-data completion code and changes nothing -/
theorem discovered_flag (c : Ctx) (p buf : Bytes) (hb : 64 ≤ buf.length)
    (ha : Spec.isAcceptedRequest p = true) (hcmd : Spec.cmdOf p = 0x01#8) (hop : byteAt p 11 = 0x03#8) :
    ∃ d buf', process c p buf = (c, .ok (d, some 16), buf') ∧
      Spec.sub buf' 9 15 = [0x00#8, 0x01#8, 0x02#8, 0x00#8, c.respEid, 0x00#8] := by
  have hcmd' : byteAt p 10 = 0x01#8 := hcmd
  have hun : Spec.reqUnimpl (byteAt p 10) = false := by rw [hcmd']; decide
  have hd := Proc.dispatch_setEid_discovered c (byteAt p 10) (byteAt p 6) (fun i => byteAt p (11 + i)) buf
    (by rw [hcmd']; rfl) hop (by omega)
  refine ⟨_, _, Proc.process_of_dispatch c p buf ha hun _ _ _ hd, ?_⟩
  exact Proc.sub_respPkt c.address (byteAt p 6) 0x01#8 [0x02#8, 0x00#8, c.respEid, 0x00#8] (buf.drop 16)

/-- Get Endpoint ID reports the response half's EID -/
theorem reported (c : Ctx) (p buf : Bytes) (hb : 64 ≤ buf.length)
    (ha : Spec.isAcceptedRequest p = true) (hcmd : Spec.cmdOf p = 0x02#8) :
    ∃ d buf', process c p buf = (c, .ok (d, some 16), buf') ∧
      Spec.sub buf' 9 15 = [0x00#8, 0x02#8, 0x00#8, c.respEid, 0x00#8, 0x00#8] := by
  have hcmd' : byteAt p 10 = 0x02#8 := hcmd
  have hun : Spec.reqUnimpl (byteAt p 10) = false := by rw [hcmd']; decide
  have hd := Proc.dispatch_getEid_ok c (byteAt p 10) (byteAt p 6) (fun i => byteAt p (11 + i)) buf
    (by rw [hcmd']; rfl) (by omega)
  refine ⟨_, _, Proc.process_of_dispatch c p buf ha hun _ _ _ hd, ?_⟩
  exact Proc.sub_respPkt c.address (byteAt p 6) 0x02#8 [0x00#8, c.respEid, 0x00#8, 0x00#8] (buf.drop 16)

end C13
end Mctp
