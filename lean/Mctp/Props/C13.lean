/-
C13 — the endpoint's EID is the last one assigned, and nothing else changes it.
-/
import Mctp.Lemmas.Process
import Mctp.Spec.State
namespace Mctp
namespace C13

/-- one operation moves both EID cells exactly as the abstract specification says -/
theorem step (c : Ctx) (op : Op) (h : Spec.opOk op = true) :
    ((stepOp c op).1.reqEid, (stepOp c op).1.respEid) = Spec.eidsStep (c.reqEid, c.respEid) op := by
  sorry

/-- after any history on a fresh context, both halves hold what the specification says -/
theorem refine (a : B) (ts : Bytes) (vs : List VendorId) (ops : List Op)
    (h : ∀ op ∈ ops, Spec.opOk op = true) :
    let c := (runOps (Ctx.new a ts vs) ops).1
    (c.reqEid, c.respEid) = Spec.eids ops := by
  sorry

/-- nothing but an accepted Set/Force request or an accessor write changes either cell -/
theorem frame (c : Ctx) (op : Op) (hok : Spec.opOk op = true)
    (hp : ∀ p buf, op = .process p buf → Spec.assigns p = none)
    (h1 : ∀ e, op ≠ .setEidReq e) (h2 : ∀ e, op ≠ .setEidResp e) :
    (stepOp c op).1.reqEid = c.reqEid ∧ (stepOp c op).1.respEid = c.respEid := by
  sorry

/-- an accepted assignment is answered Success, status accepted, and the new EID -/
theorem assign_answer (c : Ctx) (p buf : Bytes) (e : B) (hb : 64 ≤ buf.length)
    (ha : Spec.assigns p = some e) :
    ∃ c' d buf', process c p buf = (c', .ok (d, some 16), buf') ∧
      c'.reqEid = e ∧ c'.respEid = e ∧
      Spec.sub buf' 9 15 = [0x00#8, 0x01#8, 0x00#8, 0x00#8, e, 0x00#8] := by
  sorry

/-- Set-Discovered-Flag is answered with the invalid-data completion code and changes nothing -/
theorem discovered_flag (c : Ctx) (p buf : Bytes) (hb : 64 ≤ buf.length)
    (ha : Spec.isAcceptedRequest p = true) (hcmd : Spec.cmdOf p = 0x01#8) (hop : byteAt p 11 = 0x03#8) :
    ∃ d buf', process c p buf = (c, .ok (d, some 16), buf') ∧
      Spec.sub buf' 9 15 = [0x00#8, 0x01#8, 0x02#8, 0x00#8, c.respEid, 0x00#8] := by
  sorry

/-- Get Endpoint ID reports the response half's EID -/
theorem reported (c : Ctx) (p buf : Bytes) (hb : 64 ≤ buf.length)
    (ha : Spec.isAcceptedRequest p = true) (hcmd : Spec.cmdOf p = 0x02#8) :
    ∃ d buf', process c p buf = (c, .ok (d, some 16), buf') ∧
      Spec.sub buf' 9 15 = [0x00#8, 0x02#8, 0x00#8, c.respEid, 0x00#8, 0x00#8] := by
  sorry

end C13
end Mctp
