/-
C18 — header views read and write exactly their documented bit positions.
`Field.get` / `Field.set` are the macro's bit loops; the statements below are about buffers of
any length and any content.
-/
import Mctp.Lemmas.Bitfield
import Mctp.Model.Views
import Mctp.Spec.Layout
namespace Mctp
namespace C18

/-- everything about the table that is decided by evaluation: each field lives in the documented
byte and its setter visits bit positions `lo, lo+1, …, lo+width-1` of that byte -/
theorem table_facts : ∀ p ∈ table,
    p.1.lsb / 8 = p.2.byte ∧ p.1.msb / 8 = p.2.byte ∧ p.2.width ≤ p.1.valBits ∧ p.2.lo + p.2.width ≤ 8 ∧
    p.1.setPos = List.range' p.2.lo p.2.width := by
  decide +kernel

/-- every getter reads exactly its documented bits, for every raw buffer -/
theorem get_layout (f : Field) (l : Layout) (h : (f, l) ∈ table) (buf : Bytes) :
    f.get buf = ((byteAt buf l.byte).toNat / 2 ^ l.lo) % 2 ^ l.width := by
  obtain ⟨hl, hm, _, _, hp⟩ := table_facts _ h
  exact Field.get_range f l.byte l.lo l.width hl hm hp buf

/-- every setter changes only its own field's bits, storing the value truncated to the field width -/
theorem set_layout (f : Field) (l : Layout) (h : (f, l) ∈ table) (buf : Bytes) (v : Nat)
    (hk : l.byte < buf.length) :
    f.set buf v =
      buf.set l.byte ((byteAt buf l.byte &&& ~~~l.mask) ||| (BitVec.ofNat 8 (v % 2 ^ l.width) <<< l.lo)) := by
  obtain ⟨hl, hm, hv, h8, hp⟩ := table_facts _ h
  exact Field.set_range f l.byte l.lo l.width hl hm hp h8 hv buf v hk

/-- a read after a write returns the written value (truncated to the field width) -/
theorem get_set (f : Field) (l : Layout) (h : (f, l) ∈ table) (buf : Bytes) (v : Nat)
    (hk : l.byte < buf.length) : f.get (f.set buf v) = v % 2 ^ l.width := by
  obtain ⟨_, _, _, h8, _⟩ := table_facts _ h
  rw [get_layout f l h, set_layout f l h buf v hk, byteAt_set _ _ _ _ hk, if_pos rfl]
  exact byte_update_same _ _ _ _ h8

/-- a write preserves every other field of the same view and every other byte -/
theorem set_preserves (f g : Field) (lf lg : Layout) (hf : (f, lf) ∈ table) (hg : (g, lg) ∈ table)
    (buf : Bytes) (v : Nat) (hk : lf.byte < buf.length)
    (hdisj : lf.byte ≠ lg.byte ∨ lf.lo + lf.width ≤ lg.lo ∨ lg.lo + lg.width ≤ lf.lo) :
    g.get (f.set buf v) = g.get buf := by
  obtain ⟨_, _, _, h8, _⟩ := table_facts _ hf
  rw [get_layout g lg hg, get_layout g lg hg, set_layout f lf hf buf v hk, byteAt_set _ _ _ _ hk]
  by_cases hb : lg.byte = lf.byte
  · rw [if_pos hb, hb]
    rcases hdisj with hd | hd
    · exact absurd hb.symm hd
    · exact byte_update_other _ _ _ _ _ _ h8 hd
  · rw [if_neg hb]

theorem set_length (f : Field) (buf : Bytes) (v : Nat) : (f.set buf v).length = buf.length := by
  exact Field.set_length f buf v

/-- PCI vendor ID: 16 bits, most significant byte first -/
theorem pci_get (buf : Bytes) :
    PciFmt.vendorId.get buf = (byteAt buf 0).toNat * 256 + (byteAt buf 1).toNat := by
  have e : idxUp 15 0 = idxUp 7 0 ++ idxUp 15 8 := by decide
  show getLoop posMsb0 buf (idxUp 15 0) 0 % 2 ^ 16 = _
  rw [e, getLoop_append,
    getLoop_byte posMsb0 buf (idxUp 7 0) 0 _ (idxUp_byte 7 0 0 rfl rfl) (by decide),
    getLoop_byte posMsb0 buf (idxUp 15 8) 1 _ (idxUp_byte 15 8 1 rfl rfl) (by decide)]
  have h0 := (byteAt buf 0).isLt
  have h1 := (byteAt buf 1).isLt
  omega

theorem pci_set (buf : Bytes) (v : Nat) (hl : 2 ≤ buf.length) :
    PciFmt.vendorId.set buf v = BitVec.ofNat 8 (v / 256) :: BitVec.ofNat 8 v :: buf.drop 2 := by
  have e : idxDown 15 0 = idxDown 15 8 ++ idxDown 7 0 := by decide
  show (setLoop posMsb0 (idxDown 15 0) (buf, v % 2 ^ 16)).1 = _
  rw [e, setLoop_append,
    setLoop_byte posMsb0 (idxDown 15 8) 1 buf _ (idxDown_byte 15 8 1 rfl rfl) (by omega) (by decide),
    setLoop_byte posMsb0 (idxDown 7 0) 0 _ _ (idxDown_byte 7 0 0 rfl rfl) (by simp; omega) (by decide)]
  have h1 : BitVec.ofNat 8 (v % 2 ^ 16) = BitVec.ofNat 8 v := by
    apply BitVec.eq_of_toNat_eq; simp
  have h2 : BitVec.ofNat 8 (v % 2 ^ 16 / 256) = BitVec.ofNat 8 (v / 256) := by
    apply BitVec.eq_of_toNat_eq; simp; omega
  rw [h1, h2]
  match buf, hl with
  | a :: b :: rest, _ => simp

/-- IANA enterprise number: 32 bits, most significant byte first -/
theorem iana_get (buf : Bytes) :
    IanaFmt.vendorId.get buf =
      (byteAt buf 0).toNat * 16777216 + (byteAt buf 1).toNat * 65536 + (byteAt buf 2).toNat * 256 +
        (byteAt buf 3).toNat := by
  have e : idxUp 31 0 = idxUp 7 0 ++ (idxUp 15 8 ++ (idxUp 23 16 ++ idxUp 31 24)) := by decide
  show getLoop posMsb0 buf (idxUp 31 0) 0 % 2 ^ 32 = _
  rw [e, getLoop_append, getLoop_append, getLoop_append,
    getLoop_byte posMsb0 buf (idxUp 7 0) 0 _ (idxUp_byte 7 0 0 rfl rfl) (by decide),
    getLoop_byte posMsb0 buf (idxUp 15 8) 1 _ (idxUp_byte 15 8 1 rfl rfl) (by decide),
    getLoop_byte posMsb0 buf (idxUp 23 16) 2 _ (idxUp_byte 23 16 2 rfl rfl) (by decide),
    getLoop_byte posMsb0 buf (idxUp 31 24) 3 _ (idxUp_byte 31 24 3 rfl rfl) (by decide)]
  have h0 := (byteAt buf 0).isLt
  have h1 := (byteAt buf 1).isLt
  have h2 := (byteAt buf 2).isLt
  have h3 := (byteAt buf 3).isLt
  omega

theorem iana_set (buf : Bytes) (v : Nat) (hl : 4 ≤ buf.length) :
    IanaFmt.vendorId.set buf v =
      BitVec.ofNat 8 (v / 16777216) :: BitVec.ofNat 8 (v / 65536) :: BitVec.ofNat 8 (v / 256) ::
        BitVec.ofNat 8 v :: buf.drop 4 := by
  have e : idxDown 31 0 = idxDown 31 24 ++ (idxDown 23 16 ++ (idxDown 15 8 ++ idxDown 7 0)) := by decide
  show (setLoop posMsb0 (idxDown 31 0) (buf, v % 2 ^ 32)).1 = _
  rw [e, setLoop_append, setLoop_append, setLoop_append,
    setLoop_byte posMsb0 (idxDown 31 24) 3 buf _ (idxDown_byte 31 24 3 rfl rfl) (by omega) (by decide),
    setLoop_byte posMsb0 (idxDown 23 16) 2 _ _ (idxDown_byte 23 16 2 rfl rfl) (by simp; omega) (by decide),
    setLoop_byte posMsb0 (idxDown 15 8) 1 _ _ (idxDown_byte 15 8 1 rfl rfl) (by simp; omega) (by decide),
    setLoop_byte posMsb0 (idxDown 7 0) 0 _ _ (idxDown_byte 7 0 0 rfl rfl) (by simp; omega) (by decide)]
  have h1 : BitVec.ofNat 8 (v % 2 ^ 32) = BitVec.ofNat 8 v := by
    apply BitVec.eq_of_toNat_eq; simp
  have h2 : BitVec.ofNat 8 (v % 2 ^ 32 / 256) = BitVec.ofNat 8 (v / 256) := by
    apply BitVec.eq_of_toNat_eq; simp; omega
  have h3 : BitVec.ofNat 8 (v % 2 ^ 32 / 256 / 256) = BitVec.ofNat 8 (v / 65536) := by
    apply BitVec.eq_of_toNat_eq; simp; omega
  have h4 : BitVec.ofNat 8 (v % 2 ^ 32 / 256 / 256 / 256) = BitVec.ofNat 8 (v / 16777216) := by
    apply BitVec.eq_of_toNat_eq; simp; omega
  rw [h1, h2, h3, h4]
  match buf, hl with
  | a :: b :: c :: d :: rest, _ => simp

/-- a transport header is accepted exactly when the reserved bits are zero and the version matches -/
theorem transport_from_buf (buf : Bytes) (version : B) :
    transportFromBufOk buf version =
      ((byteAt buf 0 &&& 0xF0#8) == 0x00#8 && (byteAt buf 0 &&& 0x0F#8) == version) := by
  have hA : ∀ x : B, (x.toNat / 2 ^ 4 % 2 ^ 4 = 0) ↔ (x &&& 0xF0#8) = 0x00#8 := by
    apply forall_byte; decide +kernel
  have hB : ∀ x : B, x.toNat / 2 ^ 0 % 2 ^ 4 = (x &&& 0x0F#8).toNat := by
    apply forall_byte; decide +kernel
  unfold transportFromBufOk
  rw [get_layout TransportHdr.rsvd ⟨0, 4, 4⟩ (by simp [table]),
    get_layout TransportHdr.hdrVersion ⟨0, 0, 4⟩ (by simp [table])]
  simp only [hA, hB, BitVec.toNat_inj, ne_eq]
  by_cases h1 : (byteAt buf 0 &&& 0xF0#8) = 0x00#8 <;>
    by_cases h2 : (byteAt buf 0 &&& 0x0F#8) = version <;> simp [h1, h2]

/-- a message-body header exactly when the integrity bit is clear and the type is supported -/
theorem body_from_buf (buf : Bytes) :
    bodyFromBufOk buf =
      ((byteAt buf 0 &&& 0x80#8) == 0x00#8 &&
       ((byteAt buf 0 &&& 0x7F#8) == 0x00#8 || (byteAt buf 0 &&& 0x7F#8) == 0x05#8 ||
        (byteAt buf 0 &&& 0x7F#8) == 0x06#8 || (byteAt buf 0 &&& 0x7F#8) == 0x7E#8 ||
        (byteAt buf 0 &&& 0x7F#8) == 0x7F#8)) := by
  have key : ∀ x : B,
      (if x.toNat / 2 ^ 7 % 2 ^ 1 ≠ 0 then false
       else if MsgType.ofByte (BitVec.ofNat 8 (x.toNat / 2 ^ 0 % 2 ^ 7)) = .invalid then false
       else true) =
      ((x &&& 0x80#8) == 0x00#8 &&
       ((x &&& 0x7F#8) == 0x00#8 || (x &&& 0x7F#8) == 0x05#8 ||
        (x &&& 0x7F#8) == 0x06#8 || (x &&& 0x7F#8) == 0x7E#8 ||
        (x &&& 0x7F#8) == 0x7F#8)) := by
    apply forall_byte; decide +kernel
  unfold bodyFromBufOk
  rw [get_layout BodyHdr.ic ⟨0, 7, 1⟩ (by simp [table]),
    get_layout BodyHdr.msgType ⟨0, 0, 7⟩ (by simp [table])]
  exact key _

end C18
end Mctp
