/-
C18 — header views read and write exactly their documented bit positions.
`Field.get` / `Field.set` are the macro's bit loops; the statements below are about buffers of
any length and any content.
-/
import Mctp.Lemmas.Bitfield
import Mctp.Model.Views
namespace Mctp
namespace C18

/-- wire position of a field that lives inside one byte: byte index, lowest bit (bit 0 = least
significant bit of the byte), width in bits -/
structure Layout where
  byte : Nat
  lo : Nat
  width : Nat
  deriving DecidableEq, Repr

/-- the layouts of DSP0237 (SMBus header, routing entry) and DSP0236 (transport header, message
body header, control message header), as the library documents them -/
def table : List (Field × Layout) :=
  [ (SMBusHdr.destReadWrite, ⟨0, 0, 1⟩), (SMBusHdr.destSlaveAddr, ⟨0, 1, 7⟩),
    (SMBusHdr.commandCode, ⟨1, 0, 8⟩), (SMBusHdr.byteCount, ⟨2, 0, 8⟩),
    (SMBusHdr.sourceReadWrite, ⟨3, 0, 1⟩), (SMBusHdr.sourceSlaveAddr, ⟨3, 1, 7⟩),
    (RoutingEntry.entryType, ⟨0, 0, 4⟩), (RoutingEntry.eidRangeSize, ⟨1, 0, 8⟩),
    (RoutingEntry.firstEid, ⟨2, 0, 8⟩), (RoutingEntry.physicalAddress, ⟨3, 0, 8⟩),
    (TransportHdr.rsvd, ⟨0, 4, 4⟩), (TransportHdr.hdrVersion, ⟨0, 0, 4⟩),
    (TransportHdr.destEndpointId, ⟨1, 0, 8⟩), (TransportHdr.sourceEndpointId, ⟨2, 0, 8⟩),
    (TransportHdr.som, ⟨3, 7, 1⟩), (TransportHdr.eom, ⟨3, 6, 1⟩), (TransportHdr.pktSeq, ⟨3, 4, 2⟩),
    (TransportHdr.to, ⟨3, 3, 1⟩), (TransportHdr.msgTag, ⟨3, 0, 3⟩),
    (BodyHdr.ic, ⟨0, 7, 1⟩), (BodyHdr.msgType, ⟨0, 0, 7⟩),
    (CtrlHdr.rq, ⟨0, 7, 1⟩), (CtrlHdr.d, ⟨0, 6, 1⟩), (CtrlHdr.rsvd, ⟨0, 5, 1⟩),
    (CtrlHdr.instanceId, ⟨0, 0, 5⟩), (CtrlHdr.commandCode, ⟨1, 0, 8⟩) ]

def Layout.mask (l : Layout) : B := BitVec.ofNat 8 (2 ^ l.width - 1) <<< l.lo

/-- every getter reads exactly its documented bits, for every raw buffer -/
theorem get_layout (f : Field) (l : Layout) (h : (f, l) ∈ table) (buf : Bytes) :
    f.get buf = ((byteAt buf l.byte).toNat / 2 ^ l.lo) % 2 ^ l.width := by
  sorry

/-- every setter changes only its own field's bits, storing the value truncated to the field width -/
theorem set_layout (f : Field) (l : Layout) (h : (f, l) ∈ table) (buf : Bytes) (v : Nat)
    (hk : l.byte < buf.length) :
    f.set buf v =
      buf.set l.byte ((byteAt buf l.byte &&& ~~~l.mask) ||| (BitVec.ofNat 8 (v % 2 ^ l.width) <<< l.lo)) := by
  sorry

/-- a read after a write returns the written value (truncated to the field width) -/
theorem get_set (f : Field) (l : Layout) (h : (f, l) ∈ table) (buf : Bytes) (v : Nat)
    (hk : l.byte < buf.length) : f.get (f.set buf v) = v % 2 ^ l.width := by
  sorry

/-- a write preserves every other field of the same view and every other byte -/
theorem set_preserves (f g : Field) (lf lg : Layout) (hf : (f, lf) ∈ table) (hg : (g, lg) ∈ table)
    (buf : Bytes) (v : Nat) (hk : lf.byte < buf.length)
    (hdisj : lf.byte ≠ lg.byte ∨ lf.lo + lf.width ≤ lg.lo ∨ lg.lo + lg.width ≤ lf.lo) :
    g.get (f.set buf v) = g.get buf := by
  sorry

theorem set_length (f : Field) (buf : Bytes) (v : Nat) : (f.set buf v).length = buf.length := by
  sorry

/-- PCI vendor ID: 16 bits, most significant byte first -/
theorem pci_get (buf : Bytes) :
    PciFmt.vendorId.get buf = (byteAt buf 0).toNat * 256 + (byteAt buf 1).toNat := by
  sorry

theorem pci_set (buf : Bytes) (v : Nat) (hl : 2 ≤ buf.length) :
    PciFmt.vendorId.set buf v = BitVec.ofNat 8 (v / 256) :: BitVec.ofNat 8 v :: buf.drop 2 := by
  sorry

/-- IANA enterprise number: 32 bits, most significant byte first -/
theorem iana_get (buf : Bytes) :
    IanaFmt.vendorId.get buf =
      (byteAt buf 0).toNat * 16777216 + (byteAt buf 1).toNat * 65536 + (byteAt buf 2).toNat * 256 +
        (byteAt buf 3).toNat := by
  sorry

theorem iana_set (buf : Bytes) (v : Nat) (hl : 4 ≤ buf.length) :
    IanaFmt.vendorId.set buf v =
      BitVec.ofNat 8 (v / 16777216) :: BitVec.ofNat 8 (v / 65536) :: BitVec.ofNat 8 (v / 256) ::
        BitVec.ofNat 8 v :: buf.drop 4 := by
  sorry

/-- a transport header is accepted exactly when the reserved bits are zero and the version matches -/
theorem transport_from_buf (buf : Bytes) (version : B) :
    transportFromBufOk buf version =
      ((byteAt buf 0 &&& 0xF0#8) == 0x00#8 && (byteAt buf 0 &&& 0x0F#8) == version) := by
  sorry

/-- a message-body header exactly when the integrity bit is clear and the type is supported -/
theorem body_from_buf (buf : Bytes) :
    bodyFromBufOk buf =
      ((byteAt buf 0 &&& 0x80#8) == 0x00#8 &&
       ((byteAt buf 0 &&& 0x7F#8) == 0x00#8 || (byteAt buf 0 &&& 0x7F#8) == 0x05#8 ||
        (byteAt buf 0 &&& 0x7F#8) == 0x06#8 || (byteAt buf 0 &&& 0x7F#8) == 0x7E#8 ||
        (byteAt buf 0 &&& 0x7F#8) == 0x7F#8)) := by
  sorry

end C18
end Mctp
