/-
C14 — vendor ID sets can be enumerated completely by following selectors.
-/
import Mctp.Lemmas.Process
import Mctp.Spec.State
namespace Mctp
namespace C14

/-- selector `i < n`: Success, next selector, and the i-th set in its own format — whatever the
scratch selector cell held before and whatever was queried before -/
theorem answer (c : Ctx) (p buf : Bytes) (v : VendorId) (i : Nat)
    (hc : Spec.configOk c = true) (hb : 64 ≤ buf.length)
    (ha : Spec.isAcceptedRequest p = true) (hcmd : Spec.cmdOf p = 0x06#8)
    (hi : (byteAt p 11).toNat = i) (hv : c.vendorIds[i]? = some v) :
    ∃ c' d n buf', process c p buf = (c', .ok (d, some n), buf') ∧
      n = 14 + (Spec.encodeSet v).length ∧
      Spec.sub buf' 9 (n - 1) =
        [0x00#8, 0x06#8, 0x00#8, Spec.nextSelector i c.vendorIds.length] ++ Spec.encodeSet v ∧
      c'.vendorIds = c.vendorIds ∧ Spec.configOk c' = true := by
  have hcmd' : byteAt p 10 = 0x06#8 := hcmd
  have hun : Spec.reqUnimpl (byteAt p 10) = false := by rw [hcmd']; decide
  obtain ⟨_, hfmt, _, h255, _⟩ := (Proc.configOk_iff c).mp hc
  obtain ⟨hlt, hget⟩ := List.getElem?_eq_some_iff.mp hv
  have hmem : v ∈ c.vendorIds := by rw [← hget]; exact List.getElem_mem hlt
  obtain ⟨hf, hl⟩ := Proc.vendorField_eq v (hfmt v hmem)
  have hsel : byteAt p 11 ≠ 0xFF#8 := by
    intro h; rw [h] at hi; simp at hi; omega
  have hd := Proc.dispatch_vendor_ok c (byteAt p 10) (byteAt p 6) (fun i => byteAt p (11 + i)) buf
    (by rw [hcmd']; rfl) hsel v _ (by rw [← hi] at hv; exact hv) hf hl (by omega)
  have hns : Proc.nextSel c (byteAt p 11) = Spec.nextSelector i c.vendorIds.length := by
    rw [Proc.nextSel_eq c _ (by omega) h255, hi]
  simp only [Nat.add_zero] at hd
  rw [hns] at hd
  refine ⟨_, _, _, _, Proc.process_of_dispatch c p buf ha hun _ _ _ hd, rfl, ?_, rfl, hc⟩
  have := Proc.sub_respPkt c.address (byteAt p 6) 0x06#8
    (0x00#8 :: Spec.nextSelector i c.vendorIds.length :: Spec.encodeSet v) (buf.drop (14 + (Spec.encodeSet v).length))
  have e : 11 + (0x00#8 :: Spec.nextSelector i c.vendorIds.length :: Spec.encodeSet v).length =
      14 + (Spec.encodeSet v).length - 1 := by simp; omega
  rw [e] at this
  simpa using this

/-- the requester's walk: start at `i`, follow the returned selectors until 0xFF -/
def walk (vs : List VendorId) : Nat → Nat → List Bytes
  | 0, _ => []
  | fuel + 1, i =>
    match vs[i]? with
    | none => []
    | some v =>
      Spec.encodeSet v ::
        (if Spec.nextSelector i vs.length = 0xFF#8 then [] else walk vs fuel (Spec.nextSelector i vs.length).toNat)

theorem walk_from (vs : List VendorId) (h255 : vs.length ≤ 255) :
    ∀ (fuel i : Nat), i < vs.length → vs.length - i ≤ fuel → walk vs fuel i = (vs.drop i).map Spec.encodeSet := by
  intro fuel
  induction fuel with
  | zero => intro i h1 h2; omega
  | succ fuel ih =>
    intro i h1 h2
    have hv : vs[i]? = some vs[i] := List.getElem?_eq_getElem h1
    have hd : vs.drop i = vs[i] :: vs.drop (i + 1) := List.drop_eq_getElem_cons h1
    simp only [walk, hv]
    rw [hd, List.map_cons]
    congr 1
    by_cases hn : i + 1 = vs.length
    · have : Spec.nextSelector i vs.length = 0xFF#8 := by simp [Spec.nextSelector, hn]
      rw [if_pos this, List.drop_eq_nil_of_le (by omega)]; rfl
    · have hns : Spec.nextSelector i vs.length = BitVec.ofNat 8 (i + 1) := by simp [Spec.nextSelector, hn]
      have htn : (BitVec.ofNat 8 (i + 1)).toNat = i + 1 := by
        simp only [BitVec.toNat_ofNat]; omega
      have hne : BitVec.ofNat 8 (i + 1) ≠ 0xFF#8 := by
        intro h; have := congrArg BitVec.toNat h; rw [htn] at this; simp at this; omega
      rw [hns, if_neg hne, htn]
      exact ih (i + 1) (by omega) (by omega)

/-- starting at selector 0 the walk sees every configured set exactly once, in order, and stops -/
theorem walk_complete (vs : List VendorId) (h1 : 1 ≤ vs.length) (h255 : vs.length ≤ 255) :
    walk vs 256 0 = vs.map Spec.encodeSet := by
  have := walk_from vs h255 256 0 (by omega) (by omega)
  simpa using this

end C14
end Mctp
