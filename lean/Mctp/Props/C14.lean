/-
C14 — vendor ID sets can be enumerated completely by following selectors.
-/
import Mctp.Lemmas.Process
import Mctp.Spec.State
namespace Mctp
namespace C14

/-- selector `i < n`: Success, next selector, and the i-th set in its own format — whatever the
scratch selector cell held before and whatever was queried before -/
theorem answer (c : Ctx) (p buf : Bytes) (v : VendorId) (i : Nat)
    (hc : Spec.configOk c = true) (hb : 64 ≤ buf.length)
    (ha : Spec.isAcceptedRequest p = true) (hcmd : Spec.cmdOf p = 0x06#8)
    (hi : (byteAt p 11).toNat = i) (hv : c.vendorIds[i]? = some v) :
    ∃ c' d n buf', process c p buf = (c', .ok (d, some n), buf') ∧
      n = 14 + (Spec.encodeSet v).length ∧
      Spec.sub buf' 9 (n - 1) =
        [0x00#8, 0x06#8, 0x00#8, Spec.nextSelector i c.vendorIds.length] ++ Spec.encodeSet v ∧
      c'.vendorIds = c.vendorIds ∧ Spec.configOk c' = true := by
  sorry

/-- the requester's walk: start at `i`, follow the returned selectors until 0xFF -/
def walk (vs : List VendorId) : Nat → Nat → List Bytes
  | 0, _ => []
  | fuel + 1, i =>
    match vs[i]? with
    | none => []
    | some v =>
      Spec.encodeSet v ::
        (if Spec.nextSelector i vs.length = 0xFF#8 then [] else walk vs fuel (Spec.nextSelector i vs.length).toNat)

/-- starting at selector 0 the walk sees every configured set exactly once, in order, and stops -/
theorem walk_complete (vs : List VendorId) (h1 : 1 ≤ vs.length) (h255 : vs.length ≤ 255) :
    walk vs 256 0 = vs.map Spec.encodeSet := by
  sorry

end C14
end Mctp
