/-
C17 — the length probe is a function of the first three bytes only.
-/
import Mctp.Lemmas.Decode
namespace Mctp
namespace C17

/-- closed form: `byte[2] + 4` exactly when `byte[1] = 0x0F`, else (Invalid, Unknown);
inputs shorter than three bytes are rejected -/
theorem spec (p : Bytes) :
    getLength p =
      if p.length < 3 then .err (.invalid, .unknown)
      else if byteAt p 1 = 0x0F#8 then .ok ((byteAt p 2).toNat + 4)
      else .err (.invalid, .unknown) := by
  unfold getLength
  simp only [smbus_cmd_get, smbus_count_get]
  have h : ∀ b : B, (b.toNat = 0x0F) = (b = 0x0F#8) := by
    apply forall_byte; decide +kernel
  simp only [h]

/-- depends on nothing but the first three bytes -/
theorem prefix_only (p q : Bytes) (hp : 3 ≤ p.length) (hq : 3 ≤ q.length) (h : p.take 3 = q.take 3) :
    getLength p = getLength q := by
  have hp' : ¬ p.length < 3 := by omega
  have hq' : ¬ q.length < 3 := by omega
  have h1 : byteAt p 1 = byteAt q 1 := by
    rw [← byteAt_take p 3 1 (by omega), h, byteAt_take q 3 1 (by omega)]
  have h2 : byteAt p 2 = byteAt q 2 := by
    rw [← byteAt_take p 3 2 (by omega), h, byteAt_take q 3 2 (by omega)]
  rw [spec, spec, if_neg hp', if_neg hq', h1, h2]

theorem never_panics (p : Bytes) : (getLength p).isPanic = false := by
  rw [spec]; repeat' split
  all_goals rfl

example : getLength [0x46#8, 0x0F#8, 0x0A#8] = .ok 14 := by decide +kernel
example : getLength [0x46#8, 0x0E#8, 0x0A#8, 0x00#8] = .err (.invalid, .unknown) := by decide +kernel

end C17
end Mctp
