/-
The accessors on backing buffers of any length (what the generated Rust code does): they return
exactly what the total accessors of C18 return when the field's highest byte exists, and panic
(index out of bounds, nothing written) otherwise.  This bounds the transfer of the C18 theorems to the
code: they speak about the code for buffers at least as long as the field reaches.
-/
import Mctp.Props.C18
namespace Mctp
namespace ViewsChecked

theorem getC_ok_iff (f : Field) (file : SrcFile) (buf : Bytes) :
    (∃ v, f.getC file buf = .ok v) ↔ f.msb / 8 < buf.length := by
  unfold Field.getC
  by_cases h : f.msb / 8 < buf.length <;> simp [h]

theorem getC_eq (f : Field) (file : SrcFile) (buf : Bytes) (h : f.msb / 8 < buf.length) :
    f.getC file buf = .ok (f.get buf) := by
  simp [Field.getC, h]

theorem getC_panic (f : Field) (file : SrcFile) (buf : Bytes) (h : buf.length ≤ f.msb / 8) :
    f.getC file buf = .panic ⟨.indexOOB, file⟩ := by
  have : ¬ f.msb / 8 < buf.length := by omega
  simp [Field.getC, this]

theorem setC_eq (f : Field) (file : SrcFile) (buf : Bytes) (v : Nat) (h : f.msb / 8 < buf.length) :
    f.setC file buf v = .ok (f.set buf v) := by
  simp [Field.setC, h]

theorem setC_panic (f : Field) (file : SrcFile) (buf : Bytes) (v : Nat) (h : buf.length ≤ f.msb / 8) :
    f.setC file buf v = .panic ⟨.indexOOB, file⟩ := by
  have : ¬ f.msb / 8 < buf.length := by omega
  simp [Field.setC, this]

/-- with the layout table: on a long-enough buffer the checked getter reads the documented bits -/
theorem getC_layout (f : Field) (l : C18.Layout) (h : (f, l) ∈ C18.table) (file : SrcFile) (buf : Bytes)
    (hk : f.msb / 8 < buf.length) :
    f.getC file buf = .ok (((byteAt buf l.byte).toNat / 2 ^ l.lo) % 2 ^ l.width) := by
  rw [getC_eq f file buf hk, C18.get_layout f l h buf]

end ViewsChecked
end Mctp
