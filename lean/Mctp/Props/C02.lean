/-
C02 — a packet whose PEC does not match is never accepted or acted upon.
-/
import Mctp.Lemmas.Process
import Mctp.Spec.State
namespace Mctp
namespace C02

theorem decode_ok_pec (p : Bytes) (r : Dec) (h : decode p = .ok r) : Spec.pecOk p = true := by
  sorry

theorem process_ok_pec (c : Ctx) (p buf : Bytes) (r : Dec × Option Nat)
    (h : (process c p buf).2.1 = .ok r) : Spec.pecOk p = true := by
  sorry

/-- input failing the PEC test: no success, no response bytes, context unchanged -/
theorem bad_pec_inert (c : Ctx) (p buf : Bytes) (h : Spec.pecOk p = false) :
    ∃ r, process c p buf = (c, r, buf) ∧ r.isOk = false := by
  sorry

/-- … and therefore no later output changes: the rest of any history runs as if it had not happened -/
theorem bad_pec_no_later_effect (c : Ctx) (p buf : Bytes) (ops : List Op) (h : Spec.pecOk p = false) :
    (runOps c (.process p buf :: ops)).1 = (runOps c ops).1 ∧
    (runOps c (.process p buf :: ops)).2.tail = (runOps c ops).2 := by
  sorry

/-- no corruption of a valid packet confined to eight consecutive bits passes the PEC test -/
theorem burst (p e : Bytes) (hp : Spec.pecOk p = true) (he : Spec.isBurst8 e = true)
    (hl : e.length = p.length) : Spec.pecOk (Spec.xorBytes p e) = false := by
  sorry

theorem burst_not_accepted (c : Ctx) (p e buf : Bytes) (hp : Spec.pecOk p = true)
    (he : Spec.isBurst8 e = true) (hl : e.length = p.length) :
    (decode (Spec.xorBytes p e)).isOk = false ∧
    ∃ r, process c (Spec.xorBytes p e) buf = (c, r, buf) ∧ r.isOk = false := by
  sorry

end C02
end Mctp
