/-
C02 — a packet whose PEC does not match is never accepted or acted upon.
-/
import Mctp.Lemmas.Process
import Mctp.Lemmas.DecodeNF
import Mctp.Lemmas.Burst
import Mctp.Spec.State
namespace Mctp
namespace C02

theorem decode_ok_pec (p : Bytes) (r : Dec) (h : decode p = .ok r) : Spec.pecOk p = true := by
  obtain ⟨t, off, len⟩ := r
  obtain ⟨h10, _, hp, _⟩ := decode_ok_inv h
  have hne : p ≠ [] := by intro h; subst h; simp at h10
  rw [pecOk_eq p hne, hp]; simp

theorem decode_bad_pec (p : Bytes) (h : Spec.pecOk p = false) : (decode p).isOk = false := by
  cases hd : decode p with
  | ok r => rw [decode_ok_pec p r hd] at h; simp at h
  | err e => rfl
  | panic k => rfl

theorem process_bad_pec (c : Ctx) (p buf : Bytes) (h : Spec.pecOk p = false) :
    ∃ r, process c p buf = (c, r, buf) ∧ r.isOk = false := by
  unfold process
  cases hd : decode p with
  | ok r => rw [decode_ok_pec p r hd] at h; simp at h
  | err e => exact ⟨.err e, rfl, rfl⟩
  | panic k => exact ⟨.panic k, rfl, rfl⟩

theorem process_ok_pec (c : Ctx) (p buf : Bytes) (r : Dec × Option Nat)
    (h : (process c p buf).2.1 = .ok r) : Spec.pecOk p = true := by
  cases hp : Spec.pecOk p
  · obtain ⟨r', hr, hok⟩ := process_bad_pec c p buf hp
    rw [hr] at h; simp only at h; rw [h] at hok; simp [Out.isOk] at hok
  · rfl

/-- input failing the PEC test: no success, no response bytes, context unchanged -/
theorem bad_pec_inert (c : Ctx) (p buf : Bytes) (h : Spec.pecOk p = false) :
    ∃ r, process c p buf = (c, r, buf) ∧ r.isOk = false := process_bad_pec c p buf h

/-- … and therefore no later output changes: the rest of any history runs as if it had not happened -/
theorem bad_pec_no_later_effect (c : Ctx) (p buf : Bytes) (ops : List Op) (h : Spec.pecOk p = false) :
    (runOps c (.process p buf :: ops)).1 = (runOps c ops).1 ∧
    (runOps c (.process p buf :: ops)).2.tail = (runOps c ops).2 := by
  obtain ⟨r, hr, _⟩ := process_bad_pec c p buf h
  simp [runOps, stepOp, hr]

/-- no corruption of a valid packet confined to eight consecutive bits passes the PEC test -/
theorem burst (p e : Bytes) (hp : Spec.pecOk p = true) (he : Spec.isBurst8 e = true)
    (hl : e.length = p.length) : Spec.pecOk (Spec.xorBytes p e) = false :=
  pecOk_burst p e hp he hl

theorem burst_not_accepted (c : Ctx) (p e buf : Bytes) (hp : Spec.pecOk p = true)
    (he : Spec.isBurst8 e = true) (hl : e.length = p.length) :
    (decode (Spec.xorBytes p e)).isOk = false ∧
    ∃ r, process c (Spec.xorBytes p e) buf = (c, r, buf) ∧ r.isOk = false :=
  ⟨decode_bad_pec _ (burst p e hp he hl), process_bad_pec c _ buf (burst p e hp he hl)⟩

end C02
end Mctp
