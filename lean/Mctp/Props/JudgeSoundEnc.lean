/-
Soundness of the executable judge for the transmit path and the round trip: judging the MODEL's own
encoder observation never yields `fail` (at worst `known:D5` / `known:D2` / `known:D3`).
Both theorems hold unconditionally for the judge as it stands.

History.  Against the first version of `Spec/Judge.lean` both statements were false; three clauses were stricter
than what is proved of the model, all on calls outside the documented argument shapes (`Spec.argsOk`) or outside
the Rust API's types, and the judge was corrected:
 1. "C06", `.ok` clause: `reqRouting es` with `es.length % 4 ≠ 0`, `es.length < 32` (the model sends whole entries
    only, the judge compared with all of `es`; verdict on the model was `fail:body`, e.g. `es = [0x01]`).
    Now: `if !argsOk e then .na`.
 2. "C04" and "C16" `.panic` clauses: `respVendor cc sel vid` with `vid.length ≥ 246` (the model panics for every
    `vid.length > 7` before any size check, the judge demanded a refusal because `messageLen > 250`; verdicts were
    `fail:oversize-not-refused` / `fail:oversize-panics`).  Now both clauses require `argsOk e`.
 3. round trip: a response call whose completion-code argument is a byte ≥ 6 (not a `CompletionCode`): the model's
    decoder panics (`unreachable!`, finding D10; verdict was `fail:error-response-not-reported`, e.g. `respVersion 6`).
    Now: `if 5 < cc.toNat then .na`.
-/
import Mctp.Props.C01
import Mctp.Props.C03
import Mctp.Props.C04
import Mctp.Props.C05
import Mctp.Props.C06
import Mctp.Props.C07
import Mctp.Props.C08
import Mctp.Props.C16
import Mctp.Spec.Judge
import Mctp.Lemmas.JudgeSoundEnc
namespace Mctp
namespace JudgeSound
open Spec JSE

def isFailE : Spec.Verdict → Bool
  | .fail _ => true
  | _ => false

def specOfE (c : Ctx) : Spec.SpecSt := ⟨c.address, c.msgTypes, c.vendorIds, (c.reqEid, c.respEid), c.uuid⟩

theorem isFailE_chk {b : Bool} {w : String} (h : b = true) : isFailE (chk b w) = false := by
  subst h; rfl

theorem isFailE_and {a b : Verdict} (ha : isFailE a = false) (hb : isFailE b = false) :
    isFailE (a.and b) = false := by
  cases a <;> cases b <;> first | rfl | (cases ha; done) | (cases hb; done)

theorem enc_C03 (c : Ctx) (dst : B) (e : Enc) (buf : Bytes) :
    isFailE (judgeEnc "C03" (specOfE c) dst e buf (encode c dst e buf) buf) = false := by
  unfold judgeEnc; simp only []
  cases h : encode c dst e buf with
  | ok r =>
    obtain ⟨b, n⟩ := r
    obtain ⟨h1, h2⟩ := C03.pec c dst e buf b n h
    simp only []
    exact isFailE_chk (by rw [h1, h2]; rfl)
  | err u => rfl
  | panic p => rfl

theorem enc_C05 (c : Ctx) (dst : B) (e : Enc) (buf : Bytes) :
    isFailE (judgeEnc "C05" (specOfE c) dst e buf (encode c dst e buf) buf) = false := by
  unfold judgeEnc; simp only []
  cases h : encode c dst e buf with
  | ok r =>
    obtain ⟨b, n⟩ := r
    simp only []
    exact isFailE_chk (C05.transport c dst e buf b n h)
  | err u => rfl
  | panic p => rfl

theorem enc_C04 (c : Ctx) (dst : B) (e : Enc) (buf : Bytes) :
    isFailE (judgeEnc "C04" (specOfE c) dst e buf (encode c dst e buf) buf) = false := by
  unfold judgeEnc; simp only []
  have hs : (specOfE c).eids.2 = c.respEid := rfl
  rw [hs]
  cases h : encode c dst e buf with
  | ok r =>
    obtain ⟨b, n⟩ := r
    simp only []
    have h1 := C04.frame c dst e buf b n h
    have h2 := (C04.length_bound c dst e buf b n h).2
    have h3 := (C16.written_exactly c dst e buf b n h).1
    obtain ⟨pkt, -, -, h4, -⟩ := C16.ok_inv c dst e buf b n h
    have h5 : n ≤ b.length := by omega
    apply isFailE_chk
    have ha : (specOfE c).addr = c.address := rfl
    rw [ha, h1]
    simp [h2, h5]
  | err u =>
    simp only []
    cases messageLen c.respEid e with
    | none => rfl
    | some m => simp only []; split <;> rfl
  | panic p =>
    simp only []
    cases hm : messageLen c.respEid e with
    | none => rfl
    | some m =>
      simp only []
      have hc : (decide (250 < m) && argsOk e) = false := by
        rcases encode_panic_cases h with hst | ⟨q, hq⟩ | ⟨-, t, hd, d, hb, hf, -⟩
        · rw [(stub_none hst c.respEid).1] at hm; cases hm
        · rw [body_panic c e q hq]; simp
        · have hle : m ≤ 250 := by
            rcases messageLen_of_body hb hm with h1 | ⟨-, h1⟩ <;> omega
          simp; omega
      rw [if_neg (by rw [hc]; simp)]
      rfl

theorem enc_C06 (c : Ctx) (dst : B) (e : Enc) (buf : Bytes) :
    isFailE (judgeEnc "C06" (specOfE c) dst e buf (encode c dst e buf) buf) = false := by
  unfold judgeEnc; simp only []
  cases hr : reqBody e with
  | none => cases encode c dst e buf <;> rfl
  | some body =>
    cases h : encode c dst e buf with
    | ok r =>
      obtain ⟨b, n⟩ := r
      simp only []
      cases ha : argsOk e with
      | false => rfl
      | true =>
        rw [if_neg (by simp)]
        by_cases hq : ∃ a t, e = .reqQueryHop a t
        · obtain ⟨a, t, rfl⟩ := hq
          have hb : body = [0x80#8, 0x0F#8, a, t] := by
            have : reqBody (.reqQueryHop a t) = some [0x80#8, 0x0F#8, a, t] := rfl
            rw [this] at hr; exact (Option.some.inj hr).symm
          subst hb
          rw [C06.query_hop_code c dst a t buf b n h]
          simp
          rfl
        · have hq' : ∀ a t, e ≠ .reqQueryHop a t := fun a t he => hq ⟨a, t, he⟩
          rw [C06.body_partial c dst e buf b body n hq' ha hr h, if_pos (bytes_beq_self body)]
          rfl
    | err u =>
      simp only []
      have hc : (documentedInvalid e || !argsOk e) = true := by
        rcases encode_err_cases h with hdi | ⟨-, t, hd, d, hb, hbig⟩
        · rw [hdi]; rfl
        · cases ha : argsOk e
          · simp
          · have := reqBody_len ha hr hb
            omega
      rw [if_pos hc]; rfl
    | panic p =>
      simp only []
      have hc : (documentedInvalid e || !argsOk e || decide (buf.length < 10 + body.length)) = true := by
        rcases encode_panic_cases h with hst | ⟨q, hq⟩ | ⟨-, t, hd, d, hb, -, hsh⟩
        · rw [(stub_none hst 0#8).2.1] at hr; cases hr
        · rw [body_panic c e q hq]; simp
        · cases ha : argsOk e
          · simp
          · have := (reqBody_len ha hr hb).1
            have : buf.length < 10 + body.length := by omega
            simp [this]
      rw [if_pos hc]; rfl

theorem enc_C07 (c : Ctx) (dst : B) (e : Enc) (buf : Bytes) :
    isFailE (judgeEnc "C07" (specOfE c) dst e buf (encode c dst e buf) buf) = false := by
  unfold judgeEnc; simp only []
  have hs : (specOfE c).eids.2 = c.respEid := rfl
  rw [hs]
  cases hf : respFields c.respEid e with
  | none => cases encode c dst e buf <;> rfl
  | some x =>
    obtain ⟨cmd, cc, fields⟩ := x
    cases h : encode c dst e buf with
    | ok r =>
      obtain ⟨b, n⟩ := r
      simp only []
      rw [C07.header c dst e buf b fields cmd cc n hf h, C07.body_any_cc c dst e buf b fields cmd cc n hf h]
      apply isFailE_and
      · exact isFailE_chk (bytes_beq_self _)
      · split
        · exact isFailE_chk (bytes_beq_self _)
        · rfl
    | err u =>
      simp only []
      have hc : (documentedInvalid e || !argsOk e) = true := by
        rcases encode_err_cases h with hdi | ⟨-, t, hd, d, hb, hbig⟩
        · rw [hdi]; rfl
        · cases ha : argsOk e
          · simp
          · have := respFields_len hf hb
            have := respFields_small ha hf hb
            omega
      rw [if_pos hc]; rfl
    | panic p =>
      simp only []
      have hc : (documentedInvalid e || !argsOk e || decide (buf.length < 13 + fields.length)) = true := by
        rcases encode_panic_cases h with hst | ⟨q, hq⟩ | ⟨-, t, hd, d, hb, -, hsh⟩
        · rw [(stub_none hst c.respEid).2.2.1] at hf; cases hf
        · rw [body_panic c e q hq]; simp
        · have := respFields_len hf hb
          have : buf.length < 13 + fields.length := by omega
          simp [this]
      rw [if_pos hc]; rfl

/-- the clause shared by both arms of "C08" -/
theorem c08_inner (c : Ctx) (dst : B) (e : Enc) (buf : Bytes) (o : EncObs) :
    encode c dst e buf = o → isFailE (match o, vendorFrame e with
      | .ok (b, n), some fr => chk (message (b.take n) == fr) "frame"
      | .err _, some fr => if decide (fr.length ≤ 250) then .fail "valid-message-refused" else .na
      | .panic _, some fr =>
        if decide (fr.length ≤ 250) && decide (9 + fr.length < buf.length) then .fail "valid-message-panics" else .na
      | _, _ => .na) = false := by
  intro ho
  subst ho
  cases hv : vendorFrame e with
  | none => cases encode c dst e buf <;> rfl
  | some fr =>
    cases h : encode c dst e buf with
    | ok r =>
      obtain ⟨b, n⟩ := r
      simp only []
      rw [C08.frame c dst e buf b fr n hv h]
      exact isFailE_chk (bytes_beq_self _)
    | err u =>
      simp only []
      have hc : ¬ (decide (fr.length ≤ 250) = true) := by
        rcases encode_err_cases h with hdi | ⟨-, t, hd, d, hb, hbig⟩
        · have := (body_err_iff c e).mpr hdi
          exfalso
          cases e <;> first | (cases hv; done) | (cases hdi; done) | skip
          rename_i v msg
          simp only [documentedInvalid, Bool.not_eq_true', Bool.or_eq_false_iff, beq_eq_false_iff_ne] at hdi
          have : vendorFrame (.vendorDefined v msg) = none := by
            show (if v.format = 0#8 then _ else if v.format = 1#8 then _ else none) = none
            rw [if_neg hdi.1, if_neg hdi.2]
          rw [this] at hv; cases hv
        · have := vendorFrame_len hv hb
          simp; omega
      rw [if_neg hc]; rfl
    | panic p =>
      simp only []
      have hc : ¬ ((decide (fr.length ≤ 250) && decide (9 + fr.length < buf.length)) = true) := by
        rcases encode_panic_cases h with hst | ⟨q, hq⟩ | ⟨-, t, hd, d, hb, -, hsh⟩
        · rw [(stub_none hst 0#8).2.2.2] at hv; cases hv
        · obtain ⟨cc, sel, vid, rfl, -⟩ := body_panic_inv hq
          cases hv
        · have := vendorFrame_len hv hb
          simp; omega
      rw [if_neg hc]; rfl

theorem enc_C08 (c : Ctx) (dst : B) (e : Enc) (buf : Bytes) :
    isFailE (judgeEnc "C08" (specOfE c) dst e buf (encode c dst e buf) buf) = false := by
  unfold judgeEnc; simp only []
  generalize ho : encode c dst e buf = o
  cases e
  case vendorDefined v msg =>
    simp only []
    by_cases hfm : v.format = 0#8 ∨ v.format = 1#8
    · rw [if_pos hfm]; exact c08_inner c dst _ buf o ho
    · rw [if_neg hfm]
      rw [C08.bad_format c dst v msg buf (fun h => hfm (.inl h)) (fun h => hfm (.inr h))] at ho
      subst ho
      exact isFailE_chk (bytes_beq_self _)
  all_goals (simp only []; exact c08_inner c dst _ buf o ho)

theorem enc_C16 (c : Ctx) (dst : B) (e : Enc) (buf : Bytes) :
    isFailE (judgeEnc "C16" (specOfE c) dst e buf (encode c dst e buf) buf) = false := by
  unfold judgeEnc; simp only []
  have hs : (specOfE c).eids.2 = c.respEid := rfl
  rw [hs]
  cases h : encode c dst e buf with
  | ok r =>
    obtain ⟨b, n⟩ := r
    simp only []
    obtain ⟨h1, h2⟩ := C16.written_exactly c dst e buf b n h
    obtain ⟨pkt, -, -, h3, -⟩ := C16.ok_inv c dst e buf b n h
    have h4 : documentedInvalid e = false := by
      cases hdi : documentedInvalid e
      · rfl
      · rw [C16.refuse_documented c dst e buf hdi] at h; cases h
    apply isFailE_and
    · apply isFailE_chk
      rw [h1, h2]
      simp [h3]
    · apply isFailE_chk
      rw [h4]; rfl
  | err u =>
    simp only []
    apply isFailE_and
    · exact isFailE_chk (bytes_beq_self _)
    · cases hdi : documentedInvalid e
      · rw [if_neg (by simp)]
        cases hm : messageLen c.respEid e with
        | none => rfl
        | some m =>
          simp only [Option.map_some]
          by_cases hle : m ≤ 250
          · have ha : argsOk e = false := by
              rcases encode_err_cases h with hdi' | ⟨-, t, hd, d, hb, hbig⟩
              · rw [hdi] at hdi'; cases hdi'
              · rcases messageLen_of_body hb hm with h1 | ⟨h1, -⟩
                · omega
                · exact h1
            simp [hle, ha]
            rfl
          · simp [hle]
            rfl
      · rw [if_pos rfl]; rfl
  | panic p =>
    simp only []
    rw [isStubCall_eq]
    rcases encode_panic_cases h with hst | ⟨q, hq⟩ | ⟨hst, t, hd, d, hb, hf, hsh⟩
    · rw [if_pos hst]; rfl
    · obtain ⟨cc, sel, vid, rfl, h7⟩ := body_panic_inv hq
      rw [messageLen_respVendor]
      have ha : argsOk (.respVendor cc sel vid) = false := by simp [argsOk]; omega
      rw [ha]
      by_cases hle : 5 + vid.length ≤ 250 <;> simp [Enc.isStub, documentedInvalid, hle] <;> rfl
    · have hdi : documentedInvalid e = false := by
        cases hdi : documentedInvalid e
        · rfl
        · rw [(body_err_iff c e).mpr hdi] at hb; cases hb
      rw [hst, hdi]
      simp only [Bool.false_eq_true, if_false]
      cases hm : messageLen c.respEid e with
      | none => rfl
      | some m =>
        simp only [Option.map_some]
        have hle : m ≤ 250 := by
          rcases messageLen_of_body hb hm with h1 | ⟨-, h1⟩ <;> omega
        have hc : (argsOk e && decide (m + 9 ≤ buf.length)) = false := by
          cases ha : argsOk e
          · rfl
          · rcases messageLen_of_body hb hm with h1 | ⟨h1, -⟩
            · simp; omega
            · rw [ha] at h1; cases h1
        simp [hle, hc]
        rfl

private theorem judgeEnc_other (prop : String) (s : SpecSt) (dst : B) (e : Enc) (buf : Bytes) (o : EncObs) (eb : Bytes)
    (h3 : prop ≠ "C03") (h4 : prop ≠ "C04") (h5 : prop ≠ "C05") (h6 : prop ≠ "C06") (h7 : prop ≠ "C07")
    (h8 : prop ≠ "C08") (h16 : prop ≠ "C16") :
    judgeEnc prop s dst e buf o eb = .na := by
  unfold judgeEnc
  simp only []

/-- encoder calls: every property, context, destination, call and buffer; on an error the model
reports the caller's buffer unchanged -/
theorem enc_model (prop : String) (c : Ctx) (dst : B) (e : Enc) (buf : Bytes) :
    isFailE (Spec.judgeEnc prop (specOfE c) dst e buf (encode c dst e buf) buf) = false := by
  by_cases h3 : prop = "C03"
  · subst h3; exact enc_C03 c dst e buf
  by_cases h4 : prop = "C04"
  · subst h4; exact enc_C04 c dst e buf
  by_cases h5 : prop = "C05"
  · subst h5; exact enc_C05 c dst e buf
  by_cases h6 : prop = "C06"
  · subst h6; exact enc_C06 c dst e buf
  by_cases h7 : prop = "C07"
  · subst h7; exact enc_C07 c dst e buf
  by_cases h8 : prop = "C08"
  · subst h8; exact enc_C08 c dst e buf
  by_cases h16 : prop = "C16"
  · subst h16; exact enc_C16 c dst e buf
  rw [judgeEnc_other prop _ dst e buf _ buf h3 h4 h5 h6 h7 h8 h16]
  rfl

private theorem cc_cases : ∀ cc : B, cc.toNat ≤ 5 → cc ≠ 0x00#8 →
    cc = CC.error.toByte ∨ cc = CC.errorInvalidData.toByte ∨ cc = CC.errorInvalidLength.toByte ∨
      cc = CC.errorNotReady.toByte ∨ cc = CC.errorUnsupportedCmd.toByte := by
  apply forall_byte; decide +kernel

private theorem d3_respCc {e : Enc} (h : rtClass e = .d3) : respCc e = none := by
  cases e <;> first | rfl | (cases h; done)

private theorem d2_inv {e : Enc} (h : rtClass e = .d2) : ∃ cc et it fair, e = .respGetEid cc et it fair := by
  cases e <;> first | (cases h; done) | exact ⟨_, _, _, _, rfl⟩

/-- round trip: the model's encoder output handed to the model's decoder -/
theorem rt_model (c : Ctx) (dst : B) (e : Enc) (buf buf' : Bytes) (n : Nat)
    (ha : Spec.argsOk e = true) (h : encode c dst e buf = .ok (buf', n)) :
    isFailE (Spec.judgeRt (specOfE c) e (buf'.take n) (decode (buf'.take n)) false) = false := by
  have hlen : (buf'.take n).length = n := by
    obtain ⟨h1, -⟩ := C16.written_exactly c dst e buf buf' n h
    obtain ⟨pkt, -, -, h3, -⟩ := C16.ok_inv c dst e buf buf' n h
    rw [List.length_take]; omega
  -- the round trip where it holds
  have hholds : ∀ t pl, rtClass e = .holds → rtPayload c.respEid e = some (t, pl) →
      ∃ off len, decode (buf'.take n) = .ok (t, off, len) ∧
        (!false && t == t && off == (buf'.take n).length - 1 - pl.length && len == pl.length &&
          sub (buf'.take n) off (off + len) == pl) = true := by
    intro t pl hcls hx
    obtain ⟨h1, h2, h3⟩ := C01.roundtrip_partial c dst e buf buf' pl n t ha hcls hx h
    refine ⟨_, _, h1, ?_⟩
    have : n - 1 - pl.length + pl.length = n - 1 := by omega
    rw [hlen, this, h2]
    simp
  unfold judgeRt; simp only []
  have hs : (specOfE c).eids.2 = c.respEid := rfl
  rw [hs]
  cases hr : respCc e with
  | some cc =>
    simp only []
    by_cases h5 : 5 < cc.toNat
    · rw [if_pos h5]; rfl
    rw [if_neg h5]
    by_cases hz : cc = 0x00#8
    · subst hz
      rw [if_neg (fun hne => hne rfl)]
      cases hp : rtPayload c.respEid e with
      | none => rfl
      | some x =>
        obtain ⟨t, pl⟩ := x
        cases hcls : rtClass e with
        | holds =>
          obtain ⟨off, len, hd, hchk⟩ := hholds t pl hcls hp
          rw [hd]
          exact isFailE_chk hchk
        | d2 =>
          obtain ⟨cc', et, it, fair, rfl⟩ := d2_inv hcls
          have h0 : cc' = 0x00#8 := Option.some.inj hr
          subst h0
          rw [C01.geteid_response_rejected c dst et it fair buf buf' n h]
          rfl
        | d3 => rw [d3_respCc hcls] at hr; exact absurd hr (by simp)
    · rw [if_pos hz]
      rcases cc_cases cc (by omega) hz with rfl | rfl | rfl | rfl | rfl
      · rw [C01.response_error c dst e buf buf' n .error hr (by decide) h]; rfl
      · rw [C01.response_error c dst e buf buf' n .errorInvalidData hr (by decide) h]; rfl
      · rw [C01.response_error c dst e buf buf' n .errorInvalidLength hr (by decide) h]; rfl
      · rw [C01.response_error c dst e buf buf' n .errorNotReady hr (by decide) h]; rfl
      · rw [C01.response_error c dst e buf buf' n .errorUnsupportedCmd hr (by decide) h]; rfl
  | none =>
    simp only []
    cases hp : rtPayload c.respEid e with
    | none => rfl
    | some x =>
      obtain ⟨t, pl⟩ := x
      cases hcls : rtClass e with
      | holds =>
        obtain ⟨off, len, hd, hchk⟩ := hholds t pl hcls hp
        rw [hd]
        exact isFailE_chk hchk
      | d2 =>
        obtain ⟨cc', et, it, fair, rfl⟩ := d2_inv hcls
        exact absurd hr (by simp [respCc])
      | d3 =>
        rw [C01.request_unimpl c dst e buf buf' n hcls ha h]
        rfl

end JudgeSound
end Mctp
