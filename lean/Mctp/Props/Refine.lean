/-
Refinement of the whole receive path to reference functions on the bytes: the model's decoder
equals `Spec.refDecode` for EVERY byte string (so C09, C10's decoder part and C02's decoder part are
corollaries), and the request processor is the reference decoder followed by a reference response.
-/
import Mctp.Lemmas.Process
import Mctp.Lemmas.DecodeNF
import Mctp.Spec.Ref
import Mctp.Spec.Judge
namespace Mctp
namespace Refine

/-! ### the decoder -/

/-- the library's response length table, all entries -/
theorem respDataLen_lib : ∀ cmd : B, Spec.respUnimpl cmd = false →
    respDataLen cmd = .ok ((Spec.respFixedLib cmd).getD 0) ∧ Spec.respFixedLib cmd ≠ some 0 := by
  apply forall_byte; decide +kernel

/-- the completion-code conversion on a non-zero byte -/
theorem ccOf_ref : ∀ b : B, b ≠ 0x00#8 →
    ccOf b = if 6 ≤ b.toNat then .panic ⟨.unreachable, .control⟩ else .ok (Spec.ccOfByte b) := by
  apply forall_byte; decide +kernel

/-- the PEC and length checks after the table lookup, in specification terms -/
theorem ctrlFin_ref (p : Bytes) (off : Nat) (r : Bool) (o : Option Nat) (hne : p ≠ []) (ho : o ≠ some 0) :
    ctrlFin p (calcPec p) off r (o.getD 0) =
      if !Spec.pecOk p then .err (.control, .ctl .pec)
      else if !Spec.lenFits o (p.length - 10 - off) then .err (.control, .ctl .len)
      else .ok ⟨Spec.cmdOf p, r, off, p.length - 10 - off⟩ := by
  unfold ctrlFin
  rw [pecOk_eq p hne, lenFits_eq _ _ ho]
  by_cases h1 : byteAt p (p.length - 1) = calcPec p
  · by_cases h2 : o.getD 0 > 0 ∧ p.length - 10 - off ≠ o.getD 0
    · simp [h1, h2]
    · simp [h1, h2]
  · simp [h1]

/-- total characterisation of the decoder -/
theorem decode_eq_ref (p : Bytes) : decode p = Spec.refDecode p := by
  rw [Mctp.decode_nf]
  unfold Spec.refDecode
  by_cases h10 : p.length < 10
  · rw [if_pos h10, if_pos h10]
  rw [if_neg h10, if_neg h10]
  have hne : p ≠ [] := by intro h; subst h; simp at h10
  cases hh : Spec.hdrOk p
  · rfl
  simp only [Bool.not_true, Bool.false_eq_true, if_false]
  cases hc : Spec.isControl p
  · simp only [Bool.not_false, if_true, Bool.false_eq_true, if_false]
    unfold vendorArm
    rw [pecOk_eq p hne]
    by_cases h1 : byteAt p (p.length - 1) = calcPec p
    · have : p.length - 1 - 9 = p.length - 10 := by omega
      simp [h1, this]
    · simp [h1]
  simp only [Bool.not_true, Bool.false_eq_true, if_false, if_true]
  rw [getCtrl_drop9 p _ (by omega)]
  by_cases h12 : p.length < 12
  · rw [if_pos h12, if_pos h12]; rfl
  rw [if_neg h12, if_neg h12]
  cases hr : Spec.isRequest p
  · simp only [Bool.false_eq_true, if_false]
    by_cases h13 : p.length < 13
    · rw [if_pos h13, if_pos h13]; rfl
    rw [if_neg h13, if_neg h13]
    by_cases hcc : Spec.ccByte p = 0x00#8
    · rw [if_neg (by simpa using hcc), if_neg (by simpa using hcc)]
      cases hu : Spec.respUnimpl (Spec.cmdOf p)
      · obtain ⟨ht, h0⟩ := respDataLen_lib _ hu
        rw [ht, Out.bind_ok, ctrlFin_ref p 3 false _ hne h0]
        have : p.length - 10 - 3 = p.length - 13 := by omega
        rw [this]
        simp only [Bool.false_eq_true, if_false]
        split
        · rfl
        · split <;> rfl
      · rw [respDataLen_unimpl _ hu]; rfl
    · rw [if_pos hcc, if_pos hcc, ccOf_ref _ hcc]
      split <;> rfl
  · simp only [if_true]
    cases hu : Spec.reqUnimpl (Spec.cmdOf p)
    · obtain ⟨ht, h0⟩ := reqDataLen_tbl _ hu
      rw [ht, Out.bind_ok, ctrlFin_ref p 2 true _ hne h0]
      have : p.length - 10 - 2 = p.length - 12 := by omega
      rw [this]
      simp only [Bool.false_eq_true, if_false]
      split
      · rfl
      · split <;> rfl
    · rw [reqDataLen_unimpl _ hu]; rfl

/-- the reference decoder accepts only PEC-correct input -/
theorem ref_ok_pec (p : Bytes) (r : Dec) (h : Spec.refDecode p = .ok r) : Spec.pecOk p = true := by
  rw [← decode_eq_ref] at h
  obtain ⟨t, off, len⟩ := r
  obtain ⟨h10, _, hp, _⟩ := decode_ok_inv h
  have hne : p ≠ [] := by intro h; subst h; simp at h10
  rw [pecOk_eq p hne, hp]; simp

/-- the reference decoder panics exactly on the finding classes -/
theorem ref_panic_iff (p : Bytes) (k : Panic) :
    Spec.refDecode p = .panic k ↔ Spec.decodePanicClass p = some k := by
  rw [← decode_eq_ref]; exact Proc.decode_panic_iff p k

/-! ### the request processor -/

/-- an accepted request whose `dispatch` writes the control response `data` for the request's command:
the five response clauses of `process_eq_ref` -/
theorem answered (c : Ctx) (p buf : Bytes) (s : Spec.SpecSt) (d : Dec) (c' : Ctx) (n : Nat) (cmdb : B) (data : Bytes)
    (ha : Spec.isAcceptedRequest p = true) (hu : Spec.reqUnimpl (byteAt p 10) = false)
    (hdd : d = (.control, 11, p.length - 12))
    (hd : dispatch c (byteAt p 10) (byteAt p 6) (fun i => byteAt p (11 + i)) buf =
      (c', .ok n, Proc.respPkt c.address (byteAt p 6) cmdb data ++ buf.drop n))
    (hn : n = 12 + data.length) (hcmd : cmdb = byteAt p 10) (h1 : 1 ≤ data.length) (h247 : data.length ≤ 247)
    (hbody : Spec.expectedResponse s p = some (0x00#8 :: cmdb :: data)) :
    ∃ body, Spec.expectedResponse s p = some body ∧
      (process c p buf).2.1 = .ok (d, some (10 + body.length)) ∧
      Spec.respBody (process c p buf).2.2 (10 + body.length) = body ∧
      Spec.respondsTo c.address p ((process c p buf).2.2.take (10 + body.length)) (10 + body.length) = true ∧
      (process c p buf).2.2.drop (10 + body.length) = buf.drop (10 + body.length) := by
  subst hn hcmd hdd
  rw [Proc.process_of_dispatch c p buf ha hu _ _ _ hd]
  refine ⟨_, hbody, ?_⟩
  have e : 10 + (0x00#8 :: byteAt p 10 :: data).length = 12 + data.length := by
    simp only [List.length_cons]; omega
  rw [e]
  have ht := Proc.respPkt_take c.address (byteAt p 6) (byteAt p 10) data (buf.drop (12 + data.length))
  refine ⟨rfl, ?_, ?_, ?_⟩
  · show Spec.sub (List.take _ _) 9 (12 + data.length - 1) = _
    rw [ht]
    have e2 : 12 + data.length - 1 = 11 + data.length := by omega
    rw [e2]
    have := Proc.sub_respPkt c.address (byteAt p 6) (byteAt p 10) data []
    rwa [List.append_nil] at this
  · show Spec.respondsTo _ _ (List.take _ _) _ = true
    rw [ht]
    match data, h1, h247 with
    | cc :: rest, _, h247 =>
      have e3 : 12 + (cc :: rest).length = 13 + rest.length := by simp only [List.length_cons]; omega
      rw [e3]
      exact Proc.respondsTo_respPkt c.address p cc rest (by simp only [List.length_cons] at h247; omega)
  · show List.drop _ (_ ++ _) = _
    exact List.drop_left' (Proc.respPkt_length _ _ _ _)

/-- `Spec.expectedResponse` with the `let` and `Spec.cmdOf` unfolded -/
theorem expected_unfold (s : Spec.SpecSt) (p : Bytes) :
    Spec.expectedResponse s p =
      if byteAt p 10 = 0x01#8 then
        if byteAt p 11 = 0x00#8 ∨ byteAt p 11 = 0x01#8 then some [0x00#8, 0x01#8, 0x00#8, 0x00#8, byteAt p 12, 0x00#8]
        else if byteAt p 11 = 0x03#8 then some [0x00#8, 0x01#8, 0x02#8, 0x00#8, s.eids.2, 0x00#8]
        else none
      else if byteAt p 10 = 0x02#8 then some [0x00#8, 0x02#8, 0x00#8, s.eids.2, 0x00#8, 0x00#8]
      else if byteAt p 10 = 0x03#8 then some ([0x00#8, 0x03#8, 0x00#8] ++ s.uuid)
      else if byteAt p 10 = 0x04#8 then some [0x00#8, 0x04#8, 0x00#8, 0x01#8, 0xF1#8, 0xF3#8, 0xF1#8, 0x00#8]
      else if byteAt p 10 = 0x05#8 then some ([0x00#8, 0x05#8, 0x00#8, BitVec.ofNat 8 s.types.length] ++ s.types)
      else if byteAt p 10 = 0x06#8 then
        match s.vendors[(byteAt p 11).toNat]? with
        | some v => some ([0x00#8, 0x06#8, 0x00#8, Spec.nextSelector (byteAt p 11).toNat s.vendors.length] ++ Spec.encodeSet v)
        | none => none
      else none := rfl

/-- total characterisation of the request processor under a valid configuration and a response
buffer of at least 64 bytes: reference decoding, then — for an answerable request — the
specification's response (`Spec.expectedResponse`) framed back to the requester -/
theorem process_eq_ref (c : Ctx) (p buf : Bytes) (hc : Spec.configOk c = true) (hb : 64 ≤ buf.length) :
    let s : Spec.SpecSt := ⟨c.address, c.msgTypes, c.vendorIds, (c.reqEid, c.respEid), c.uuid⟩
    let r := process c p buf
    (match Spec.refDecode p with
     | .err e => r = (c, .err e, buf)
     | .panic k => r = (c, .panic k, buf)
     | .ok d =>
       if Spec.isControl p && Spec.isRequest p then
         match Spec.dispatchPanicClass c.vendorIds.length p with
         | some k => r.2.1 = .panic k ∧ r.2.2 = buf
         | none =>
           ∃ body, Spec.expectedResponse s p = some body ∧
             r.2.1 = .ok (d, some (10 + body.length)) ∧
             Spec.respBody r.2.2 (10 + body.length) = body ∧
             Spec.respondsTo c.address p (r.2.2.take (10 + body.length)) (10 + body.length) = true ∧
             r.2.2.drop (10 + body.length) = buf.drop (10 + body.length) ∧
             (r.1.reqEid, r.1.respEid) = Spec.eidsStep (c.reqEid, c.respEid) (.process p buf)
       else r = (c, .ok (d, none), buf)) := by
  intro s r
  rw [← decode_eq_ref p]
  have hpd : r = _ := Proc.process_eq_decode c p buf
  cases hd : decode p with
  | err e => rw [hd] at hpd; exact hpd
  | panic k => rw [hd] at hpd; exact hpd
  | ok d =>
    rw [hd] at hpd
    show if (Spec.isControl p && Spec.isRequest p) = true then _ else _
    cases hcr : (Spec.isControl p && Spec.isRequest p)
    · rw [hcr] at hpd; exact hpd
    · rw [if_pos rfl]
      simp only [Bool.and_eq_true] at hcr
      obtain ⟨ha, hu, hdd⟩ := Proc.decode_ok_request p d hd hcr.1 hcr.2
      have ho := Proc.dispatch_outcome c (byteAt p 10) (byteAt p 6) (fun i => byteAt p (11 + i)) buf hc hb hu
      rw [Proc.dispatchPanicClass_eq, if_pos ha]
      simp only [Nat.add_zero] at ho
      cases hx : Proc.dispPanic c.vendorIds.length (byteAt p 10) (byteAt p 11) with
      | some k =>
        rw [hx] at ho
        obtain ⟨c', hk⟩ := ho
        have := Proc.process_of_dispatch c p buf ha hu _ _ _ hk
        show (process c p buf).2.1 = _ ∧ (process c p buf).2.2 = _
        rw [this]; exact ⟨rfl, rfl⟩
      | none =>
        have heid : (r.1.reqEid, r.1.respEid) = Spec.eidsStep (c.reqEid, c.respEid) (.process p buf) := by
          show ((process c p buf).1.reqEid, (process c p buf).1.respEid) = _
          rw [Proc.process_eids]; rfl
        suffices h : ∃ body, Spec.expectedResponse s p = some body ∧
            (process c p buf).2.1 = .ok (d, some (10 + body.length)) ∧
            Spec.respBody (process c p buf).2.2 (10 + body.length) = body ∧
            Spec.respondsTo c.address p ((process c p buf).2.2.take (10 + body.length)) (10 + body.length) = true ∧
            (process c p buf).2.2.drop (10 + body.length) = buf.drop (10 + body.length) by
          obtain ⟨body, h1, h2, h3, h4, h5⟩ := h
          exact ⟨body, h1, h2, h3, h4, h5, heid⟩
        obtain ⟨ht, hfmt, hv1, h255, huu⟩ := (Proc.configOk_iff c).mp hc
        rcases Proc.cmdCase (byteAt p 10) with ⟨h, e⟩ | ⟨h, e⟩ | ⟨h, e⟩ | ⟨h, e⟩ | ⟨h, e⟩ | ⟨h, e⟩ | ⟨h, e⟩ | ⟨h, hne⟩
        · rw [e] at hx; simp [Proc.dispPanic] at hx
        · rcases Proc.op_cases (byteAt p 11) with hop | hop | hop | hop | hop
          · have hd' := Proc.dispatch_setEid_assign c (byteAt p 10) (byteAt p 6) (fun i => byteAt p (11 + i)) buf h (.inl hop) (by omega)
            refine answered c p buf s d _ _ _ _ ha hu hdd hd' rfl e.symm (by simp) (by simp) ?_
            rw [expected_unfold, if_pos e, if_pos (.inl hop)]
          · have hd' := Proc.dispatch_setEid_assign c (byteAt p 10) (byteAt p 6) (fun i => byteAt p (11 + i)) buf h (.inr hop) (by omega)
            refine answered c p buf s d _ _ _ _ ha hu hdd hd' rfl e.symm (by simp) (by simp) ?_
            rw [expected_unfold, if_pos e, if_pos (.inr hop)]
          · rw [e, hop] at hx; simp [Proc.dispPanic] at hx
          · have hd' := Proc.dispatch_setEid_discovered c (byteAt p 10) (byteAt p 6) (fun i => byteAt p (11 + i)) buf h hop (by omega)
            refine answered c p buf s d _ _ _ _ ha hu hdd hd' rfl e.symm (by simp) (by simp) ?_
            rw [expected_unfold, if_pos e, if_neg (by rw [hop]; decide), if_pos hop]
          · rw [e] at hx
            have n2 : byteAt p 11 ≠ 2#8 := by intro h0; rw [h0] at hop; simp at hop
            simp [Proc.dispPanic, n2, hop] at hx
        · have hd' := Proc.dispatch_getEid_ok c (byteAt p 10) (byteAt p 6) (fun i => byteAt p (11 + i)) buf h (by omega)
          refine answered c p buf s d _ _ _ _ ha hu hdd hd' rfl e.symm (by simp) (by simp) ?_
          rw [expected_unfold, e]; rfl
        · have hd' := Proc.dispatch_uuid_ok c (byteAt p 10) (byteAt p 6) (fun i => byteAt p (11 + i)) buf h huu (by omega)
          refine answered c p buf s d _ _ _ _ ha hu hdd hd' (by simp [huu]) e.symm (by simp) (by simp [huu]) ?_
          rw [expected_unfold, e]; rfl
        · have hd' := Proc.dispatch_version_ok c (byteAt p 10) (byteAt p 6) (fun i => byteAt p (11 + i)) buf h (by omega)
          refine answered c p buf s d _ _ _ _ ha hu hdd hd' rfl e.symm (by simp) (by simp) ?_
          rw [expected_unfold, e]; rfl
        · have hd' := Proc.dispatch_msgTypes_ok c (byteAt p 10) (byteAt p 6) (fun i => byteAt p (11 + i)) buf h ht (by omega)
          refine answered c p buf s d _ _ _ _ ha hu hdd hd' (by simp; omega) e.symm (by simp) (by simp; omega) ?_
          rw [expected_unfold, e]; rfl
        · rw [e] at hx
          have hff : byteAt p 11 ≠ 0xFF#8 := by intro h0; simp [Proc.dispPanic, h0] at hx
          have hlt : (byteAt p 11).toNat < c.vendorIds.length := by
            by_cases hn : c.vendorIds.length ≤ (byteAt p 11).toNat
            · simp [Proc.dispPanic, hff, hn] at hx
            · omega
          have hv : c.vendorIds[(byteAt p 11).toNat]? = some (c.vendorIds[(byteAt p 11).toNat]) :=
            List.getElem?_eq_getElem hlt
          obtain ⟨hf, hl⟩ := Proc.vendorField_eq _ (hfmt _ (List.getElem_mem hlt))
          have hd' := Proc.dispatch_vendor_ok c (byteAt p 10) (byteAt p 6) (fun i => byteAt p (11 + i)) buf h hff _ _ hv hf hl
            (by omega)
          simp only [Nat.add_zero] at hd'
          rw [Proc.nextSel_eq c _ hlt h255] at hd'
          refine answered c p buf s d _ _ _ _ ha hu hdd hd' (by simp; omega) e.symm (by simp) (by simp; omega) ?_
          rw [expected_unfold, e]
          show (match c.vendorIds[(byteAt p 11).toNat]? with
            | some v => some ([0x00#8, 0x06#8, 0x00#8, Spec.nextSelector (byteAt p 11).toNat c.vendorIds.length] ++ Spec.encodeSet v)
            | none => none) = _
          rw [hv]; rfl
        · obtain h78 := Proc.cmd78 _ h hu
          rcases h78 with h78 | h78 <;> rw [h78] at hx <;> simp [Proc.dispPanic] at hx

end Refine
end Mctp
