/-
End-to-end sessions between two contexts of the model: a requester encodes a request with the
library's encoder, the responder processes it, the requester decodes the response. These compose the
transmit path, the receive path and the processor; they go beyond the listed properties and show the
three parts agree with each other on the library's own traffic.
-/
import Mctp.Lemmas.Process
import Mctp.Spec.State
import Mctp.Spec.Api
namespace Mctp
namespace Session

/-! ### the three legs of a session -/

/-- a successful control-request encoder call wrote the request packet in normal form -/
theorem req_take (c1 : Ctx) (dst : B) (e : Enc) (buf buf' : Bytes) (n : Nat) (cmd : Cmd) (data : Bytes)
    (h : encode c1 dst e buf = .ok (buf', n))
    (hbody : ∀ t hd d, e.body c1 = .ok (t, hd, d) → t = .control ∧ hd = some (ctrlHeader true cmd) ∧ d = data) :
    buf'.take n = Proc.ctlPkt c1.address dst 0x80#8 cmd.toByte data := by
  obtain ⟨t, hd, d, hb, _, _, ht⟩ := Proc.encode_ok_take c1 dst e buf buf' n h
  obtain ⟨rfl, rfl, rfl⟩ := hbody t hd d hb
  rw [ht, Proc.ctlPkt_eq]
  rfl

theorem ctlPkt_bytes (a d rqb cmdb : B) (data : Bytes) :
    byteAt (Proc.ctlPkt a d rqb cmdb data) 6 = a ∧ byteAt (Proc.ctlPkt a d rqb cmdb data) 10 = cmdb ∧
    byteAt (Proc.ctlPkt a d rqb cmdb data) 5 = d ∧ byteAt (Proc.ctlPkt a d rqb cmdb data) 0 = (d &&& 0x7F#8) <<< 1 := by
  simp [Proc.ctlPkt, Proc.ctlPre, byteAt]

theorem ctlPkt_pay (a d rqb cmdb : B) (data : Bytes) (i : Nat) (hi : i < data.length) :
    byteAt (Proc.ctlPkt a d rqb cmdb data) (11 + i) = data.getD i 0 := by
  have : Proc.ctlPkt a d rqb cmdb data =
      [(d &&& 0x7F#8) <<< 1, 0x0F#8, BitVec.ofNat 8 (8 + data.length), (((a &&& 0x7F#8) <<< 1) ||| 1#8),
        0x01#8, d, a, 0xC8#8, 0x00#8, rqb, cmdb] ++ (data ++ [crc8 (Proc.ctlPre a d rqb cmdb data)]) := by
    simp [Proc.ctlPkt, Proc.ctlPre]
  rw [this]
  simp only [byteAt, List.getD_eq_getElem?_getD]
  rw [List.getElem?_append_right (by simp)]
  simp [List.getElem?_append_left hi]

/-- the responder's side: a request the library's encoder wrote, with a command that has a length-table
entry and the data length the table asks for, goes to `dispatch` -/
theorem process_request (c2 : Ctx) (a dst cmdb : B) (data rbuf : Bytes)
    (hu : Spec.reqUnimpl cmdb = false) (hf : Spec.lenFits (Spec.reqFixed cmdb) data.length = true)
    (c' : Ctx) (r : Out DErr Nat) (buf' : Bytes)
    (hd : dispatch c2 cmdb a (fun i => byteAt (Proc.ctlPkt a dst 0x80#8 cmdb data) (11 + i)) rbuf = (c', r, buf')) :
    process c2 (Proc.ctlPkt a dst 0x80#8 cmdb data) rbuf =
      (c', r.map (fun n => ((MsgType.control, 11, data.length), some n)), buf') := by
  obtain ⟨hh, hc, hp, h10, hr⟩ := Proc.ctlPkt_facts a dst 0x80#8 cmdb data
  obtain ⟨h6, _, _, _⟩ := ctlPkt_bytes a dst 0x80#8 cmdb data
  have hdec := Proc.decode_ctl_request a dst cmdb data
  rw [hu, hf] at hdec
  simp only [Bool.false_eq_true, if_false] at hdec
  obtain ⟨ha, hu', _⟩ := Proc.decode_ok_request _ _ hdec hc (by rw [hr]; decide)
  have hl : (Proc.ctlPkt a dst 0x80#8 cmdb data).length - 12 = data.length := by
    rw [Proc.ctlPkt_length]; omega
  have := Proc.process_of_dispatch c2 (Proc.ctlPkt a dst 0x80#8 cmdb data) rbuf ha hu' c' r buf'
    (by rw [h10, h6]; exact hd)
  rw [hl] at this
  exact this

/-- the requester's side: what a Success control response at the front of the response buffer looks like
and decodes to -/
theorem response_facts (a d cmdb : B) (rest tail : Bytes) (m : Nat) (hm : m = 13 + rest.length) :
    decode ((Proc.respPkt a d cmdb (0x00#8 :: rest) ++ tail).take m) =
      ((respDataLen cmdb).bind fun k =>
        if k > 0 ∧ rest.length ≠ k then .err (.control, .ctl .len) else .ok (.control, 12, rest.length)) ∧
    Spec.sub (Proc.respPkt a d cmdb (0x00#8 :: rest) ++ tail) 12 (m - 1) = rest ∧
    byteAt (Proc.respPkt a d cmdb (0x00#8 :: rest) ++ tail) 5 = d ∧
    byteAt (Proc.respPkt a d cmdb (0x00#8 :: rest) ++ tail) 6 = a ∧
    byteAt (Proc.respPkt a d cmdb (0x00#8 :: rest) ++ tail) 0 = (d &&& 0x7F#8) <<< 1 := by
  have hpk : Proc.respPkt a d cmdb (0x00#8 :: rest) = Proc.ctlPkt a d 0x00#8 cmdb (0x00#8 :: rest) := rfl
  have hl : (Proc.respPkt a d cmdb (0x00#8 :: rest)).length = 13 + rest.length := by
    rw [Proc.respPkt_length]; simp; omega
  have hm' : m = (Proc.respPkt a d cmdb (0x00#8 :: rest)).length := by omega
  refine ⟨?_, ?_, ?_, ?_, ?_⟩
  · rw [hm', List.take_left' rfl, hpk, Proc.decode_ctl_response]
    simp
  · have h1 : m - 1 ≤ (Proc.respPkt a d cmdb (0x00#8 :: rest)).length := by omega
    unfold Spec.sub
    rw [List.take_append_of_le_length h1]
    have := Proc.sub_ctlPkt_resp a d 0x00#8 cmdb 0x00#8 rest 12 (m - 1) rfl (by omega)
    unfold Spec.sub at this
    rw [hpk]; exact this
  · rw [Proc.byteAt_append_left _ _ _ (by omega), hpk]; exact (ctlPkt_bytes _ _ _ _ _).2.2.1
  · rw [Proc.byteAt_append_left _ _ _ (by omega), hpk]; exact (ctlPkt_bytes _ _ _ _ _).1
  · rw [Proc.byteAt_append_left _ _ _ (by omega), hpk]; exact (ctlPkt_bytes _ _ _ _ _).2.2.2

/-! ### the sessions -/

/-- Set Endpoint ID (Set / Force): the responder takes the EID, answers Success with it, the
response is addressed to the requester and decodes on the requester's side to the three data bytes -/
theorem set_eid (c1 c2 : Ctx) (dst op e : B) (buf buf' rbuf : Bytes) (n : Nat)
    (hop : op = 0x00#8 ∨ op = 0x01#8)
    (h : encode c1 dst (.reqSetEid op e) buf = .ok (buf', n)) (hb : 64 ≤ rbuf.length) :
    ∃ c2' d rbuf', process c2 (buf'.take n) rbuf = (c2', .ok (d, some 16), rbuf') ∧
      c2'.reqEid = e ∧ c2'.respEid = e ∧
      decode (rbuf'.take 16) = .ok (.control, 12, 3) ∧
      Spec.sub rbuf' 12 15 = [0x00#8, e, 0x00#8] ∧
      byteAt rbuf' 5 = c1.address ∧ byteAt rbuf' 6 = c2.address ∧
      byteAt rbuf' 0 = (c1.address &&& 0x7F#8) <<< 1 := by
  have hp := req_take c1 dst _ buf buf' n .setEndpointID [op, e] h (by
    intro t hd d hb; simp only [Enc.body] at hb; split at hb <;> simp at hb; simp [hb])
  rw [hp]
  have hd := Proc.dispatch_setEid_assign c2 0x01#8 c1.address
    (fun i => byteAt (Proc.ctlPkt c1.address dst 0x80#8 0x01#8 [op, e]) (11 + i)) rbuf rfl
    (by rw [ctlPkt_pay _ _ _ _ _ 0 (by simp)]; exact hop) (by omega)
  have hpay1 : byteAt (Proc.ctlPkt c1.address dst 0x80#8 0x01#8 [op, e]) (11 + 1) = e := by
    rw [ctlPkt_pay _ _ _ _ _ 1 (by simp)]; rfl
  rw [hpay1] at hd
  have hpr := process_request c2 c1.address dst 0x01#8 [op, e] rbuf (by decide) rfl _ _ _ hd
  obtain ⟨f1, f2, f3, f4, f5⟩ := response_facts c2.address c1.address 0x01#8 [0x00#8, e, 0x00#8] (rbuf.drop 16) 16 rfl
  refine ⟨_, _, _, hpr, rfl, rfl, ?_, f2, f3, f4, f5⟩
  rw [f1]; rfl

/-- Get MCTP Version Support for any query: 1.3.1, decodable by the requester -/
theorem version (c1 c2 : Ctx) (dst q : B) (buf buf' rbuf : Bytes) (n : Nat)
    (h : encode c1 dst (.reqVersion q) buf = .ok (buf', n)) (hb : 64 ≤ rbuf.length) :
    ∃ d rbuf', process c2 (buf'.take n) rbuf = (c2, .ok (d, some 18), rbuf') ∧
      decode (rbuf'.take 18) = .ok (.control, 12, 5) ∧
      Spec.sub rbuf' 12 17 = [0x01#8, 0xF1#8, 0xF3#8, 0xF1#8, 0x00#8] := by
  have hp := req_take c1 dst _ buf buf' n .getMCTPVersionSupport [q] h (by
    intro t hd d hb; simp [Enc.body] at hb; simp [hb])
  rw [hp]
  have hd := Proc.dispatch_version_ok c2 0x04#8 c1.address
    (fun i => byteAt (Proc.ctlPkt c1.address dst 0x80#8 0x04#8 [q]) (11 + i)) rbuf rfl (by omega)
  have hpr := process_request c2 c1.address dst 0x04#8 [q] rbuf (by decide) rfl _ _ _ hd
  obtain ⟨f1, f2, -⟩ := response_facts c2.address c1.address 0x04#8 [0x01#8, 0xF1#8, 0xF3#8, 0xF1#8, 0x00#8]
    (rbuf.drop 18) 18 rfl
  refine ⟨_, _, hpr, ?_, f2⟩
  rw [f1]; rfl

/-- Get Endpoint UUID: the responder's UUID arrives at the requester byte for byte -/
theorem uuid (c1 c2 : Ctx) (dst : B) (buf buf' rbuf : Bytes) (n : Nat) (hu : c2.uuid.length = 16)
    (h : encode c1 dst .reqGetUuid buf = .ok (buf', n)) (hb : 64 ≤ rbuf.length) :
    ∃ d rbuf', process c2 (buf'.take n) rbuf = (c2, .ok (d, some 29), rbuf') ∧
      decode (rbuf'.take 29) = .ok (.control, 12, 16) ∧
      Spec.sub rbuf' 12 28 = c2.uuid := by
  have hp := req_take c1 dst _ buf buf' n .getEndpointUUID [] h (by
    intro t hd d hb; simp [Enc.body] at hb; simp [hb])
  rw [hp]
  have hd := Proc.dispatch_uuid_ok c2 0x03#8 c1.address
    (fun i => byteAt (Proc.ctlPkt c1.address dst 0x80#8 0x03#8 []) (11 + i)) rbuf rfl hu (by omega)
  have hpr := process_request c2 c1.address dst 0x03#8 [] rbuf (by decide) rfl _ _ _ hd
  obtain ⟨f1, f2, -⟩ := response_facts c2.address c1.address 0x03#8 c2.uuid (rbuf.drop 29) 29 (by omega)
  refine ⟨_, _, hpr, ?_, f2⟩
  rw [f1, hu]; rfl

/-- Get Message Type Support: count and list arrive at the requester -/
theorem msg_types (c1 c2 : Ctx) (dst : B) (buf buf' rbuf : Bytes) (n : Nat) (ht : c2.msgTypes.length ≤ 30)
    (h : encode c1 dst .reqMsgTypes buf = .ok (buf', n)) (hb : 64 ≤ rbuf.length) :
    ∃ d rbuf', process c2 (buf'.take n) rbuf = (c2, .ok (d, some (14 + c2.msgTypes.length)), rbuf') ∧
      decode (rbuf'.take (14 + c2.msgTypes.length)) = .ok (.control, 12, 1 + c2.msgTypes.length) ∧
      Spec.sub rbuf' 12 (13 + c2.msgTypes.length) = BitVec.ofNat 8 c2.msgTypes.length :: c2.msgTypes := by
  have hp := req_take c1 dst _ buf buf' n .getMessageTypeSupport [] h (by
    intro t hd d hb; simp [Enc.body] at hb; simp [hb])
  rw [hp]
  have hd := Proc.dispatch_msgTypes_ok c2 0x05#8 c1.address
    (fun i => byteAt (Proc.ctlPkt c1.address dst 0x80#8 0x05#8 []) (11 + i)) rbuf rfl ht (by omega)
  have hpr := process_request c2 c1.address dst 0x05#8 [] rbuf (by decide) rfl _ _ _ hd
  have hlen : (BitVec.ofNat 8 c2.msgTypes.length :: c2.msgTypes).length = 1 + c2.msgTypes.length := by
    simp; omega
  have hm : 14 + c2.msgTypes.length = 13 + (BitVec.ofNat 8 c2.msgTypes.length :: c2.msgTypes).length := by omega
  obtain ⟨f1, f2, -⟩ := response_facts c2.address c1.address 0x05#8 (BitVec.ofNat 8 c2.msgTypes.length :: c2.msgTypes)
    (rbuf.drop (14 + c2.msgTypes.length)) (14 + c2.msgTypes.length) hm
  have e1 : 14 + c2.msgTypes.length - 1 = 13 + c2.msgTypes.length := by omega
  rw [e1] at f2
  refine ⟨_, _, hpr, ?_, f2⟩
  rw [f1, hlen]; rfl

/-- Get Vendor Defined Message Support with the library's own request encoder: selector i < n is
answered with the i-th set and the next selector, and the requester decodes it -/
theorem vendor (c1 c2 : Ctx) (dst sel : B) (v : VendorId) (buf buf' rbuf : Bytes) (n : Nat)
    (hc : Spec.configOk c2 = true) (hv : c2.vendorIds[sel.toNat]? = some v)
    (h : encode c1 dst (.reqVendor sel) buf = .ok (buf', n)) (hb : 64 ≤ rbuf.length) :
    ∃ c2' d rbuf' m, process c2 (buf'.take n) rbuf = (c2', .ok (d, some m), rbuf') ∧
      m = 14 + (Spec.encodeSet v).length ∧
      decode (rbuf'.take m) = .ok (.control, 12, 1 + (Spec.encodeSet v).length) ∧
      Spec.sub rbuf' 12 (m - 1) = Spec.nextSelector sel.toNat c2.vendorIds.length :: Spec.encodeSet v := by
  have hp := req_take c1 dst _ buf buf' n .getVendorDefinedMessageSupport [sel] h (by
    intro t hd d hb; simp [Enc.body] at hb; simp [hb])
  rw [hp]
  obtain ⟨_, hfmt, _, h255, _⟩ := (Proc.configOk_iff c2).mp hc
  obtain ⟨hlt, hget⟩ := List.getElem?_eq_some_iff.mp hv
  have hmem : v ∈ c2.vendorIds := by rw [← hget]; exact List.getElem_mem hlt
  obtain ⟨hf, hl⟩ := Proc.vendorField_eq v (hfmt v hmem)
  have hpay : byteAt (Proc.ctlPkt c1.address dst 0x80#8 0x06#8 [sel]) (11 + 0) = sel := by
    rw [ctlPkt_pay _ _ _ _ _ 0 (by simp)]; rfl
  have hsel : sel ≠ 0xFF#8 := by
    intro hx; rw [hx] at hlt; simp at hlt; omega
  have hd := Proc.dispatch_vendor_ok c2 0x06#8 c1.address
    (fun i => byteAt (Proc.ctlPkt c1.address dst 0x80#8 0x06#8 [sel]) (11 + i)) rbuf rfl
    (by rw [hpay]; exact hsel) v _ (by rw [hpay]; exact hv) hf hl (by omega)
  rw [hpay, Proc.nextSel_eq c2 sel hlt h255] at hd
  have hpr := process_request c2 c1.address dst 0x06#8 [sel] rbuf (by decide) rfl _ _ _ hd
  have hlen : (Spec.nextSelector sel.toNat c2.vendorIds.length :: Spec.encodeSet v).length =
      1 + (Spec.encodeSet v).length := by simp; omega
  have hm : 14 + (Spec.encodeSet v).length =
      13 + (Spec.nextSelector sel.toNat c2.vendorIds.length :: Spec.encodeSet v).length := by omega
  obtain ⟨f1, f2, -⟩ := response_facts c2.address c1.address 0x06#8
    (Spec.nextSelector sel.toNat c2.vendorIds.length :: Spec.encodeSet v)
    (rbuf.drop (14 + (Spec.encodeSet v).length)) (14 + (Spec.encodeSet v).length) hm
  refine ⟨_, _, _, _, hpr, rfl, ?_, f2⟩
  rw [f1, hlen]; rfl

/-- finding D2 seen end to end: the requester cannot decode the responder's Get Endpoint ID answer -/
theorem get_eid_answer_rejected (c1 c2 : Ctx) (dst : B) (buf buf' rbuf : Bytes) (n : Nat)
    (h : encode c1 dst .reqGetEid buf = .ok (buf', n)) (hb : 64 ≤ rbuf.length) :
    ∃ d rbuf', process c2 (buf'.take n) rbuf = (c2, .ok (d, some 16), rbuf') ∧
      decode (rbuf'.take 16) = .err (.control, .ctl .len) := by
  have hp := req_take c1 dst _ buf buf' n .getEndpointID [] h (by
    intro t hd d hb; simp [Enc.body] at hb; simp [hb])
  rw [hp]
  have hd := Proc.dispatch_getEid_ok c2 0x02#8 c1.address
    (fun i => byteAt (Proc.ctlPkt c1.address dst 0x80#8 0x02#8 []) (11 + i)) rbuf rfl (by omega)
  have hpr := process_request c2 c1.address dst 0x02#8 [] rbuf (by decide) rfl _ _ _ hd
  obtain ⟨f1, -⟩ := response_facts c2.address c1.address 0x02#8 [c2.respEid, 0x00#8, 0x00#8] (rbuf.drop 16) 16 rfl
  refine ⟨_, _, hpr, ?_⟩
  rw [f1]; rfl

end Session
end Mctp
