/-
C04 — SMBus framing, byte count and reported length of encoded packets agree.
-/
import Mctp.Lemmas.Encode
import Mctp.Model.Decode
import Mctp.Spec.Api
namespace Mctp
namespace C04

theorem frame (c : Ctx) (dst : B) (e : Enc) (buf buf' : Bytes) (n : Nat)
    (h : encode c dst e buf = .ok (buf', n)) :
    Spec.frameOk c.address dst (buf'.take n) n = true := by
  sorry

/-- the length probe on any prefix of at least three bytes returns the reported length -/
theorem probe_prefix (c : Ctx) (dst : B) (e : Enc) (buf buf' : Bytes) (n k : Nat)
    (h : encode c dst e buf = .ok (buf', n)) (hk : 3 ≤ k) :
    getLength ((buf'.take n).take k) = .ok n := by
  sorry

/-- a message too large for the one-byte byte count is refused -/
theorem oversize (c : Ctx) (dst : B) (e : Enc) (buf : Bytes) (t : MsgType) (hd : Option Bytes) (d : Bytes)
    (hb : e.body c = .ok (t, hd, d)) (hbig : 250 < 1 + optLen hd + d.length) (hs : e.isStub = false) :
    encode c dst e buf = .err () := by
  sorry

/-- hence no packet is ever encoded with a truncated count: reported lengths stay within 259 -/
theorem length_bound (c : Ctx) (dst : B) (e : Enc) (buf buf' : Bytes) (n : Nat)
    (h : encode c dst e buf = .ok (buf', n)) : 10 ≤ n ∧ n ≤ 259 := by
  sorry

end C04
end Mctp
