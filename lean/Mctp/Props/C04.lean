/-
C04 — SMBus framing, byte count and reported length of encoded packets agree.
-/
import Mctp.Lemmas.EncodeApi
import Mctp.Model.Decode
import Mctp.Lemmas.Decode
import Mctp.Spec.Api
namespace Mctp
namespace C04

theorem frame (c : Ctx) (dst : B) (e : Enc) (buf buf' : Bytes) (n : Nat)
    (h : encode c dst e buf = .ok (buf', n)) :
    Spec.frameOk c.address dst (buf'.take n) n = true := by
  obtain ⟨t, hd, d, -, -, hf, hn, hp⟩ := encode_ok_take h
  have hl : (buf'.take n).length = 10 + optLen hd + d.length := by
    rw [hp, List.length_append, packetPre_length]; simp; omega
  have hc : (6 + optLen hd + d.length) % 256 = 6 + optLen hd + d.length := Nat.mod_eq_of_lt (by omega)
  unfold Spec.frameOk
  rw [hl]
  rw [hp, packetPre_cons]
  simp [byteAt, hc, hn]
  omega

/-- the length probe on any prefix of at least three bytes returns the reported length -/
theorem probe_prefix (c : Ctx) (dst : B) (e : Enc) (buf buf' : Bytes) (n k : Nat)
    (h : encode c dst e buf = .ok (buf', n)) (hk : 3 ≤ k) :
    getLength ((buf'.take n).take k) = .ok n := by
  obtain ⟨t, hd, d, -, -, hf, hn, hp⟩ := encode_ok_take h
  obtain ⟨k', rfl⟩ := Nat.exists_eq_add_of_le hk
  have hc : (6 + optLen hd + d.length) % 256 = 6 + optLen hd + d.length := Nat.mod_eq_of_lt (by omega)
  rw [hp, packetPre_cons]
  unfold getLength
  simp [byteAt, smbus_cmd_get, smbus_count_get, hc, hn, Nat.add_comm 3 k']
  rw [if_neg (by omega)]
  congr 1
  omega

/-- a message too large for the one-byte byte count is refused -/
theorem oversize (c : Ctx) (dst : B) (e : Enc) (buf : Bytes) (t : MsgType) (hd : Option Bytes) (d : Bytes)
    (hb : e.body c = .ok (t, hd, d)) (hbig : 250 < 1 + optLen hd + d.length) (hs : e.isStub = false) :
    encode c dst e buf = .err () := by
  rw [encode_of_body hb hs, genPacket_oversize _ _ _ _ _ _ hbig]

/-- hence no packet is ever encoded with a truncated count: reported lengths stay within 259 -/
theorem length_bound (c : Ctx) (dst : B) (e : Enc) (buf buf' : Bytes) (n : Nat)
    (h : encode c dst e buf = .ok (buf', n)) : 10 ≤ n ∧ n ≤ 259 := by
  obtain ⟨t, hd, d, -, -, hf, hn, -⟩ := encode_ok_take h
  omega

end C04
end Mctp
