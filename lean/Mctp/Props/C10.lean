/-
C10 — the receive path returns a result for every input instead of crashing
(partial: findings D3, D10, D11 — the classes below are exactly where it panics).
-/
import Mctp.Lemmas.Process
import Mctp.Spec.State
namespace Mctp
namespace C10

/-- the decoder panics exactly on the finding classes, with exactly that panic -/
theorem decode_panic_iff (p : Bytes) (k : Panic) :
    decode p = .panic k ↔ Spec.decodePanicClass p = some k := by
  sorry

theorem decode_no_panic_partial (p : Bytes) (h : Spec.decodePanicClass p = none) :
    (decode p).isPanic = false := by
  sorry

theorem getLength_never_panics (p : Bytes) : (getLength p).isPanic = false := by
  sorry

/-- the request processor, validly configured and with a response buffer of ≥ 64 bytes,
panics exactly on the finding classes -/
theorem process_panic_iff (c : Ctx) (p buf : Bytes) (k : Panic)
    (hc : Spec.configOk c = true) (hb : 64 ≤ buf.length) :
    (process c p buf).2.1 = .panic k ↔ Spec.processPanicClass c.vendorIds.length p = some k := by
  sorry

theorem process_no_panic_partial (c : Ctx) (p buf : Bytes)
    (hc : Spec.configOk c = true) (hb : 64 ≤ buf.length)
    (h : Spec.processPanicClass c.vendorIds.length p = none) :
    (process c p buf).2.1.isPanic = false := by
  sorry

/-- a valid configuration stays valid: the claim holds after every prior history -/
theorem config_preserved (c : Ctx) (ops : List Op) (hc : Spec.configOk c = true) :
    Spec.configOk (runOps c ops).1 = true := by
  sorry

end C10
end Mctp
