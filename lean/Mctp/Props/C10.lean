/-
C10 — the receive path returns a result for every input instead of crashing
(partial: findings D3, D10, D11 — the classes below are exactly where it panics).
-/
import Mctp.Lemmas.Process
import Mctp.Spec.State
namespace Mctp
namespace C10

/-- the decoder panics exactly on the finding classes, with exactly that panic -/
theorem decode_panic_iff (p : Bytes) (k : Panic) :
    decode p = .panic k ↔ Spec.decodePanicClass p = some k := by
  exact Proc.decode_panic_iff p k

theorem decode_no_panic_partial (p : Bytes) (h : Spec.decodePanicClass p = none) :
    (decode p).isPanic = false := by
  cases hd : decode p with
  | panic k => rw [(decode_panic_iff p k).mp hd] at h; simp at h
  | ok d => rfl
  | err e => rfl

theorem getLength_never_panics (p : Bytes) : (getLength p).isPanic = false := by
  unfold getLength
  split
  · rfl
  · simp only []
    split <;> rfl

/-- the request processor, validly configured and with a response buffer of ≥ 64 bytes,
panics exactly on the finding classes -/
theorem process_panic_iff (c : Ctx) (p buf : Bytes) (k : Panic)
    (hc : Spec.configOk c = true) (hb : 64 ≤ buf.length) :
    (process c p buf).2.1 = .panic k ↔ Spec.processPanicClass c.vendorIds.length p = some k := by
  unfold Spec.processPanicClass
  rcases Proc.process_cases c p buf with ⟨hn, hp⟩ | ⟨ha, hu, hd, c', k', hk, hp⟩ | ⟨ha, hu, hd, c', cc, rest, _, _, _, _, hk, hp⟩
  · -- no dispatch
    have e1 : (process c p buf).2.1 = .panic k ↔ decode p = .panic k := by
      rw [hp]; cases decode p <;> simp [Out.map]
    rw [e1, decode_panic_iff]
    cases hcl : Spec.decodePanicClass p with
    | some k0 => simp
    | none =>
      have : Spec.dispatchPanicClass c.vendorIds.length p = none := by
        rw [Proc.dispatchPanicClass_eq]
        by_cases ha : Spec.isAcceptedRequest p = true
        · exfalso
          obtain ⟨h12, hh, hcn, hr, _, _⟩ := (Proc.acceptedRequest_iff p).mp ha
          by_cases hu : Spec.reqUnimpl (byteAt p 10) = true
          · have := Proc.decode_request p h12 hh hcn hr
            rw [if_pos hu] at this
            rw [(decode_panic_iff p _).mp this] at hcl
            simp at hcl
          · have := hn _ (Proc.decode_accepted p ha (by simpa using hu))
            simp [hcn, hr] at this
        · rw [if_neg ha]
      simp [this]
  · have hcl : Spec.decodePanicClass p = none := by
      cases hx : Spec.decodePanicClass p with
      | none => rfl
      | some k0 => rw [(decode_panic_iff p k0).mpr hx] at hd; simp at hd
    rw [hcl, hp, Proc.dispatchPanicClass_eq, if_pos ha]
    have ho := Proc.dispatch_outcome c (byteAt p 10) (byteAt p 6) (fun i => byteAt p (11 + i)) buf hc hb hu
    simp only [Nat.add_zero] at ho
    cases hx : Proc.dispPanic c.vendorIds.length (byteAt p 10) (byteAt p 11) with
    | some k0 =>
      rw [hx] at ho
      obtain ⟨c'', ho⟩ := ho
      rw [hk] at ho
      simp only [Prod.mk.injEq, Out.panic.injEq] at ho
      simp [ho.2.1]
    | none =>
      rw [hx] at ho
      obtain ⟨c'', n, b', ho⟩ := ho
      rw [hk] at ho
      simp at ho
  · have hcl : Spec.decodePanicClass p = none := by
      cases hx : Spec.decodePanicClass p with
      | none => rfl
      | some k0 => rw [(decode_panic_iff p k0).mpr hx] at hd; simp at hd
    rw [hcl, hp, Proc.dispatchPanicClass_eq, if_pos ha]
    have ho := Proc.dispatch_outcome c (byteAt p 10) (byteAt p 6) (fun i => byteAt p (11 + i)) buf hc hb hu
    simp only [Nat.add_zero] at ho
    cases hx : Proc.dispPanic c.vendorIds.length (byteAt p 10) (byteAt p 11) with
    | some k0 =>
      rw [hx] at ho
      obtain ⟨c'', ho⟩ := ho
      rw [hk] at ho
      simp at ho
    | none => simp

theorem process_no_panic_partial (c : Ctx) (p buf : Bytes)
    (hc : Spec.configOk c = true) (hb : 64 ≤ buf.length)
    (h : Spec.processPanicClass c.vendorIds.length p = none) :
    (process c p buf).2.1.isPanic = false := by
  cases hd : (process c p buf).2.1 with
  | panic k => rw [(process_panic_iff c p buf k hc hb).mp hd] at h; simp at h
  | ok d => rfl
  | err e => rfl

/-- a valid configuration stays valid: the claim holds after every prior history -/
theorem config_preserved (c : Ctx) (ops : List Op) (hc : Spec.configOk c = true) :
    Spec.configOk (runOps c ops).1 = true := by
  exact Proc.configOk_runOps ops c hc

end C10
end Mctp
