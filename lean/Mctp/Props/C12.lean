/-
C12 — responses are well-formed and correlate with the request they answer
(partial: finding D12 — the instance ID is always 0).
-/
import Mctp.Lemmas.Process
import Mctp.Spec.State
namespace Mctp
namespace C12

/-- every answerable request gets a well-formed response addressed back to the requester
from the responder's own address, with the request bit clear and the same command code -/
theorem answer_partial (c : Ctx) (p buf : Bytes)
    (hc : Spec.configOk c = true) (hb : 64 ≤ buf.length)
    (ha : Spec.answerable c.vendorIds.length p = true) :
    ∃ c' d n buf', process c p buf = (c', .ok (d, some n), buf') ∧
      Spec.respondsTo c.address p (buf'.take n) n = true := by
  sorry

/-- finding D12: the response's instance ID is 0 whatever the request's -/
theorem instance_zero (c : Ctx) (p buf buf' : Bytes) (c' : Ctx) (d : Dec) (n : Nat)
    (h : process c p buf = (c', .ok (d, some n), buf')) :
    byteAt (buf'.take n) 9 &&& 0x1F#8 = 0x00#8 := by
  sorry

/-- hence the echo holds exactly for requests with instance ID 0 -/
theorem instance_echo_iff (c : Ctx) (p buf buf' : Bytes) (c' : Ctx) (d : Dec) (n : Nat)
    (h : process c p buf = (c', .ok (d, some n), buf')) :
    Spec.instanceEchoed p (buf'.take n) = (byteAt p 9 &&& 0x1F#8 == 0x00#8) := by
  sorry

/-- a completion code follows the command code -/
theorem has_completion_code (c : Ctx) (p buf buf' : Bytes) (c' : Ctx) (d : Dec) (n : Nat)
    (h : process c p buf = (c', .ok (d, some n), buf')) :
    13 ≤ n ∧ (byteAt (buf'.take n) 11 = 0x00#8 ∨ byteAt (buf'.take n) 11 = 0x02#8) := by
  sorry

end C12
end Mctp
