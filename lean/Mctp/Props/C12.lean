/-
C12 — responses are well-formed and correlate with the request they answer
(partial: finding D12 — the instance ID is always 0).
-/
import Mctp.Lemmas.Process
import Mctp.Spec.State
namespace Mctp
namespace C12

/-- every answerable request gets a well-formed response addressed back to the requester
from the responder's own address, with the request bit clear and the same command code -/
theorem answer_partial (c : Ctx) (p buf : Bytes)
    (hc : Spec.configOk c = true) (hb : 64 ≤ buf.length)
    (ha : Spec.answerable c.vendorIds.length p = true) :
    ∃ c' d n buf', process c p buf = (c', .ok (d, some n), buf') ∧
      Spec.respondsTo c.address p (buf'.take n) n = true := by
  obtain ⟨c', cc, rest, _, _, _, hle, hp⟩ := Proc.process_answerable c p buf hc hb ha
  refine ⟨_, _, _, _, hp, ?_⟩
  have e : 13 + rest.length = 12 + (cc :: rest).length := by simp; omega
  have ht : (Proc.respPkt c.address (byteAt p 6) (byteAt p 10) (cc :: rest) ++ buf.drop (13 + rest.length)).take
      (13 + rest.length) = Proc.respPkt c.address (byteAt p 6) (byteAt p 10) (cc :: rest) := by
    rw [e]; exact Proc.respPkt_take _ _ _ _ _
  rw [ht]
  exact Proc.respondsTo_respPkt c.address p cc rest hle.2

/-- finding D12: the response's instance ID is 0 whatever the request's -/
theorem instance_zero (c : Ctx) (p buf buf' : Bytes) (c' : Ctx) (d : Dec) (n : Nat)
    (h : process c p buf = (c', .ok (d, some n), buf')) :
    byteAt (buf'.take n) 9 &&& 0x1F#8 = 0x00#8 := by
  obtain ⟨cc, rest, hcc, rfl, ht⟩ := Proc.process_ok_some_take c p buf buf' c' d n h
  rw [ht]
  simp [Proc.respPkt, Proc.respPre, byteAt]

/-- hence the echo holds exactly for requests with instance ID 0 -/
theorem instance_echo_iff (c : Ctx) (p buf buf' : Bytes) (c' : Ctx) (d : Dec) (n : Nat)
    (h : process c p buf = (c', .ok (d, some n), buf')) :
    Spec.instanceEchoed p (buf'.take n) = (byteAt p 9 &&& 0x1F#8 == 0x00#8) := by
  obtain ⟨cc, rest, hcc, rfl, ht⟩ := Proc.process_ok_some_take c p buf buf' c' d n h
  rw [ht]
  unfold Spec.instanceEchoed
  have : byteAt (Proc.respPkt c.address (byteAt p 6) (byteAt p 10) (cc :: rest)) 9 = 0x00#8 := by
    simp [Proc.respPkt, Proc.respPre, byteAt]
  rw [this]
  generalize byteAt p 9 &&& 0x1F#8 = x
  rw [Bool.eq_iff_iff]
  simp only [BitVec.zero_and, beq_iff_eq]
  exact eq_comm

/-- a completion code follows the command code -/
theorem has_completion_code (c : Ctx) (p buf buf' : Bytes) (c' : Ctx) (d : Dec) (n : Nat)
    (h : process c p buf = (c', .ok (d, some n), buf')) :
    13 ≤ n ∧ (byteAt (buf'.take n) 11 = 0x00#8 ∨ byteAt (buf'.take n) 11 = 0x02#8) := by
  obtain ⟨cc, rest, hcc, rfl, ht⟩ := Proc.process_ok_some_take c p buf buf' c' d n h
  rw [ht]
  refine ⟨by omega, ?_⟩
  have : byteAt (Proc.respPkt c.address (byteAt p 6) (byteAt p 10) (cc :: rest)) 11 = cc := by
    simp [Proc.respPkt, Proc.respPre, byteAt]
  rw [this]; exact hcc

end C12
end Mctp
