/-
C16 — encoders write exactly the reported bytes and refuse documented-invalid input.
Also the refinement every other encoder property rests on: an encoder call on a caller
buffer is the pure packet spliced over the front of the buffer.
-/
import Mctp.Lemmas.EncodeApi
import Mctp.Spec.Api
namespace Mctp
namespace C16

/-- the buffer form refines the pure form -/
theorem refine (c : Ctx) (dst : B) (e : Enc) (buf pkt : Bytes)
    (hb : encodeBytes c dst e = .ok pkt) (hl : pkt.length ≤ buf.length) :
    encode c dst e buf = .ok (pkt ++ buf.drop pkt.length, pkt.length) := by
  obtain ⟨t, h, d, hbd, hs, hf, hp⟩ := (encodeBytes_ok_iff c dst e pkt).mp hb
  subst hp
  rw [packetBytes_length] at hl ⊢
  exact (encode_ok_iff c dst e buf _ _).mpr ⟨t, h, d, hbd, hs, hf, hl, rfl, rfl⟩

/-- every successful call is the pure packet over the front of the buffer: exactly the first
`n` bytes are written, the rest is untouched, and bytes and length do not depend on the buffer -/
theorem ok_inv (c : Ctx) (dst : B) (e : Enc) (buf buf' : Bytes) (n : Nat)
    (h : encode c dst e buf = .ok (buf', n)) :
    ∃ pkt, encodeBytes c dst e = .ok pkt ∧ n = pkt.length ∧ n ≤ buf.length ∧
      buf' = pkt ++ buf.drop n := by
  obtain ⟨t, hd, d, hbd, hs, hf, hl, hp, hn⟩ := (encode_ok_iff c dst e buf buf' n).mp h
  subst hp hn
  exact ⟨_, (encodeBytes_ok_iff c dst e _).mpr ⟨t, hd, d, hbd, hs, hf, rfl⟩,
    (packetBytes_length ..).symm, hl, rfl⟩

theorem written_exactly (c : Ctx) (dst : B) (e : Enc) (buf buf' : Bytes) (n : Nat)
    (h : encode c dst e buf = .ok (buf', n)) :
    buf'.length = buf.length ∧ buf'.drop n = buf.drop n := by
  obtain ⟨pkt, -, rfl, hl, rfl⟩ := ok_inv c dst e buf buf' n h
  constructor
  · simp; omega
  · simp

theorem independent_of_buffer (c : Ctx) (dst : B) (e : Enc) (b1 b1' b2 b2' : Bytes) (n1 n2 : Nat)
    (h1 : encode c dst e b1 = .ok (b1', n1)) (h2 : encode c dst e b2 = .ok (b2', n2)) :
    n1 = n2 ∧ b1'.take n1 = b2'.take n2 := by
  obtain ⟨p1, e1, rfl, -, rfl⟩ := ok_inv c dst e b1 b1' n1 h1
  obtain ⟨p2, e2, rfl, -, rfl⟩ := ok_inv c dst e b2 b2' n2 h2
  rw [e1] at e2; cases e2
  simp

/-- an error leaves the buffer untouched (errors carry no buffer: the model returns none) and
happens exactly when the pure form errs -/
theorem err_iff (c : Ctx) (dst : B) (e : Enc) (buf : Bytes) :
    encode c dst e buf = .err () ↔ encodeBytes c dst e = .err () := by
  cases hs : e.isStub
  · cases hb : e.body c with
    | ok a =>
      obtain ⟨t, h, d⟩ := a
      rw [encode_of_body hb hs, genPacket_err_iff]
      unfold encodeBytes
      rw [hb, Out.bind_ok]
      simp only [hs]
      rw [if_neg (by simp)]
      unfold maxBodyLen
      split <;> simp <;> omega
    | err u => unfold encode encodeBytes; rw [hb]; simp
    | panic p => unfold encode encodeBytes; rw [hb]; simp
  · constructor
    · intro h; exact absurd h (encode_stub_ne_err hs buf)
    · intro h
      unfold encodeBytes at h
      cases hb : e.body c with
      | ok a => rw [hb, Out.bind_ok] at h; simp [hs] at h
      | err u => cases e <;> simp [Enc.isStub] at hs <;> simp [Enc.body] at hb
      | panic p => rw [hb] at h; simp at h

/-- documented-invalid arguments are refused -/
theorem refuse_documented (c : Ctx) (dst : B) (e : Enc) (buf : Bytes)
    (h : Spec.documentedInvalid e = true) : encode c dst e buf = .err () := by
  unfold encode
  rw [(body_err_iff c e).mpr h, Out.bind_err]

/-- every other well-shaped argument that fits the SMBus frame succeeds, without panicking,
given a buffer at least as long as the packet -/
theorem accept_others (c : Ctx) (dst : B) (e : Enc) (buf : Bytes)
    (hd : Spec.documentedInvalid e = false) (ha : Spec.argsOk e = true) (hs : e.isStub = false) :
    ∃ t h d, e.body c = .ok (t, h, d) ∧
      (1 + optLen h + d.length ≤ 250 → 10 + optLen h + d.length ≤ buf.length →
        ∃ buf', encode c dst e buf = .ok (buf', 10 + optLen h + d.length)) ∧
      (250 < 1 + optLen h + d.length → encode c dst e buf = .err ()) := by
  cases hb : e.body c with
  | ok a =>
    obtain ⟨t, h, d⟩ := a
    refine ⟨t, h, d, rfl, ?_, ?_⟩
    · intro hf hl
      exact ⟨_, by rw [encode_of_body hb hs, genPacket_ok _ _ _ _ _ _ hf hl]⟩
    · intro hbig
      rw [encode_of_body hb hs, genPacket_oversize _ _ _ _ _ _ hbig]
  | err u =>
    have := (body_err_iff c e).mp hb
    rw [this] at hd; cases hd
  | panic p =>
    have := body_panic c e p hb
    rw [this] at ha; cases ha

/-- errors are exactly: documented-invalid arguments, or a body that does not fit -/
theorem err_only_if (c : Ctx) (dst : B) (e : Enc) (buf : Bytes) (ha : Spec.argsOk e = true)
    (h : encode c dst e buf = .err ()) :
    Spec.documentedInvalid e = true ∨
      ∃ t hd d, e.body c = .ok (t, hd, d) ∧ 250 < 1 + optLen hd + d.length := by
  have _ := ha
  cases hb : e.body c with
  | ok a =>
    obtain ⟨t, hd, d⟩ := a
    right
    cases hs : e.isStub
    · rw [encode_of_body hb hs, genPacket_err_iff] at h
      exact ⟨t, hd, d, rfl, h⟩
    · exact absurd h (encode_stub_ne_err hs buf)
  | err u => exact .inl ((body_err_iff c e).mp hb)
  | panic p =>
    unfold encode at h
    rw [hb] at h; simp at h

end C16
end Mctp
