/-
C16 — encoders write exactly the reported bytes and refuse documented-invalid input.
Also the refinement every other encoder property rests on: an encoder call on a caller
buffer is the pure packet spliced over the front of the buffer.
-/
import Mctp.Lemmas.Encode
import Mctp.Spec.Api
namespace Mctp
namespace C16

/-- the buffer form refines the pure form -/
theorem refine (c : Ctx) (dst : B) (e : Enc) (buf pkt : Bytes)
    (hb : encodeBytes c dst e = .ok pkt) (hl : pkt.length ≤ buf.length) :
    encode c dst e buf = .ok (pkt ++ buf.drop pkt.length, pkt.length) := by
  sorry

/-- every successful call is the pure packet over the front of the buffer: exactly the first
`n` bytes are written, the rest is untouched, and bytes and length do not depend on the buffer -/
theorem ok_inv (c : Ctx) (dst : B) (e : Enc) (buf buf' : Bytes) (n : Nat)
    (h : encode c dst e buf = .ok (buf', n)) :
    ∃ pkt, encodeBytes c dst e = .ok pkt ∧ n = pkt.length ∧ n ≤ buf.length ∧
      buf' = pkt ++ buf.drop n := by
  sorry

theorem written_exactly (c : Ctx) (dst : B) (e : Enc) (buf buf' : Bytes) (n : Nat)
    (h : encode c dst e buf = .ok (buf', n)) :
    buf'.length = buf.length ∧ buf'.drop n = buf.drop n := by
  sorry

theorem independent_of_buffer (c : Ctx) (dst : B) (e : Enc) (b1 b1' b2 b2' : Bytes) (n1 n2 : Nat)
    (h1 : encode c dst e b1 = .ok (b1', n1)) (h2 : encode c dst e b2 = .ok (b2', n2)) :
    n1 = n2 ∧ b1'.take n1 = b2'.take n2 := by
  sorry

/-- an error leaves the buffer untouched (errors carry no buffer: the model returns none) and
happens exactly when the pure form errs -/
theorem err_iff (c : Ctx) (dst : B) (e : Enc) (buf : Bytes) :
    encode c dst e buf = .err () ↔ encodeBytes c dst e = .err () := by
  sorry

/-- documented-invalid arguments are refused -/
theorem refuse_documented (c : Ctx) (dst : B) (e : Enc) (buf : Bytes)
    (h : Spec.documentedInvalid e = true) : encode c dst e buf = .err () := by
  sorry

/-- every other well-shaped argument that fits the SMBus frame succeeds, without panicking,
given a buffer at least as long as the packet -/
theorem accept_others (c : Ctx) (dst : B) (e : Enc) (buf : Bytes)
    (hd : Spec.documentedInvalid e = false) (ha : Spec.argsOk e = true) (hs : e.isStub = false) :
    ∃ t h d, e.body c = .ok (t, h, d) ∧
      (1 + optLen h + d.length ≤ 250 → 10 + optLen h + d.length ≤ buf.length →
        ∃ buf', encode c dst e buf = .ok (buf', 10 + optLen h + d.length)) ∧
      (250 < 1 + optLen h + d.length → encode c dst e buf = .err ()) := by
  sorry

/-- errors are exactly: documented-invalid arguments, or a body that does not fit -/
theorem err_only_if (c : Ctx) (dst : B) (e : Enc) (buf : Bytes) (ha : Spec.argsOk e = true)
    (h : encode c dst e buf = .err ()) :
    Spec.documentedInvalid e = true ∨
      ∃ t hd d, e.body c = .ok (t, hd, d) ∧ 250 < 1 + optLen hd + d.length := by
  sorry

end C16
end Mctp
