/-
Soundness of the executable judge (`Mctp/Spec/Judge.lean`) with respect to the model: whatever the
input, judging the MODEL's own observation never yields `fail` — at worst `known:<finding>`.
This is the static counterpart of the `M:` tripwire the driver evaluates on every line, and it is what
lets a verdict `fail` on the implementation's observation be read as "the implementation deviates from
something that is proved of the model".
-/
import Mctp.Props.Refine
import Mctp.Props.RefineFit
import Mctp.Props.C01
import Mctp.Props.C02
import Mctp.Props.C09
import Mctp.Props.C10
import Mctp.Props.C11
import Mctp.Props.C12
import Mctp.Props.AnyBuffer
import Mctp.Props.C17
import Mctp.Spec.Judge
namespace Mctp
namespace JudgeSound

def isFail : Spec.Verdict → Bool
  | .fail _ => true
  | _ => false

/-- the specification state that corresponds to a model context -/
def specOf (c : Ctx) : Spec.SpecSt := ⟨c.address, c.msgTypes, c.vendorIds, (c.reqEid, c.respEid), c.uuid⟩

/-! ### verdict algebra -/

theorem isFail_chk (b : Bool) (w : String) (h : b = true) : isFail (Spec.chk b w) = false := by
  subst h; rfl

theorem isFail_and (a b : Spec.Verdict) (ha : isFail a = false) (hb : isFail b = false) :
    isFail (a.and b) = false := by
  cases a <;> cases b <;> first | rfl | (simp [isFail] at ha hb)

/-! ### facts about the request processor in the shape the judge's clauses need -/

/-- whatever the buffer: a reported response is a response packet for the request -/
theorem written (c : Ctx) (p buf : Bytes) (d : Dec) (n : Nat)
    (h : (process c p buf).2.1 = .ok (d, some n)) :
    ∃ cc rest, n = 13 + rest.length ∧ rest.length ≤ 246 ∧
      (process c p buf).2.2.take n = Proc.respPkt c.address (byteAt p 6) (byteAt p 10) (cc :: rest) := by
  rcases Proc.process_cases c p buf with ⟨_, hp⟩ | ⟨_, _, _, c', k, _, hp⟩ | ⟨ha, _, hd, c', cc, rest, _, _, _, hle, _, hp⟩
  · rw [hp] at h
    cases hdec : decode p <;> simp [hdec, Out.map] at h
  · rw [hp] at h; simp at h
  · rw [hp] at h ⊢
    simp only [Out.ok.injEq, Prod.mk.injEq, Option.some.injEq] at h
    obtain ⟨_, rfl⟩ := h
    refine ⟨cc, rest, rfl, hle.2, ?_⟩
    have e : 13 + rest.length = 12 + (cc :: rest).length := by simp; omega
    show (Proc.respPkt c.address (byteAt p 6) (byteAt p 10) (cc :: rest) ++ buf.drop (13 + rest.length)).take
      (13 + rest.length) = _
    rw [e]; exact Proc.respPkt_take _ _ _ _ _

/-- … and so satisfies every clause of `Spec.respondsTo` -/
theorem written_respondsTo (c : Ctx) (p buf : Bytes) (d : Dec) (n : Nat)
    (h : (process c p buf).2.1 = .ok (d, some n)) :
    Spec.respondsTo c.address p ((process c p buf).2.2.take n) n = true := by
  obtain ⟨cc, rest, rfl, h246, ht⟩ := written c p buf d n h
  rw [ht]
  exact Proc.respondsTo_respPkt c.address p cc rest h246

/-- no response reported: not a control request, nothing written -/
theorem ok_none (c : Ctx) (p buf : Bytes) (d : Dec)
    (h : (process c p buf).2.1 = .ok (d, none)) :
    (Spec.isControl p && Spec.isRequest p) = false ∧ (process c p buf).2.2 = buf := by
  rcases Proc.process_cases c p buf with ⟨hn, hp⟩ | ⟨_, _, _, c', k, _, hp⟩ | ⟨ha, _, hd, c', cc, rest, _, _, _, hle, _, hp⟩
  · rw [hp] at h ⊢
    cases hdec : decode p with
    | ok d' => exact ⟨hn d' hdec, rfl⟩
    | err e => simp [hdec, Out.map] at h
    | panic k => simp [hdec, Out.map] at h
  · rw [hp] at h; simp at h
  · rw [hp] at h; simp at h

/-- an answerable request decodes, is a control request, and is outside both panic classes -/
theorem answerable_inv (n : Nat) (p : Bytes) (ha : Spec.answerable n p = true) :
    Spec.isAcceptedRequest p = true ∧ (Spec.isControl p && Spec.isRequest p) = true ∧
    Spec.refDecode p = .ok (.control, 11, p.length - 12) ∧ Spec.dispatchPanicClass n p = none := by
  unfold Spec.answerable at ha
  simp only [Bool.and_eq_true, Option.isNone_iff_eq_none] at ha
  obtain ⟨ha, hpc⟩ := ha
  unfold Spec.processPanicClass at hpc
  obtain ⟨h12, hh, hcn, hr, hpec, hlen⟩ := (Proc.acceptedRequest_iff p).mp ha
  have hdec := Proc.decode_request p h12 hh hcn hr
  cases hcl : Spec.decodePanicClass p with
  | some k => rw [hcl] at hpc; simp at hpc
  | none =>
    rw [hcl] at hpc
    simp only at hpc
    refine ⟨ha, by rw [hcn, hr]; rfl, ?_, hpc⟩
    rw [← Refine.decode_eq_ref]
    by_cases hu : Spec.reqUnimpl (byteAt p 10) = true
    · rw [if_pos hu] at hdec
      rw [(Proc.decode_panic_iff p _).mp hdec] at hcl
      simp at hcl
    · exact Proc.decode_accepted p ha (by simpa using hu)

/-- the judge's precondition and an answerable request: the specification's response is written -/
theorem answered_pre (c : Ctx) (p buf : Bytes) (hc : Spec.configOk c = true)
    (hb : Refine.respFits (specOf c) p buf = true) (ha : Spec.answerable c.vendorIds.length p = true) :
    ∃ d body, Spec.expectedResponse (specOf c) p = some body ∧
      (process c p buf).2.1 = .ok (d, some (10 + body.length)) ∧
      Spec.respBody (process c p buf).2.2 (10 + body.length) = body := by
  obtain ⟨_, hcr, hd, hdp⟩ := answerable_inv _ p ha
  have h := Refine.process_eq_ref_fit c p buf hc hb
  simp only [] at h
  rw [hd] at h
  simp only [] at h
  rw [if_pos hcr, hdp] at h
  simp only [] at h
  obtain ⟨body, h1, h2, h3, _⟩ := h
  exact ⟨_, body, h1, h2, h3⟩

/-- under the judge's precondition every panic is in the documented class -/
theorem panic_pre (c : Ctx) (p buf : Bytes) (k : Panic) (hc : Spec.configOk c = true)
    (hb : Refine.respFits (specOf c) p buf = true) (hk : (process c p buf).2.1 = .panic k) :
    Spec.processPanicClass c.vendorIds.length p = some k := by
  have h := Refine.process_eq_ref_fit c p buf hc hb
  simp only [] at h
  unfold Spec.processPanicClass
  cases hd : Spec.refDecode p with
  | err e => rw [hd] at h; simp only [] at h; rw [h] at hk; simp at hk
  | panic k' =>
    rw [hd] at h; simp only [] at h; rw [h] at hk
    simp only [Out.panic.injEq] at hk
    subst hk
    rw [(Refine.ref_panic_iff p k').mp hd]
  | ok d =>
    have hcl : Spec.decodePanicClass p = none := by
      cases hx : Spec.decodePanicClass p with
      | none => rfl
      | some k0 => rw [(Refine.ref_panic_iff p k0).mpr hx] at hd; simp at hd
    rw [hcl]
    rw [hd] at h; simp only [] at h
    by_cases hcr : (Spec.isControl p && Spec.isRequest p) = true
    · rw [if_pos hcr] at h
      cases hx : Spec.dispatchPanicClass c.vendorIds.length p with
      | some k0 =>
        rw [hx] at h; simp only [] at h
        rw [h.1] at hk
        simp only [Out.panic.injEq] at hk
        rw [hk]
      | none =>
        rw [hx] at h; simp only [] at h
        obtain ⟨body, _, h2, _⟩ := h
        rw [h2] at hk; simp at hk
    · rw [if_neg hcr] at h
      rw [h] at hk; simp at hk

theorem pre_iff (c : Ctx) (p buf : Bytes) :
    ((specOf c).configOk &&
      (match Spec.expectedResponse (specOf c) p with
       | some body => decide (10 + body.length ≤ buf.length)
       | none => true)) = (Spec.configOk c && Refine.respFits (specOf c) p buf) := rfl

/-- the response clauses of C13/C14/C15 -/
theorem answer_clause (c : Ctx) (p buf : Bytes) (w : String) (w' : String) (hc : Spec.configOk c = true)
    (hb : Refine.respFits (specOf c) p buf = true) (ha : Spec.answerable c.vendorIds.length p = true) :
    isFail (match (process c p buf).2.1, Spec.expectedResponse (specOf c) p with
      | .ok (_, some n), some body => Spec.chk (Spec.respBody (process c p buf).2.2 n == body) w
      | _, _ => .fail w') = false := by
  obtain ⟨d, body, h1, h2, h3⟩ := answered_pre c p buf hc hb ha
  rw [h1, h2]
  exact isFail_chk _ _ (by rw [h3]; exact beq_self_eq_true _)

/-! ### the judge on the model's own observations -/

/-- decoder: for every property the judge knows and every byte string -/
theorem dec_model (prop : String) (p : Bytes) :
    isFail (Spec.judgeDec prop p (decode p) false) = false := by
  unfold Spec.judgeDec
  split
  · -- C02
    cases hd : decode p with
    | ok r => exact isFail_chk _ _ (C02.decode_ok_pec p r hd)
    | err e => simp only []; split <;> rfl
    | panic k => simp only []; split <;> rfl
  · -- C09
    split
    · rename_i hc
      have hacc := C09.accept_iff p hc
      cases hd : decode p with
      | ok r =>
        obtain ⟨t, off, len⟩ := r
        rw [hd] at hacc
        obtain ⟨h1, h2, h3, h4⟩ := C09.payload p t off len hd
        have h10 : 10 ≤ p.length := (decode_ok_inv hd).1
        refine isFail_and _ _ (isFail_chk _ _ hacc.symm) (isFail_chk _ _ ?_)
        subst h1 h2
        have : Spec.hdrEnd p + len + 1 = p.length := by omega
        simp [this]
      | err e =>
        rw [hd] at hacc
        refine isFail_and _ _ (isFail_chk _ _ ?_) (isFail_chk _ _ (C09.truthful p e hc hd))
        rw [← hacc]; rfl
      | panic k =>
        exfalso
        have := (C10.decode_panic_iff p k).mp hd
        unfold Spec.inClaim at hc
        rw [this] at hc
        simp at hc
    · rfl
  · -- C10
    cases hd : decode p with
    | ok r => rfl
    | err e => rfl
    | panic k =>
      have := (C10.decode_panic_iff p k).mp hd
      simp only [this, beq_self_eq_true, if_true]
      rfl
  · rfl

/-- length probe -/
theorem len_model (prop : String) (p : Bytes) :
    isFail (Spec.judgeLen prop p (getLength p)) = false := by
  unfold Spec.judgeLen
  split
  · rw [C17.spec]
    by_cases h3 : p.length < 3
    · rw [if_pos h3]
      exact isFail_chk _ _ (by simp [h3])
    · rw [if_neg h3]
      by_cases h1 : byteAt p 1 = 0x0F#8
      · rw [if_pos h1]
        exact isFail_chk _ _ (by simp [h1]; omega)
      · rw [if_neg h1]
        exact isFail_chk _ _ (by simp [h1])
  · rw [C17.spec]
    by_cases h3 : p.length < 3
    · rw [if_pos h3]
      exact isFail_chk _ _ (by simp [h3])
    · rw [if_neg h3]
      by_cases h1 : byteAt p 1 = 0x0F#8
      · rw [if_pos h1]
        exact isFail_chk _ _ (by simp [h1]; omega)
      · rw [if_neg h1]
        exact isFail_chk _ _ (by simp [h1])
  · have := C10.getLength_never_panics p
    cases hd : getLength p with
    | ok r => rfl
    | err e => rfl
    | panic k => rw [hd] at this; simp [Out.isPanic] at this
  · rfl

/-- request processor: every property, every context, packet and buffer -/
theorem proc_model (prop : String) (c : Ctx) (p buf : Bytes) :
    let r := process c p buf
    isFail (Spec.judgeProc prop (specOf c) p buf r.2.1 false r.2.2 (r.1.reqEid, r.1.respEid)) = false := by
  intro r
  unfold Spec.judgeProc
  extract_lets pre nv
  have hpre : pre = (Spec.configOk c && Refine.respFits (specOf c) p buf) := pre_iff c p buf
  have hnv : nv = c.vendorIds.length := rfl
  split
  · -- C02
    cases ho : r.2.1 with
    | ok d => exact isFail_chk _ _ (C02.process_ok_pec c p buf d ho)
    | err e =>
      simp only []
      split
      · rfl
      · rename_i hp
        obtain ⟨r', hr, _⟩ := C02.bad_pec_inert c p buf (by simpa using hp)
        apply isFail_chk
        show ((process c p buf).2.2 == buf && ((process c p buf).1.reqEid, (process c p buf).1.respEid) == _) = true
        rw [hr]
        simp [specOf]
    | panic k =>
      simp only []
      split
      · rfl
      · rename_i hp
        obtain ⟨r', hr, _⟩ := C02.bad_pec_inert c p buf (by simpa using hp)
        apply isFail_chk
        show ((process c p buf).2.2 == buf && ((process c p buf).1.reqEid, (process c p buf).1.respEid) == _) = true
        rw [hr]
        simp [specOf]
  · -- C03
    split
    · rename_i d n ho
      have h := written_respondsTo c p buf d n ho
      unfold Spec.respondsTo at h
      simp only [Bool.and_eq_true] at h
      apply isFail_chk
      simp only [Bool.and_eq_true]
      exact ⟨h.1.1.1.1.1.1.1.1.1.2, h.1.1.1.1.1.1.1.1.2⟩
    · rfl
  · -- C04
    split
    · rename_i d n ho
      have h := written_respondsTo c p buf d n ho
      unfold Spec.respondsTo at h
      simp only [Bool.and_eq_true] at h
      exact isFail_chk _ _ h.1.1.1.1.1.1.1.1.1.1
    · rfl
  · -- C05
    split
    · rename_i d n ho
      have h := written_respondsTo c p buf d n ho
      unfold Spec.respondsTo at h
      simp only [Bool.and_eq_true, decide_eq_true_eq] at h
      obtain ⟨⟨⟨⟨⟨⟨⟨⟨⟨⟨hf, _⟩, _⟩, h13⟩, h4⟩, h5⟩, h6⟩, h7⟩, h8⟩, _⟩, _⟩ := h
      have hn : 13 ≤ n := by
        have := List.length_take_le n (process c p buf).2.2
        omega
      rw [byteAt_take _ _ _ (by omega)] at h4 h5 h6 h7 h8
      apply isFail_chk
      simp only [Bool.and_eq_true, decide_eq_true_eq]
      exact ⟨⟨⟨⟨⟨by omega, h4⟩, h5⟩, h6⟩, h7⟩, h8⟩
    · rfl
  · -- C10
    split
    · rename_i hp
      rw [hpre] at hp
      simp only [Bool.and_eq_true] at hp
      cases ho : r.2.1 with
      | ok d => rfl
      | err e => rfl
      | panic k =>
        have := panic_pre c p buf k hp.1 hp.2 ho
        simp only []
        rw [hnv, this]
        simp only [beq_self_eq_true, if_true]
        rfl
    · rfl
  · -- C11
    split
    · rename_i t off len n ho
      obtain ⟨h1, h2, h3, h4⟩ := C11.response_frame c p buf _ n ho
      apply isFail_chk
      simp only [Bool.not_false, Bool.true_and, Bool.and_eq_true, decide_eq_true_eq, beq_iff_eq]
      exact ⟨⟨⟨h1, h2⟩, h3⟩, h4⟩
    · rename_i d ho
      obtain ⟨h1, h2⟩ := ok_none c p buf d ho
      apply isFail_chk
      rw [h1]
      simp only [Bool.not_false, Bool.true_and, beq_iff_eq]
      exact h2
    · rename_i e ho
      apply isFail_chk
      simp only [beq_iff_eq]
      apply C11.no_response_frame
      intro d n hx
      rw [hx] at ho
      simp at ho
    · rfl
  · -- C12
    split
    · rename_i hp
      rw [hpre, hnv] at hp
      simp only [Bool.and_eq_true] at hp
      obtain ⟨⟨hc, hb⟩, ha⟩ := hp
      obtain ⟨d, body, h1, h2, h3⟩ := answered_pre c p buf hc hb ha
      have h2' : r.2.1 = _ := h2
      rw [h2']
      simp only []
      refine isFail_and _ _ (isFail_chk _ _ (written_respondsTo c p buf d _ h2)) ?_
      split
      · rfl
      · have hz := C12.instance_zero c p buf (process c p buf).2.2 (process c p buf).1 d _ (by rw [← h2])
        show isFail (if (byteAt (List.take (10 + body.length) (process c p buf).2.2) 9 &&& 31#8 == 0#8) = true then _ else _) = false
        rw [hz]
        rfl
    · rfl
  · -- C13
    refine isFail_and _ _ (isFail_chk _ _ ?_) ?_
    · show (((process c p buf).1.reqEid, (process c p buf).1.respEid) == _) = true
      rw [Proc.process_eids]
      exact beq_self_eq_true _
    · split
      · rename_i hp
        rw [hpre, hnv] at hp
        simp only [Bool.and_eq_true] at hp
        obtain ⟨⟨⟨hc, hb⟩, ha⟩, _⟩ := hp
        exact answer_clause c p buf _ _ hc hb ha
      · rfl
  · -- C14
    split
    · rename_i hp
      rw [hpre, hnv] at hp
      simp only [Bool.and_eq_true] at hp
      obtain ⟨⟨⟨hc, hb⟩, ha⟩, _⟩ := hp
      exact answer_clause c p buf _ _ hc hb ha
    · rfl
  · -- C15
    split
    · rename_i hp
      rw [hpre, hnv] at hp
      simp only [Bool.and_eq_true] at hp
      obtain ⟨⟨⟨hc, hb⟩, ha⟩, _⟩ := hp
      exact answer_clause c p buf _ _ hc hb ha
    · rfl
  · rfl

/-- accessor writes -/
theorem set_model (c : Ctx) (op : Op) (h : (∃ e, op = .setEidReq e) ∨ (∃ e, op = .setEidResp e) ∨ (∃ u, op = .setUuid u)) :
    isFail (Spec.judgeSet "C13" (specOf c) op ((stepOp c op).1.reqEid, (stepOp c op).1.respEid)) = false := by
  have _ := h   -- not needed: the clause holds for every operation (`AnyBuffer.step`)
  show isFail (Spec.chk _ _) = false
  apply isFail_chk
  rw [AnyBuffer.step c op]
  exact beq_self_eq_true _

/-- the specification state follows the model along any operation -/
theorem specOf_step (c : Ctx) (op : Op) : specOf (stepOp c op).1 = (specOf c).step op := by
  obtain ⟨h1, h2, h3, h4⟩ := Proc.stepOp_fields c op
  have h5 := AnyBuffer.step c op
  unfold specOf Spec.SpecSt.step
  rw [h1, h2, h3, h4, h5]

end JudgeSound
end Mctp
