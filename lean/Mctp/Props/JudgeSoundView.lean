/-
Soundness of the C18 / C19 judges (`Spec/JudgeView.lean`) with respect to the model: whatever the
model answers to a view / constructor / header / conversion operation, the judge's verdict on that
answer is never `fail`.  With the correspondence (implementation observation = model observation)
this makes a `fail` verdict on the implementation impossible on a tree whose behaviour the model
describes; conversely the judge only consults the literal tables, so a passing verdict means the
documented layout holds.
-/
import Mctp.Spec.JudgeView
import Mctp.Props.C18
import Mctp.Props.C19
import Mctp.Props.Ctors
import Mctp.Props.ViewsChecked
import Mctp.Props.JudgeSound
namespace Mctp
namespace JudgeSoundView
open Spec JudgeSound

theorem chk_ok (b : Bool) (w : String) (h : b = true) : chk b w = .ok := by
  subst h; rfl

/-- every field the driver can name has a shape: the 26 table rows and the two vendor IDs -/
theorem shape_total : ∀ p ∈ C18.table, shapeOf p.1 = some (.bits p.2) := by
  decide +kernel

theorem shape_pci : shapeOf PciFmt.vendorId = some (.be 2) := by decide +kernel
theorem shape_iana : shapeOf IanaFmt.vendorId = some (.be 4) := by decide +kernel

theorem mem_of_layoutOf (f : Field) (l : C18.Layout) (h : layoutOf f = some l) : (f, l) ∈ C18.table := by
  unfold layoutOf at h
  cases hf : C18.table.find? (fun p => decide (p.1 = f)) with
  | none => rw [hf] at h; simp at h
  | some p =>
    rw [hf] at h
    simp only [Option.map_some, Option.some.injEq] at h
    have h1 := List.find?_some hf
    have h2 := List.mem_of_find?_eq_some hf
    simp only [decide_eq_true_eq] at h1
    obtain ⟨a, b⟩ := p
    simp only at h1 h
    subst h1 h
    exact h2

theorem shape_inv (f : Field) (s : Shape) (hs : shapeOf f = some s) :
    (∃ l, s = .bits l ∧ (f, l) ∈ C18.table) ∨ (s = .be 2 ∧ f = PciFmt.vendorId) ∨
      (s = .be 4 ∧ f = IanaFmt.vendorId) := by
  unfold shapeOf at hs
  cases hl : layoutOf f with
  | some l =>
    rw [hl] at hs
    simp only [Option.some.injEq] at hs
    exact .inl ⟨l, hs.symm, mem_of_layoutOf f l hl⟩
  | none =>
    rw [hl] at hs
    simp only at hs
    split at hs
    · rename_i h; simp only [Option.some.injEq] at hs; exact .inr (.inl ⟨hs.symm, h⟩)
    · split at hs
      · rename_i h; simp only [Option.some.injEq] at hs; exact .inr (.inr ⟨hs.symm, h⟩)
      · simp at hs

theorem beGet2 (raw : Bytes) (h : 2 ≤ raw.length) :
    beGet raw 2 = (byteAt raw 0).toNat * 256 + (byteAt raw 1).toNat := by
  match raw, h with
  | a :: b :: rest, _ => simp [beGet, byteAt]

theorem beGet4 (raw : Bytes) (h : 4 ≤ raw.length) :
    beGet raw 4 = (byteAt raw 0).toNat * 16777216 + (byteAt raw 1).toNat * 65536 +
      (byteAt raw 2).toNat * 256 + (byteAt raw 3).toNat := by
  match raw, h with
  | a :: b :: c :: d :: rest, _ => simp [beGet, byteAt]; omega

theorem beBytes2 (v : Nat) : beBytes 2 v = [BitVec.ofNat 8 (v / 256), BitVec.ofNat 8 v] := by
  simp [beBytes, List.range, List.range.loop]

theorem beBytes4 (v : Nat) : beBytes 4 v =
    [BitVec.ofNat 8 (v / 16777216), BitVec.ofNat 8 (v / 65536), BitVec.ofNat 8 (v / 256), BitVec.ofNat 8 v] := by
  simp [beBytes, List.range, List.range.loop]

theorem get_model_ok (f : Field) (s : Shape) (hs : shapeOf f = some s) (file : SrcFile) (raw : Bytes) :
    judgeViewGet f file raw (f.getC file raw) = .ok := by
  unfold judgeViewGet
  rw [hs]
  simp only
  have key : f.msb / 8 = s.top ∧ (s.top < raw.length → f.get raw = s.get raw) := by
    rcases shape_inv f s hs with ⟨l, rfl, hm⟩ | ⟨rfl, rfl⟩ | ⟨rfl, rfl⟩
    · exact ⟨(C18.table_facts _ hm).2.1, fun _ => C18.get_layout f l hm raw⟩
    · refine ⟨rfl, fun h => ?_⟩
      have h2 : 2 ≤ raw.length := by simp [Shape.top] at h; omega
      rw [C18.pci_get]; exact (beGet2 raw h2).symm
    · refine ⟨rfl, fun h => ?_⟩
      have h2 : 4 ≤ raw.length := by simp [Shape.top] at h; omega
      rw [C18.iana_get]; exact (beGet4 raw h2).symm
  obtain ⟨k1, k2⟩ := key
  split
  · rename_i h
    rw [ViewsChecked.getC_panic f file raw (by omega)]
    exact chk_ok _ _ (beq_self_eq_true _)
  · rename_i h
    have h' : s.top < raw.length := by omega
    rw [ViewsChecked.getC_eq f file raw (by omega), k2 h']
    exact chk_ok _ _ (beq_self_eq_true _)

theorem set_model_ok (f : Field) (s : Shape) (hs : shapeOf f = some s) (file : SrcFile) (raw : Bytes) (v : Nat) :
    judgeViewSet f file raw v (f.setC file raw v) = .ok := by
  unfold judgeViewSet
  rw [hs]
  simp only
  have key : f.msb / 8 = s.top ∧ (s.top < raw.length → f.set raw v = s.set raw v) := by
    rcases shape_inv f s hs with ⟨l, rfl, hm⟩ | ⟨rfl, rfl⟩ | ⟨rfl, rfl⟩
    · exact ⟨(C18.table_facts _ hm).2.1, fun h => C18.set_layout f l hm raw v h⟩
    · refine ⟨rfl, fun h => ?_⟩
      have h2 : 2 ≤ raw.length := by simp [Shape.top] at h; omega
      rw [C18.pci_set raw v h2]; simp [Shape.set, beBytes2]
    · refine ⟨rfl, fun h => ?_⟩
      have h2 : 4 ≤ raw.length := by simp [Shape.top] at h; omega
      rw [C18.iana_set raw v h2]; simp [Shape.set, beBytes4]
  obtain ⟨k1, k2⟩ := key
  split
  · rename_i h
    rw [ViewsChecked.setC_panic f file raw v (by omega)]
    exact chk_ok _ _ (beq_self_eq_true _)
  · rename_i h
    have h' : s.top < raw.length := by omega
    rw [ViewsChecked.setC_eq f file raw v (by omega), k2 h']
    exact chk_ok _ _ (beq_self_eq_true _)

/-- getter: the model's checked getter is judged ok whenever the field has a documented shape
(and `na`, never `fail`, otherwise) -/
theorem get_model (f : Field) (file : SrcFile) (raw : Bytes) :
    isFail (judgeViewGet f file raw (f.getC file raw)) = false := by
  cases hs : shapeOf f with
  | none => unfold judgeViewGet; rw [hs]; rfl
  | some s => rw [get_model_ok f s hs]; rfl

theorem set_model (f : Field) (file : SrcFile) (raw : Bytes) (v : Nat) :
    isFail (judgeViewSet f file raw v (f.setC file raw v)) = false := by
  cases hs : shapeOf f with
  | none => unfold judgeViewSet; rw [hs]; rfl
  | some s => rw [set_model_ok f s hs]; rfl

theorem tfb_model (raw : Bytes) (ver : B) : isFail (judgeTfb raw ver (transportFromBufOk raw ver)) = false := by
  unfold judgeTfb
  split
  · rfl
  · exact isFail_chk _ _ (by rw [C18.transport_from_buf]; exact beq_self_eq_true _)

theorem bfb_key : ∀ x : B,
    ((x &&& 0x80#8) == 0x00#8 &&
       ((x &&& 0x7F#8) == 0x00#8 || (x &&& 0x7F#8) == 0x05#8 ||
        (x &&& 0x7F#8) == 0x06#8 || (x &&& 0x7F#8) == 0x7E#8 ||
        (x &&& 0x7F#8) == 0x7F#8)) =
    ((x &&& 0x80#8) == 0x00#8 && (C19.msgTable.lookup (x &&& 0x7F#8)).isSome) := by
  apply forall_byte; decide +kernel

theorem bfb_model (raw : Bytes) : isFail (judgeBfb raw (bodyFromBufOk raw)) = false := by
  unfold judgeBfb
  split
  · rfl
  · exact isFail_chk _ _ (by rw [C18.body_from_buf, bfb_key]; exact beq_self_eq_true _)

/-- the driver passes the command by its numeric value -/
theorem new_ctrl_model (rq d : Bool) (iid : B) (cmd : Cmd) :
    judgeNewCtrl rq d iid cmd.toByte (.ok (ctrlHeaderNew rq d iid cmd)) = .ok := by
  unfold judgeNewCtrl
  apply chk_ok
  rw [Ctors.ctrl_new]
  cases rq <;> cases d <;> exact beq_self_eq_true _

theorem new_transport_model (v : B) : judgeNewTransport v (.ok (transportHeaderNew v)) = .ok := by
  unfold judgeNewTransport
  apply chk_ok
  rw [Ctors.transport_new]
  exact beq_self_eq_true _

theorem typeValue_eq (t : MsgType) : typeValue t = t.toByte := by
  cases t <;> decide +kernel

theorem new_body_model (ic : Bool) (t : MsgType) : judgeNewBody ic t (bodyHeaderNew ic t) = .ok := by
  unfold judgeNewBody
  cases ic
  · simp only [Bool.false_eq_true, if_false]
    apply chk_ok
    rw [Ctors.body_new, typeValue_eq]
    exact beq_self_eq_true _
  · simp only [if_true]
    apply chk_ok
    rw [Ctors.body_new_ic]
    exact beq_self_eq_true _

theorem new_routing_model (t sz first phys : B) :
    judgeNewRouting t sz first phys (.ok (routingEntryNew t sz first phys)) = .ok := by
  unfold judgeNewRouting
  apply chk_ok
  rw [Ctors.routing_new]
  exact beq_self_eq_true _

theorem new_pci_model (v : Nat) : judgeNewBe 2 v (.ok (pciFormatNew (BitVec.ofNat 16 v))) = .ok := by
  unfold judgeNewBe
  apply chk_ok
  rw [Ctors.pci_new, beBytes2]
  have e1 : (BitVec.ofNat 16 v >>> 8).setWidth 8 = BitVec.ofNat 8 (v / 256) := by
    apply BitVec.eq_of_toNat_eq
    simp [BitVec.toNat_setWidth, BitVec.toNat_ushiftRight, Nat.shiftRight_eq_div_pow]
    omega
  have e2 : (BitVec.ofNat 16 v).setWidth 8 = BitVec.ofNat 8 v := by
    apply BitVec.eq_of_toNat_eq
    simp
  rw [e1, e2]
  exact beq_self_eq_true _

theorem new_iana_model (v : Nat) : judgeNewBe 4 v (.ok (ianaFormatNew (BitVec.ofNat 32 v))) = .ok := by
  unfold judgeNewBe
  apply chk_ok
  rw [Ctors.iana_new, beBytes4]
  have e0 : (BitVec.ofNat 32 v >>> 24).setWidth 8 = BitVec.ofNat 8 (v / 16777216) := by
    apply BitVec.eq_of_toNat_eq
    simp [BitVec.toNat_setWidth, BitVec.toNat_ushiftRight, Nat.shiftRight_eq_div_pow]
    omega
  have e1 : (BitVec.ofNat 32 v >>> 16).setWidth 8 = BitVec.ofNat 8 (v / 65536) := by
    apply BitVec.eq_of_toNat_eq
    simp [BitVec.toNat_setWidth, BitVec.toNat_ushiftRight, Nat.shiftRight_eq_div_pow]
    omega
  have e2 : (BitVec.ofNat 32 v >>> 8).setWidth 8 = BitVec.ofNat 8 (v / 256) := by
    apply BitVec.eq_of_toNat_eq
    simp [BitVec.toNat_setWidth, BitVec.toNat_ushiftRight, Nat.shiftRight_eq_div_pow]
    omega
  have e3 : (BitVec.ofNat 32 v).setWidth 8 = BitVec.ofNat 8 v := by
    apply BitVec.eq_of_toNat_eq
    simp
  rw [e0, e1, e2, e3]
  exact beq_self_eq_true _

theorem hdr_smbus_model (addr dst : B) : judgeHdrSmbus addr dst (.ok (smbusHeader addr dst)) = .ok := by
  unfold judgeHdrSmbus
  apply chk_ok
  rw [smbusHeader_eq]
  exact beq_self_eq_true _

theorem hdr_transport_model (addr dst : B) : judgeHdrTransport addr dst (.ok (transportHeader addr dst)) = .ok := by
  unfold judgeHdrTransport
  apply chk_ok
  rw [transportHeader_eq]
  exact beq_self_eq_true _

theorem conv_cmd_model : ∀ b : B, judgeConvCmd b (.ok ((Cmd.ofByte b).toByte, Cmd.ofByte b)) = .ok := by
  apply forall_byte; decide +kernel

theorem conv_msg_model : ∀ b : B, judgeConvMsg b (.ok ((MsgType.ofByte b).toByte, MsgType.ofByte b)) = .ok := by
  apply forall_byte; decide +kernel

/-- the driver's observation of `conv cc`: value and variant on success, the panic otherwise -/
def ccObs (b : B) : Out Unit (B × CC) :=
  match CC.ofByte b with
  | .ok c => .ok (c.toByte, c)
  | .err _ => .err ()
  | .panic p => .panic p

theorem conv_cc_model : ∀ b : B, isFail (judgeConvCc b (ccObs b)) = false := by
  apply forall_byte; decide +kernel

end JudgeSoundView
end Mctp
