/-
History-level frame theorems: operations that cannot matter can be erased from any history without
changing the final context or any other observation.  This is the general form of "no other input
changes it" (C13), "unaffected by any other traffic" (C15) and "changes neither the EID nor any later
output" (C02).
-/
import Mctp.Props.C02
import Mctp.Props.C13
import Mctp.Props.C15
namespace Mctp
namespace Erase

/-- operations that never change the context: decode-only calls, length probes, encoder calls, and
processed packets whose PEC does not match -/
def inert : Op → Bool
  | .decode _ => true
  | .getLength _ => true
  | .encode _ _ _ => true
  | .process p _ => !Spec.pecOk p
  | _ => false

theorem inert_step (c : Ctx) (op : Op) (h : inert op = true) : (stepOp c op).1 = c := by
  cases op with
  | decode p => rfl
  | getLength p => rfl
  | encode d e b => rfl
  | process p buf =>
    have hp : Spec.pecOk p = false := by simpa [inert] using h
    obtain ⟨r, hr, _⟩ := C02.bad_pec_inert c p buf hp
    rw [Proc.stepOp_process, hr]
  | setEidReq e => exact absurd h (by simp [inert])
  | setEidResp e => exact absurd h (by simp [inert])
  | setUuid u => exact absurd h (by simp [inert])

/-- erasing every inert operation from a history leaves the final context unchanged -/
theorem erase_ctx (c : Ctx) (ops : List Op) :
    (runOps c ops).1 = (runOps c (ops.filter fun op => !inert op)).1 := by
  induction ops generalizing c with
  | nil => rfl
  | cons op ops ih =>
    rw [List.filter_cons]
    cases h : inert op with
    | true =>
      simp only [Bool.not_true, Bool.false_eq_true, if_false]
      rw [Proc.runOps_cons, inert_step c op h]
      exact ih c
    | false =>
      simp only [Bool.not_false, if_true]
      rw [Proc.runOps_cons, Proc.runOps_cons]
      exact ih _

/-- … and leaves every observation of the remaining operations unchanged, in order -/
theorem erase_obs (c : Ctx) (ops : List Op) :
    ((ops.zip (runOps c ops).2).filter fun x => !inert x.1).map (·.2) =
      (runOps c (ops.filter fun op => !inert op)).2 := by
  induction ops generalizing c with
  | nil => rfl
  | cons op ops ih =>
    rw [Proc.runOps_cons, List.zip_cons_cons, List.filter_cons, List.filter_cons]
    cases h : inert op with
    | true =>
      simp only [Bool.not_true, Bool.false_eq_true, if_false]
      rw [inert_step c op h]
      exact ih c
    | false =>
      simp only [Bool.not_false, if_true]
      rw [Proc.runOps_cons, List.map_cons]
      exact congrArg _ (ih _)

/-- the observation of an inert operation itself does not depend on where in the history it occurs,
except through the context it meets: a decode-only call or a length probe is a function of its input -/
theorem decode_obs_context_free (c1 c2 : Ctx) (p : Bytes) :
    (stepOp c1 (.decode p)).2 = (stepOp c2 (.decode p)).2 ∧
    (stepOp c1 (.getLength p)).2 = (stepOp c2 (.getLength p)).2 := ⟨rfl, rfl⟩

end Erase
end Mctp
