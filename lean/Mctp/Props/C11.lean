/-
C11 — request processing agrees with decoding and only writes a response for requests.
-/
import Mctp.Lemmas.Process
import Mctp.Spec.State
namespace Mctp
namespace C11

/-- same type and payload, or same error, as decoding alone (whenever it returns at all) -/
theorem agrees (c : Ctx) (p buf : Bytes) (h : (process c p buf).2.1.isPanic = false) :
    (process c p buf).2.1.map (·.1) = decode p := by
  sorry

/-- no response reported ⇒ every byte of the response buffer is unchanged -/
theorem no_response_frame (c : Ctx) (p buf : Bytes)
    (h : ∀ d n, (process c p buf).2.1 ≠ .ok (d, some n)) :
    (process c p buf).2.2 = buf := by
  sorry

/-- a response is reported only for accepted control requests; bytes beyond it are unchanged -/
theorem response_frame (c : Ctx) (p buf : Bytes) (d : Dec) (n : Nat)
    (h : (process c p buf).2.1 = .ok (d, some n)) :
    Spec.isAcceptedRequest p = true ∧ (process c p buf).2.2.length = buf.length ∧
    (process c p buf).2.2.drop n = buf.drop n ∧ n ≤ buf.length := by
  sorry

/-- everything that is not a control request gets no response -/
theorem non_request_none (c : Ctx) (p buf : Bytes) (r : Dec × Option Nat)
    (h : (process c p buf).2.1 = .ok r) (hn : (Spec.isControl p && Spec.isRequest p) = false) :
    r.2 = none := by
  sorry

/-- conversely, accepted control requests outside the D11 classes are answered -/
theorem requests_answered (c : Ctx) (p buf : Bytes)
    (hc : Spec.configOk c = true) (hb : 64 ≤ buf.length)
    (ha : Spec.answerable c.vendorIds.length p = true) :
    ∃ d n, (process c p buf).2.1 = .ok (d, some n) := by
  sorry

end C11
end Mctp
