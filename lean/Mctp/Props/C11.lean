/-
C11 — request processing agrees with decoding and only writes a response for requests.
-/
import Mctp.Lemmas.Process
import Mctp.Spec.State
namespace Mctp
namespace C11

/-- same type and payload, or same error, as decoding alone (whenever it returns at all) -/
theorem agrees (c : Ctx) (p buf : Bytes) (h : (process c p buf).2.1.isPanic = false) :
    (process c p buf).2.1.map (·.1) = decode p := by
  rcases Proc.process_cases c p buf with ⟨_, hp⟩ | ⟨_, _, _, c', k, _, hp⟩ | ⟨_, _, hd, c', cc, rest, _, _, _, _, _, hp⟩
  · rw [hp]
    cases decode p <;> rfl
  · rw [hp] at h; simp [Out.isPanic] at h
  · rw [hp, hd]; rfl

/-- no response reported ⇒ every byte of the response buffer is unchanged -/
theorem no_response_frame (c : Ctx) (p buf : Bytes)
    (h : ∀ d n, (process c p buf).2.1 ≠ .ok (d, some n)) :
    (process c p buf).2.2 = buf := by
  rcases Proc.process_cases c p buf with ⟨_, hp⟩ | ⟨_, _, _, c', k, _, hp⟩ | ⟨_, _, hd, c', cc, rest, _, _, _, _, _, hp⟩
  · rw [hp]
  · rw [hp]
  · exact absurd (by rw [hp]) (h _ _)

/-- a response is reported only for accepted control requests; bytes beyond it are unchanged -/
theorem response_frame (c : Ctx) (p buf : Bytes) (d : Dec) (n : Nat)
    (h : (process c p buf).2.1 = .ok (d, some n)) :
    Spec.isAcceptedRequest p = true ∧ (process c p buf).2.2.length = buf.length ∧
    (process c p buf).2.2.drop n = buf.drop n ∧ n ≤ buf.length := by
  rcases Proc.process_cases c p buf with ⟨_, hp⟩ | ⟨_, _, _, c', k, _, hp⟩ | ⟨ha, _, hd, c', cc, rest, _, _, _, hle, _, hp⟩
  · rw [hp] at h
    cases hdec : decode p <;> simp [hdec, Out.map] at h
  · rw [hp] at h; simp at h
  · rw [hp] at h ⊢
    simp only [Out.ok.injEq, Prod.mk.injEq, Option.some.injEq] at h
    obtain ⟨_, rfl⟩ := h
    have hl := Proc.respPkt_length c.address (byteAt p 6) (byteAt p 10) (cc :: rest)
    have hl' : (Proc.respPkt c.address (byteAt p 6) (byteAt p 10) (cc :: rest)).length = 13 + rest.length := by
      rw [hl]; simp; omega
    refine ⟨ha, ?_, List.drop_left' hl', hle.1⟩
    have := hle.1
    simp only [List.length_append, List.length_drop, hl']
    omega

/-- everything that is not a control request gets no response -/
theorem non_request_none (c : Ctx) (p buf : Bytes) (r : Dec × Option Nat)
    (h : (process c p buf).2.1 = .ok r) (hn : (Spec.isControl p && Spec.isRequest p) = false) :
    r.2 = none := by
  rcases Proc.process_cases c p buf with ⟨_, hp⟩ | ⟨_, _, _, c', k, _, hp⟩ | ⟨ha, _, hd, c', cc, rest, _, _, _, hle, _, hp⟩
  · rw [hp] at h
    cases hdec : decode p <;> simp [hdec, Out.map] at h
    rw [← h]
  · rw [hp] at h; simp at h
  · obtain ⟨_, _, hc, hr, _, _⟩ := (Proc.acceptedRequest_iff p).mp ha
    simp [hc, hr] at hn

/-- conversely, accepted control requests outside the D11 classes are answered -/
theorem requests_answered (c : Ctx) (p buf : Bytes)
    (hc : Spec.configOk c = true) (hb : 64 ≤ buf.length)
    (ha : Spec.answerable c.vendorIds.length p = true) :
    ∃ d n, (process c p buf).2.1 = .ok (d, some n) := by
  obtain ⟨c', cc, rest, _, _, _, _, hp⟩ := Proc.process_answerable c p buf hc hb ha
  exact ⟨_, _, by rw [hp]⟩

end C11
end Mctp
