/-
C03 — every encoded packet ends with the correct SMBus PEC.
-/
import Mctp.Lemmas.EncodeApi
import Mctp.Lemmas.Decode
import Mctp.Spec.Api
namespace Mctp
namespace C03

/-- the library's byte-wise CRC-8 is the bit-serial SMBus PEC (poly x^8+x^2+x+1, init 0,
MSB first, no reflection, no final XOR) -/
theorem crc8_eq_spec (xs : Bytes) : crc8 xs = Spec.crc xs := Mctp.crc8_eq_spec xs

/-- every successfully encoded packet: last byte = PEC of the rest; CRC of the whole packet is zero -/
theorem pec (c : Ctx) (dst : B) (e : Enc) (buf buf' : Bytes) (n : Nat)
    (h : encode c dst e buf = .ok (buf', n)) :
    Spec.pecOk (buf'.take n) = true ∧ Spec.crc (buf'.take n) = 0#8 := by
  obtain ⟨t, hd, d, -, -, -, -, hp⟩ := encode_ok_take h
  rw [hp]
  constructor
  · simp [Spec.pecOk, Mctp.crc8_eq_spec]
  · rw [← Mctp.crc8_eq_spec, crc_append_self]; rfl

/-- the standard check value of CRC-8/SMBUS ("123456789" ↦ 0xF4) — a test, not a proof -/
example : Spec.crc [0x31#8, 0x32#8, 0x33#8, 0x34#8, 0x35#8, 0x36#8, 0x37#8, 0x38#8, 0x39#8] = 0xF4#8 := by
  decide +kernel

end C03
end Mctp
