/-
C09 — the decoder accepts exactly the well-formed packets and its errors are truthful.
The model's decoder has no context argument: the outcome is a function of the bytes alone
(the correspondence check compares the real decoder across differing contexts).
-/
import Mctp.Lemmas.Decode
import Mctp.Lemmas.DecodeNF
import Mctp.Spec.Accept
namespace Mctp

namespace C09

theorem accept_iff (p : Bytes) (h : Spec.inClaim p = true) :
    (decode p).isOk = Spec.accept p := by
  unfold Spec.inClaim at h
  simp only [Bool.and_eq_true] at h
  obtain ⟨⟨hlong, hexcl⟩, hpan⟩ := h
  unfold Spec.longEnough at hlong
  simp only [Bool.and_eq_true, decide_eq_true_eq] at hlong
  obtain ⟨h10, hlong⟩ := hlong
  have hne : p ≠ [] := by intro h; subst h; simp at h10
  have h10' : ¬ p.length < 10 := by omega
  rw [decode_nf, if_neg h10']
  unfold Spec.accept
  cases hh : Spec.hdrOk p
  · simp [Out.isOk]
  · simp only [Bool.not_true, Bool.false_eq_true, if_false, Bool.true_and]
    rw [pecOk_eq p hne]
    cases hc : Spec.isControl p
    · simp only [Bool.false_eq_true, if_false, Bool.and_true]
      unfold vendorArm
      by_cases hp : byteAt p (p.length-1) = calcPec p
      · simp [hp, Out.isOk]
      · simp [hp, Out.isOk]
    · simp only [if_true]
      unfold Spec.decodePanicClass at hpan
      rw [hc] at hlong hexcl
      rw [hh, hc] at hpan
      simp only [if_true, Bool.true_and, Bool.and_true, decide_eq_true_eq, h10, decide_true] at hlong hexcl hpan
      rw [getCtrl_drop9 p _ h10]
      cases hr : Spec.isRequest p
      · rw [hr] at hlong hexcl hpan
        simp at hlong hexcl hpan
        have h12' : ¬ p.length < 12 := by omega
        have h13' : ¬ p.length < 13 := by omega
        rw [if_neg h12', if_neg h13']
        simp only [Bool.false_eq_true, if_false]
        have hpan := hpan (by omega) hlong
        by_cases hcc : Spec.ccByte p = 0x00#8
        · have hcc6 : ¬ 6 ≤ (Spec.ccByte p).toNat := by rw [hcc]; decide
          rw [if_neg hcc6] at hpan
          have hun : Spec.respUnimpl (Spec.cmdOf p) = false := by
            cases hu : Spec.respUnimpl (Spec.cmdOf p)
            · rfl
            · simp [hcc, hu] at hpan
          obtain ⟨hresp, hfix⟩ := respDataLen_tbl _ hun (by simp [hexcl])
          simp only [hcc, ne_eq, not_true, if_false]
          rw [hresp, Out.bind_ok, lenFits_eq _ _ hfix, Out.isOk_bind_ok, ctrlFin_isOk]
          simp only [beq_self_eq_true, Bool.true_and]
          rfl
        · have hcc6 : (Spec.ccByte p).toNat < 6 := by
            by_cases h6 : 6 ≤ (Spec.ccByte p).toNat
            · simp [h6] at hpan
            · omega
          obtain ⟨c, hc'⟩ := ccOf_lt _ hcc6
          simp [hcc, hc', Out.isOk]
      · rw [hr] at hlong hexcl hpan
        simp at hlong hexcl hpan
        have h12' : ¬ p.length < 12 := by omega
        rw [if_neg h12']; simp only [if_true]
        obtain ⟨hreq, hfix⟩ := reqDataLen_tbl _ (hpan hlong)
        rw [hreq, Out.bind_ok, lenFits_eq _ _ hfix, Out.isOk_bind_ok, ctrlFin_isOk]
        rfl


/-- the accepted payload is precisely the bytes between the message header and the PEC -/
theorem payload (p : Bytes) (t : MsgType) (off len : Nat) (h : decode p = .ok (t, off, len)) :
    t = Spec.msgTypeOf p ∧ off = Spec.hdrEnd p ∧ off + len = p.length - 1 ∧ off ≤ p.length - 1 := by
  obtain ⟨h10, hh, hpec, hcase⟩ := decode_ok_inv h
  rcases hcase with ⟨hc, ht, ho, hl⟩ | ⟨hc, ht, c, hcok, ho, hl⟩
  · refine ⟨ht, ?_, by omega, by omega⟩
    unfold Spec.hdrEnd; rw [hc]; simpa using ho
  · rw [msgTypeOf_of_isControl p hc]
    unfold Spec.hdrEnd; rw [hc]
    rcases (getCtrl_ok_inv h10 hcok).2 with ⟨hr, h12, hcv, _⟩ | ⟨hr, h13, _, hcv, _⟩
    · subst hcv; rw [hr]; simp at ho hl ⊢
      exact ⟨ht, ho, by omega, by omega⟩
    · subst hcv; rw [hr]; simp at ho hl ⊢
      exact ⟨ht, ho, by omega, by omega⟩

/-- every rejection names a condition that really holds of the input -/
theorem truthful (p : Bytes) (e : DErr) (hc : Spec.inClaim p = true) (h : decode p = .err e) :
    Spec.errTruthful p e = true := by
  obtain ⟨h10, hclaim⟩ := inClaim_inv p hc
  have hne : p ≠ [] := by intro h; subst h; simp at h10
  rcases decode_err_inv h with ⟨hlt, he⟩ | ⟨_, hh, hctl, hp, he⟩ | ⟨_, hh, hctl, hg⟩
  · subst he
    rcases hlt with hlt | hlt
    · omega
    · simp [Spec.errTruthful, hlt]
  · subst he
    simp [Spec.errTruthful, pecOk_eq p hne, hp]
  · obtain ⟨hreq, hresp⟩ := hclaim hctl hh
    rcases getCtrl_err_inv h10 hg with ⟨h12, he⟩ | ⟨hr, h12, n, hn, hcase⟩ | ⟨hr, h12, h13, he⟩ |
        ⟨hr, h13, hcc, c, hcv, he⟩ | ⟨hr, h13, hcc, n, hn, hcase⟩
    · subst he
      cases hr : Spec.isRequest p
      · have := (hresp hr).1; omega
      · have := (hreq hr).1; omega
    · obtain ⟨_, hun⟩ := hreq hr
      obtain ⟨htbl, hfix⟩ := reqDataLen_tbl _ hun
      rw [htbl] at hn; injection hn with hn
      rcases hcase with ⟨hp, he⟩ | ⟨hp, hpos, hlen, he⟩
      · subst he; simp [Spec.errTruthful, pecOk_eq p hne, hp]
      · subst he
        simp only [Spec.errTruthful, hctl, hr, if_true, Bool.true_and, lenFits_eq _ _ hfix, hn]
        simp [hpos, hlen]
    · have := (hresp hr).1; omega
    · subst he
      obtain ⟨h1, h2, _⟩ := ccOf_ok _ _ hcv
      simp [Spec.errTruthful, hctl, hr, h13, ← h1, h2 hcc]
    · obtain ⟨_, _, hex, hun⟩ := hresp hr
      obtain ⟨htbl, hfix⟩ := respDataLen_tbl _ (hun hcc) hex
      rw [htbl] at hn; injection hn with hn
      rcases hcase with ⟨hp, he⟩ | ⟨hp, hpos, hlen, he⟩
      · subst he; simp [Spec.errTruthful, pecOk_eq p hne, hp]
      · subst he
        simp only [Spec.errTruthful, hctl, hr, Bool.false_eq_true, if_false, Bool.true_and, lenFits_eq _ _ hfix, hn]
        simp [hpos, hlen]

/-- an error reports message type Invalid or the packet's real type -/
theorem err_type (p : Bytes) (t : MsgType) (e : DecErr) (h : decode p = .err (t, e)) :
    t = .invalid ∨ (Spec.hdrOk p = true ∧ t = Spec.msgTypeOf p) := by
  rcases decode_err_inv h with ⟨_, he⟩ | ⟨_, hh, hctl, hp, he⟩ | ⟨h10, hh, hctl, hg⟩
  · injection he with h1 _; exact .inl h1
  · injection he with h1 _; exact .inr ⟨hh, h1⟩
  · right; refine ⟨hh, ?_⟩
    rw [msgTypeOf_of_isControl p hctl]
    rcases getCtrl_err_inv h10 hg with ⟨_, he⟩ | ⟨_, _, n, _, ⟨_, he⟩ | ⟨_, _, _, he⟩⟩ | ⟨_, _, _, he⟩ |
        ⟨_, _, _, c, _, he⟩ | ⟨_, _, _, n, _, ⟨_, he⟩ | ⟨_, _, _, he⟩⟩
    all_goals (cases he; rfl)

end C09
end Mctp
