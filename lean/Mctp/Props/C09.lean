/-
C09 — the decoder accepts exactly the well-formed packets and its errors are truthful.
The model's decoder has no context argument: the outcome is a function of the bytes alone
(the correspondence check compares the real decoder across differing contexts).
-/
import Mctp.Lemmas.Decode
import Mctp.Spec.Accept
namespace Mctp
namespace C09

theorem accept_iff (p : Bytes) (h : Spec.inClaim p = true) :
    (decode p).isOk = Spec.accept p := by
  sorry

/-- the accepted payload is precisely the bytes between the message header and the PEC -/
theorem payload (p : Bytes) (t : MsgType) (off len : Nat) (h : decode p = .ok (t, off, len)) :
    t = Spec.msgTypeOf p ∧ off = Spec.hdrEnd p ∧ off + len = p.length - 1 ∧ off ≤ p.length - 1 := by
  sorry

/-- every rejection names a condition that really holds of the input -/
theorem truthful (p : Bytes) (e : DErr) (hc : Spec.inClaim p = true) (h : decode p = .err e) :
    Spec.errTruthful p e = true := by
  sorry

/-- an error reports message type Invalid or the packet's real type -/
theorem err_type (p : Bytes) (t : MsgType) (e : DecErr) (h : decode p = .err (t, e)) :
    t = .invalid ∨ (Spec.hdrOk p = true ∧ t = Spec.msgTypeOf p) := by
  sorry

end C09
end Mctp
