/-
C15 — the responder reports the identity it was configured with.
-/
import Mctp.Lemmas.Process
import Mctp.Spec.State
namespace Mctp
namespace C15

/-- no operation changes the configuration; the UUID changes only through `set_uuid` -/
theorem config_invariant (c : Ctx) (op : Op) :
    (stepOp c op).1.msgTypes = c.msgTypes ∧ (stepOp c op).1.vendorIds = c.vendorIds ∧
    (stepOp c op).1.address = c.address ∧ (stepOp c op).1.uuid = Spec.uuidStep c.uuid op := by
  sorry

theorem history (a : B) (ts : Bytes) (vs : List VendorId) (ops : List Op) :
    let c := (runOps (Ctx.new a ts vs) ops).1
    c.msgTypes = ts ∧ c.vendorIds = vs ∧ c.address = a ∧ c.uuid = Spec.uuid ops := by
  sorry

/-- Get Message Type Support: count then the configured list, in order -/
theorem types (c : Ctx) (p buf : Bytes) (hb : 64 ≤ buf.length) (ht : c.msgTypes.length ≤ 30)
    (ha : Spec.isAcceptedRequest p = true) (hcmd : Spec.cmdOf p = 0x05#8) :
    ∃ d buf', process c p buf = (c, .ok (d, some (14 + c.msgTypes.length)), buf') ∧
      Spec.sub buf' 9 (13 + c.msgTypes.length) =
        [0x00#8, 0x05#8, 0x00#8, BitVec.ofNat 8 c.msgTypes.length] ++ c.msgTypes := by
  sorry

/-- Get Endpoint UUID: the 16 bytes most recently installed -/
theorem uuid (c : Ctx) (p buf : Bytes) (hb : 64 ≤ buf.length) (hu : c.uuid.length = 16)
    (ha : Spec.isAcceptedRequest p = true) (hcmd : Spec.cmdOf p = 0x03#8) :
    ∃ d buf', process c p buf = (c, .ok (d, some 29), buf') ∧
      Spec.sub buf' 9 28 = [0x00#8, 0x03#8, 0x00#8] ++ c.uuid := by
  sorry

/-- Get MCTP Version Support: one entry, 1.3.1 (F1 F3 F1 00) -/
theorem version (c : Ctx) (p buf : Bytes) (hb : 64 ≤ buf.length)
    (ha : Spec.isAcceptedRequest p = true) (hcmd : Spec.cmdOf p = 0x04#8) :
    ∃ d buf', process c p buf = (c, .ok (d, some 18), buf') ∧
      Spec.sub buf' 9 17 = [0x00#8, 0x04#8, 0x00#8, 0x01#8, 0xF1#8, 0xF3#8, 0xF1#8, 0x00#8] := by
  sorry

end C15
end Mctp
