/-
C15 — the responder reports the identity it was configured with.
-/
import Mctp.Lemmas.Process
import Mctp.Spec.State
namespace Mctp
namespace C15

/-- no operation changes the configuration; the UUID changes only through `set_uuid` -/
theorem config_invariant (c : Ctx) (op : Op) :
    (stepOp c op).1.msgTypes = c.msgTypes ∧ (stepOp c op).1.vendorIds = c.vendorIds ∧
    (stepOp c op).1.address = c.address ∧ (stepOp c op).1.uuid = Spec.uuidStep c.uuid op := by
  cases op with
  | process p buf =>
    obtain ⟨r, q, s, h⟩ := Proc.process_fst c p buf
    rw [Proc.stepOp_process]; simp [h, Spec.uuidStep]
  | setUuid u =>
    simp only [stepOp, Spec.uuidStep]
    split <;> exact ⟨rfl, rfl, rfl, rfl⟩
  | _ => exact ⟨rfl, rfl, rfl, rfl⟩

theorem history (a : B) (ts : Bytes) (vs : List VendorId) (ops : List Op) :
    let c := (runOps (Ctx.new a ts vs) ops).1
    c.msgTypes = ts ∧ c.vendorIds = vs ∧ c.address = a ∧ c.uuid = Spec.uuid ops := by
  have gen : ∀ (ops : List Op) (c : Ctx),
      (runOps c ops).1.msgTypes = c.msgTypes ∧ (runOps c ops).1.vendorIds = c.vendorIds ∧
      (runOps c ops).1.address = c.address ∧ (runOps c ops).1.uuid = ops.foldl Spec.uuidStep c.uuid := by
    intro ops
    induction ops with
    | nil => intro c; exact ⟨rfl, rfl, rfl, rfl⟩
    | cons op ops ih =>
      intro c
      obtain ⟨h1, h2, h3, h4⟩ := config_invariant c op
      obtain ⟨i1, i2, i3, i4⟩ := ih (stepOp c op).1
      rw [Proc.runOps_cons]
      simp only [List.foldl_cons]
      exact ⟨i1.trans h1, i2.trans h2, i3.trans h3, by rw [i4, h4]⟩
  exact gen ops (Ctx.new a ts vs)

/-- Get Message Type Support: count then the configured list, in order -/
theorem types (c : Ctx) (p buf : Bytes) (hb : 64 ≤ buf.length) (ht : c.msgTypes.length ≤ 30)
    (ha : Spec.isAcceptedRequest p = true) (hcmd : Spec.cmdOf p = 0x05#8) :
    ∃ d buf', process c p buf = (c, .ok (d, some (14 + c.msgTypes.length)), buf') ∧
      Spec.sub buf' 9 (13 + c.msgTypes.length) =
        [0x00#8, 0x05#8, 0x00#8, BitVec.ofNat 8 c.msgTypes.length] ++ c.msgTypes := by
  have hcmd' : byteAt p 10 = 0x05#8 := hcmd
  have hu : Spec.reqUnimpl (byteAt p 10) = false := by rw [hcmd']; decide
  have hd := Proc.dispatch_msgTypes_ok c (byteAt p 10) (byteAt p 6) (fun i => byteAt p (11 + i)) buf
    (by rw [hcmd']; rfl) ht (by omega)
  refine ⟨_, _, Proc.process_of_dispatch c p buf ha hu _ _ _ hd, ?_⟩
  have := Proc.sub_respPkt c.address (byteAt p 6) 0x05#8
    (0x00#8 :: BitVec.ofNat 8 c.msgTypes.length :: c.msgTypes) (buf.drop (14 + c.msgTypes.length))
  have e : 11 + (0x00#8 :: BitVec.ofNat 8 c.msgTypes.length :: c.msgTypes).length = 13 + c.msgTypes.length := by
    simp; omega
  rw [e] at this
  simpa using this

/-- Get Endpoint UUID: the 16 bytes most recently installed -/
theorem uuid (c : Ctx) (p buf : Bytes) (hb : 64 ≤ buf.length) (hu : c.uuid.length = 16)
    (ha : Spec.isAcceptedRequest p = true) (hcmd : Spec.cmdOf p = 0x03#8) :
    ∃ d buf', process c p buf = (c, .ok (d, some 29), buf') ∧
      Spec.sub buf' 9 28 = [0x00#8, 0x03#8, 0x00#8] ++ c.uuid := by
  have hcmd' : byteAt p 10 = 0x03#8 := hcmd
  have hun : Spec.reqUnimpl (byteAt p 10) = false := by rw [hcmd']; decide
  have hd := Proc.dispatch_uuid_ok c (byteAt p 10) (byteAt p 6) (fun i => byteAt p (11 + i)) buf
    (by rw [hcmd']; rfl) hu (by omega)
  refine ⟨_, _, Proc.process_of_dispatch c p buf ha hun _ _ _ hd, ?_⟩
  have := Proc.sub_respPkt c.address (byteAt p 6) 0x03#8 (0x00#8 :: c.uuid) (buf.drop 29)
  have e : 11 + (0x00#8 :: c.uuid).length = 28 := by simp [hu]
  rw [e] at this
  simpa using this

/-- Get MCTP Version Support: one entry, 1.3.1 (F1 F3 F1 00) -/
theorem version (c : Ctx) (p buf : Bytes) (hb : 64 ≤ buf.length)
    (ha : Spec.isAcceptedRequest p = true) (hcmd : Spec.cmdOf p = 0x04#8) :
    ∃ d buf', process c p buf = (c, .ok (d, some 18), buf') ∧
      Spec.sub buf' 9 17 = [0x00#8, 0x04#8, 0x00#8, 0x01#8, 0xF1#8, 0xF3#8, 0xF1#8, 0x00#8] := by
  have hcmd' : byteAt p 10 = 0x04#8 := hcmd
  have hun : Spec.reqUnimpl (byteAt p 10) = false := by rw [hcmd']; decide
  have hd := Proc.dispatch_version_ok c (byteAt p 10) (byteAt p 6) (fun i => byteAt p (11 + i)) buf
    (by rw [hcmd']; rfl) (by omega)
  refine ⟨_, _, Proc.process_of_dispatch c p buf ha hun _ _ _ hd, ?_⟩
  exact Proc.sub_respPkt c.address (byteAt p 6) 0x04#8 [0x00#8, 0x01#8, 0xF1#8, 0xF3#8, 0xF1#8, 0x00#8] (buf.drop 18)

end C15
end Mctp
