/-
C01 — encode then decode is the identity on message type and payload
(partial: findings D2 and D3 — proved to be exactly where it fails).
-/
import Mctp.Lemmas.Process
import Mctp.Spec.Api
namespace Mctp
namespace C01

/-! evaluation of `Spec.rtPayload` (its equation lemmas are expensive to generate: use these) -/
theorem rtp_genPci (r : B) (h : Option Bytes) (d : Bytes) :
    Spec.rtPayload r (.genPci h d) = some (.pci, optBytes h ++ d) := rfl
theorem rtp_genIana (r : B) (h : Option Bytes) (d : Bytes) :
    Spec.rtPayload r (.genIana h d) = some (.iana, optBytes h ++ d) := rfl
theorem rtp_genSpdm1 (r : B) (h : Option Bytes) (d : Bytes) :
    Spec.rtPayload r (.genSpdm .spdm h d) = some (.spdm, optBytes h ++ d) := rfl
theorem rtp_genSpdm2 (r : B) (h : Option Bytes) (d : Bytes) :
    Spec.rtPayload r (.genSpdm .secured h d) = some (.secured, optBytes h ++ d) := rfl
theorem rtp_vendor (r : B) (v : VendorId) (msg : Bytes) :
    Spec.rtPayload r (.vendorDefined v msg) =
      match Spec.vendorFrame (.vendorDefined v msg) with
      | some fr => some (if v.format = 0#8 then .pci else .iana, fr.drop 1)
      | none => none := by
  show (match Enc.vendorDefined v msg, Spec.vendorFrame (.vendorDefined v msg) with
      | .vendorDefined v _, some fr => some (if v.format = 0#8 then MsgType.pci else .iana, fr.drop 1)
      | .genPci _ _, some fr => some (MsgType.pci, fr.drop 1)
      | .genIana _ _, some fr => some (.iana, fr.drop 1)
      | .genSpdm t _ _, some fr => some (t, fr.drop 1)
      | _, _ => none) = _
  cases Spec.vendorFrame (.vendorDefined v msg) <;> rfl
theorem rtp_req (r : B) (e : Enc) (b : Bytes) (h : Spec.reqBody e = some b) :
    Spec.rtPayload r e = some (.control, b.drop 2) := by
  unfold Spec.rtPayload; rw [h]
theorem rtp_resp (r : B) (e : Enc) (cmd cc : B) (f : Bytes) (h1 : Spec.reqBody e = none)
    (h : Spec.respFields r e = some (cmd, cc, f)) :
    Spec.rtPayload r e = if cc = 0x00#8 then some (.control, f) else none := by
  unfold Spec.rtPayload; rw [h1]; simp only []; rw [h]

/-- for every encoder call outside the D2/D3 classes: the encoded bytes decode to the message
type they were encoded with and to a payload that is byte for byte what was encoded, a
sub-slice of the input ending immediately before the PEC -/
theorem roundtrip_partial (c : Ctx) (dst : B) (e : Enc) (buf buf' pl : Bytes) (n : Nat) (t : MsgType)
    (ha : Spec.argsOk e = true) (hcls : Spec.rtClass e = .holds)
    (hx : Spec.rtPayload c.respEid e = some (t, pl))
    (h : encode c dst e buf = .ok (buf', n)) :
    decode (buf'.take n) = .ok (t, n - 1 - pl.length, pl.length) ∧
    Spec.sub (buf'.take n) (n - 1 - pl.length) (n - 1) = pl ∧ pl.length + 1 ≤ n := by
  obtain ⟨t', hd, d, hb, hs, hn, htake⟩ := Proc.encode_ok_take c dst e buf buf' n h
  rw [htake]
  clear h htake
  cases e with
  | reqSetEid op eid =>
    simp only [Enc.body] at hb
    split at hb
    · simp at hb
    · simp only [Out.ok.injEq, Prod.mk.injEq] at hb
      obtain ⟨rfl, rfl, rfl⟩ := hb
      rw [rtp_req _ _ _ rfl] at hx
      simp at hx
      obtain ⟨rfl, rfl⟩ := hx
      exact Proc.rt_request_pkt _ _ _ _ n hn (by decide) (by rfl)
  | reqGetEid =>
    simp only [Enc.body, Out.ok.injEq, Prod.mk.injEq] at hb
    obtain ⟨rfl, rfl, rfl⟩ := hb
    rw [rtp_req _ _ _ rfl] at hx
    simp at hx
    obtain ⟨rfl, rfl⟩ := hx
    exact Proc.rt_request_pkt _ _ _ _ n hn (by decide) (by rfl)
  | reqGetUuid =>
    simp only [Enc.body, Out.ok.injEq, Prod.mk.injEq] at hb
    obtain ⟨rfl, rfl, rfl⟩ := hb
    rw [rtp_req _ _ _ rfl] at hx
    simp at hx
    obtain ⟨rfl, rfl⟩ := hx
    exact Proc.rt_request_pkt _ _ _ _ n hn (by decide) (by rfl)
  | reqVersion q =>
    simp only [Enc.body, Out.ok.injEq, Prod.mk.injEq] at hb
    obtain ⟨rfl, rfl, rfl⟩ := hb
    rw [rtp_req _ _ _ rfl] at hx
    simp at hx
    obtain ⟨rfl, rfl⟩ := hx
    exact Proc.rt_request_pkt _ _ _ _ n hn (by decide) (by rfl)
  | reqMsgTypes =>
    simp only [Enc.body, Out.ok.injEq, Prod.mk.injEq] at hb
    obtain ⟨rfl, rfl, rfl⟩ := hb
    rw [rtp_req _ _ _ rfl] at hx
    simp at hx
    obtain ⟨rfl, rfl⟩ := hx
    exact Proc.rt_request_pkt _ _ _ _ n hn (by decide) (by rfl)
  | reqVendor sel =>
    simp only [Enc.body, Out.ok.injEq, Prod.mk.injEq] at hb
    obtain ⟨rfl, rfl, rfl⟩ := hb
    rw [rtp_req _ _ _ rfl] at hx
    simp at hx
    obtain ⟨rfl, rfl⟩ := hx
    exact Proc.rt_request_pkt _ _ _ _ n hn (by decide) (by rfl)
  | reqResolveEid x =>
    simp only [Enc.body, Out.ok.injEq, Prod.mk.injEq] at hb
    obtain ⟨rfl, rfl, rfl⟩ := hb
    rw [rtp_req _ _ _ rfl] at hx
    simp at hx
    obtain ⟨rfl, rfl⟩ := hx
    exact Proc.rt_request_pkt _ _ _ _ n hn (by decide) (by rfl)
  | reqAllocate op pool first =>
    simp only [Enc.body, Out.ok.injEq, Prod.mk.injEq] at hb
    obtain ⟨rfl, rfl, rfl⟩ := hb
    rw [rtp_req _ _ _ rfl] at hx
    simp at hx
    obtain ⟨rfl, rfl⟩ := hx
    exact Proc.rt_request_pkt _ _ _ _ n hn (by decide) (by rfl)
  | reqRouting es => cases hcls
  | reqGetRouting hh => cases hcls
  | reqPrepare => cases hcls
  | reqDiscovery => cases hcls
  | reqNotify => cases hcls
  | reqNetworkId => cases hcls
  | reqQueryHop x y => cases hcls
  | reqResolveUuid u hh => cases hcls
  | reqQueryRate => cases hcls
  | reqTxRate => exact absurd hs (by decide)
  | reqUpdateRate => exact absurd hs (by decide)
  | reqQueryIfaces => exact absurd hs (by decide)
  | respGetEid cc et it fair => cases hcls
  | respSetEid cc rej alloc =>
    simp only [Enc.body, Out.ok.injEq, Prod.mk.injEq] at hb
    obtain ⟨rfl, rfl, rfl⟩ := hb
    rw [rtp_resp _ _ _ _ _ rfl rfl] at hx
    split at hx
    · rename_i hcc
      subst hcc
      simp only [Option.some.injEq, Prod.mk.injEq] at hx
      obtain ⟨rfl, rfl⟩ := hx
      have hxy : (if rej = true then alloc ||| (1#8 <<< 4) else alloc) =
          ((if rej = true then 1#8 else 0#8) <<< 4) ||| alloc := by
        cases rej <;> simp [BitVec.or_comm]
      rw [hxy] at hn ⊢
      exact Proc.rt_response_pkt _ _ _ _ n 3 hn rfl (.inr rfl)
    · simp at hx
  | respUuid cc u =>
    simp only [Enc.body, Out.ok.injEq, Prod.mk.injEq] at hb
    obtain ⟨rfl, rfl, rfl⟩ := hb
    rw [rtp_resp _ _ _ _ _ rfl rfl] at hx
    split at hx
    · rename_i hcc
      subst hcc
      simp only [Option.some.injEq, Prod.mk.injEq] at hx
      obtain ⟨rfl, rfl⟩ := hx
      have hu : u.length = 16 := by simpa [Spec.argsOk] using ha
      exact Proc.rt_response_pkt _ _ _ _ n 16 hn rfl (.inr hu)
    · simp at hx
  | respVersion cc =>
    simp only [Enc.body, Out.ok.injEq, Prod.mk.injEq] at hb
    obtain ⟨rfl, rfl, rfl⟩ := hb
    rw [rtp_resp _ _ _ _ _ rfl rfl] at hx
    split at hx
    · rename_i hcc
      subst hcc
      simp only [Option.some.injEq, Prod.mk.injEq] at hx
      obtain ⟨rfl, rfl⟩ := hx
      exact Proc.rt_response_pkt _ _ _ _ n 5 hn rfl (.inr rfl)
    · simp at hx
  | respMsgTypes cc ts =>
    simp only [Enc.body] at hb
    split at hb
    · simp at hb
    · simp only [Out.ok.injEq, Prod.mk.injEq] at hb
      obtain ⟨rfl, rfl, rfl⟩ := hb
      rw [rtp_resp _ _ _ _ _ rfl rfl] at hx
      split at hx
      · rename_i hcc
        subst hcc
        simp only [Option.some.injEq, Prod.mk.injEq] at hx
        obtain ⟨rfl, rfl⟩ := hx
        exact Proc.rt_response_pkt _ _ _ _ n 0 hn rfl (.inl rfl)
      · simp at hx
  | respVendor cc sel vid =>
    simp only [Enc.body] at hb
    split at hb
    · simp at hb
    · simp only [Out.ok.injEq, Prod.mk.injEq] at hb
      obtain ⟨rfl, rfl, rfl⟩ := hb
      rw [rtp_resp _ _ _ _ _ rfl rfl] at hx
      split at hx
      · rename_i hcc
        subst hcc
        simp only [Option.some.injEq, Prod.mk.injEq] at hx
        obtain ⟨rfl, rfl⟩ := hx
        exact Proc.rt_response_pkt _ _ _ _ n 0 hn rfl (.inl rfl)
      · simp at hx
  | vendorDefined v msg =>
    simp only [Enc.body] at hb
    rw [rtp_vendor] at hx
    split at hb
    · rename_i h0
      simp only [Out.ok.injEq, Prod.mk.injEq] at hb
      obtain ⟨rfl, rfl, rfl⟩ := hb
      have hvf : Spec.vendorFrame (.vendorDefined v msg) =
          some (0x7E#8 :: (v.data >>> 8).setWidth 8 :: v.data.setWidth 8 :: msg) := by
        show (if v.format = 0#8 then _ else _) = _
        rw [if_pos h0]
      rw [hvf] at hx
      simp only [h0, if_true, List.drop_succ_cons, List.drop_zero, Option.some.injEq, Prod.mk.injEq] at hx
      obtain ⟨rfl, rfl⟩ := hx
      have key := Proc.rt_vendor_pkt c.address dst .pci (some (pciHeader v.data)) msg n hn (.inl rfl)
      have e : optBytes (some (pciHeader v.data)) ++ msg = (v.data >>> 8).setWidth 8 :: v.data.setWidth 8 :: msg := by
        simp [optBytes, pciHeader_eq]
      rw [e] at key
      exact key
    · rename_i h0
      split at hb
      · rename_i h1
        simp only [Out.ok.injEq, Prod.mk.injEq] at hb
        obtain ⟨rfl, rfl, rfl⟩ := hb
        have hvf : Spec.vendorFrame (.vendorDefined v msg) =
            some (0x7F#8 :: (v.data >>> 24).setWidth 8 :: (v.data >>> 16).setWidth 8 ::
              (v.data >>> 8).setWidth 8 :: v.data.setWidth 8 :: msg) := by
          show (if v.format = 0#8 then _ else if v.format = 1#8 then _ else _) = _
          rw [if_neg h0, if_pos h1]
        rw [hvf] at hx
        simp only [h0, if_false, List.drop_succ_cons, List.drop_zero, Option.some.injEq, Prod.mk.injEq] at hx
        obtain ⟨rfl, rfl⟩ := hx
        have key := Proc.rt_vendor_pkt c.address dst .iana (some (ianaHeader v.data)) msg n hn (.inr (.inl rfl))
        have e : optBytes (some (ianaHeader v.data)) ++ msg =
            (v.data >>> 24).setWidth 8 :: (v.data >>> 16).setWidth 8 :: (v.data >>> 8).setWidth 8 ::
              v.data.setWidth 8 :: msg := by
          simp [optBytes, ianaHeader_eq]
        rw [e] at key
        exact key
      · simp at hb
  | genControl hh dd => cases hx
  | genPci hh dd =>
    simp only [Enc.body, Out.ok.injEq, Prod.mk.injEq] at hb
    obtain ⟨rfl, rfl, rfl⟩ := hb
    rw [rtp_genPci] at hx
    simp only [Option.some.injEq, Prod.mk.injEq] at hx
    obtain ⟨rfl, rfl⟩ := hx
    exact Proc.rt_vendor_pkt _ _ _ _ _ n hn (.inl rfl)
  | genIana hh dd =>
    simp only [Enc.body, Out.ok.injEq, Prod.mk.injEq] at hb
    obtain ⟨rfl, rfl, rfl⟩ := hb
    rw [rtp_genIana] at hx
    simp only [Option.some.injEq, Prod.mk.injEq] at hx
    obtain ⟨rfl, rfl⟩ := hx
    exact Proc.rt_vendor_pkt _ _ _ _ _ n hn (.inr (.inl rfl))
  | genSpdm tt hh dd =>
    simp only [Enc.body, Out.ok.injEq, Prod.mk.injEq] at hb
    obtain ⟨rfl, rfl, rfl⟩ := hb
    cases tt with
    | spdm =>
      rw [rtp_genSpdm1] at hx
      simp only [Option.some.injEq, Prod.mk.injEq] at hx
      obtain ⟨rfl, rfl⟩ := hx
      exact Proc.rt_vendor_pkt _ _ _ _ _ n hn (.inr (.inr (.inl rfl)))
    | secured =>
      rw [rtp_genSpdm2] at hx
      simp only [Option.some.injEq, Prod.mk.injEq] at hx
      obtain ⟨rfl, rfl⟩ := hx
      exact Proc.rt_vendor_pkt _ _ _ _ _ n hn (.inr (.inr (.inr rfl)))
    | _ => cases hx

/-- a response encoded with a non-Success completion code decodes to the
unsuccessful-completion error carrying exactly that code -/
theorem response_error (c : Ctx) (dst : B) (e : Enc) (buf buf' : Bytes) (n : Nat) (cc : CC)
    (hcc : Spec.respCc e = some cc.toByte) (hne : cc ≠ .success)
    (h : encode c dst e buf = .ok (buf', n)) :
    decode (buf'.take n) = .err (.control, .ctl (.cc cc)) := by
  obtain ⟨t', hd, d, hb, hs, hn, htake⟩ := Proc.encode_ok_take c dst e buf buf' n h
  rw [htake]
  clear h htake
  cases e with
  | respSetEid cc0 rej alloc =>
    have : cc0 = cc.toByte := by injection hcc
    subst this
    simp only [Enc.body, Out.ok.injEq, Prod.mk.injEq] at hb
    obtain ⟨rfl, rfl, rfl⟩ := hb
    exact Proc.rt_response_cc _ _ _ cc _ hne
  | respGetEid cc0 et it fair =>
    have : cc0 = cc.toByte := by injection hcc
    subst this
    simp only [Enc.body, Out.ok.injEq, Prod.mk.injEq] at hb
    obtain ⟨rfl, rfl, rfl⟩ := hb
    exact Proc.rt_response_cc _ _ _ cc _ hne
  | respUuid cc0 u =>
    have : cc0 = cc.toByte := by injection hcc
    subst this
    simp only [Enc.body, Out.ok.injEq, Prod.mk.injEq] at hb
    obtain ⟨rfl, rfl, rfl⟩ := hb
    exact Proc.rt_response_cc _ _ _ cc _ hne
  | respVersion cc0 =>
    have : cc0 = cc.toByte := by injection hcc
    subst this
    simp only [Enc.body, Out.ok.injEq, Prod.mk.injEq] at hb
    obtain ⟨rfl, rfl, rfl⟩ := hb
    exact Proc.rt_response_cc _ _ _ cc _ hne
  | respMsgTypes cc0 ts =>
    have : cc0 = cc.toByte := by injection hcc
    subst this
    simp only [Enc.body] at hb
    split at hb
    · simp at hb
    · simp only [Out.ok.injEq, Prod.mk.injEq] at hb
      obtain ⟨rfl, rfl, rfl⟩ := hb
      exact Proc.rt_response_cc _ _ _ cc _ hne
  | respVendor cc0 sel vid =>
    have : cc0 = cc.toByte := by injection hcc
    subst this
    simp only [Enc.body] at hb
    split at hb
    · simp at hb
    · simp only [Out.ok.injEq, Prod.mk.injEq] at hb
      obtain ⟨rfl, rfl, rfl⟩ := hb
      exact Proc.rt_response_cc _ _ _ cc _ hne
  | _ => cases hcc

/-- finding D3: the nine request kinds whose command has no length-table entry make the
decoder panic on the library's own output -/
theorem request_unimpl (c : Ctx) (dst : B) (e : Enc) (buf buf' : Bytes) (n : Nat)
    (hcls : Spec.rtClass e = .d3) (ha : Spec.argsOk e = true)
    (h : encode c dst e buf = .ok (buf', n)) :
    decode (buf'.take n) = .panic ⟨.unimplemented, .traits⟩ := by
  obtain ⟨t', hd, d, hb, hs, hn, htake⟩ := Proc.encode_ok_take c dst e buf buf' n h
  rw [htake]
  clear h htake
  cases e with
  | reqRouting es =>
    simp only [Enc.body] at hb
    split at hb
    · simp at hb
    · simp only [Out.ok.injEq, Prod.mk.injEq] at hb
      obtain ⟨rfl, rfl, rfl⟩ := hb
      exact Proc.rt_request_unimpl _ _ _ _ (by decide)
  | reqGetRouting hh =>
    simp only [Enc.body, Out.ok.injEq, Prod.mk.injEq] at hb
    obtain ⟨rfl, rfl, rfl⟩ := hb
    exact Proc.rt_request_unimpl _ _ _ _ (by decide)
  | reqPrepare =>
    simp only [Enc.body, Out.ok.injEq, Prod.mk.injEq] at hb
    obtain ⟨rfl, rfl, rfl⟩ := hb
    exact Proc.rt_request_unimpl _ _ _ _ (by decide)
  | reqDiscovery =>
    simp only [Enc.body, Out.ok.injEq, Prod.mk.injEq] at hb
    obtain ⟨rfl, rfl, rfl⟩ := hb
    exact Proc.rt_request_unimpl _ _ _ _ (by decide)
  | reqNotify =>
    simp only [Enc.body, Out.ok.injEq, Prod.mk.injEq] at hb
    obtain ⟨rfl, rfl, rfl⟩ := hb
    exact Proc.rt_request_unimpl _ _ _ _ (by decide)
  | reqNetworkId =>
    simp only [Enc.body, Out.ok.injEq, Prod.mk.injEq] at hb
    obtain ⟨rfl, rfl, rfl⟩ := hb
    exact Proc.rt_request_unimpl _ _ _ _ (by decide)
  | reqQueryHop x y =>
    simp only [Enc.body, Out.ok.injEq, Prod.mk.injEq] at hb
    obtain ⟨rfl, rfl, rfl⟩ := hb
    exact Proc.rt_request_unimpl _ _ _ _ (by decide)
  | reqResolveUuid u hh =>
    simp only [Enc.body, Out.ok.injEq, Prod.mk.injEq] at hb
    obtain ⟨rfl, rfl, rfl⟩ := hb
    exact Proc.rt_request_unimpl _ _ _ _ (by decide)
  | reqQueryRate =>
    simp only [Enc.body, Out.ok.injEq, Prod.mk.injEq] at hb
    obtain ⟨rfl, rfl, rfl⟩ := hb
    exact Proc.rt_request_unimpl _ _ _ _ (by decide)
  | _ => cases hcls

/-- finding D2: the library's own Success Get Endpoint ID response is rejected -/
theorem geteid_response_rejected (c : Ctx) (dst et it : B) (fair : Bool) (buf buf' : Bytes) (n : Nat)
    (h : encode c dst (.respGetEid 0x00#8 et it fair) buf = .ok (buf', n)) :
    decode (buf'.take n) = .err (.control, .ctl .len) := by
  obtain ⟨t', hd, d, hb, hs, hn, htake⟩ := Proc.encode_ok_take c dst _ buf buf' n h
  rw [htake]
  simp only [Enc.body, Out.ok.injEq, Prod.mk.injEq] at hb
  obtain ⟨rfl, rfl, rfl⟩ := hb
  exact Proc.rt_response_len _ _ _ _ 4 rfl ⟨by decide, by simp⟩

end C01
end Mctp
