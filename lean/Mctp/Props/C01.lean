/-
C01 — encode then decode is the identity on message type and payload
(partial: findings D2 and D3 — proved to be exactly where it fails).
-/
import Mctp.Lemmas.Process
import Mctp.Spec.Api
namespace Mctp
namespace C01

/-- for every encoder call outside the D2/D3 classes: the encoded bytes decode to the message
type they were encoded with and to a payload that is byte for byte what was encoded, a
sub-slice of the input ending immediately before the PEC -/
theorem roundtrip_partial (c : Ctx) (dst : B) (e : Enc) (buf buf' pl : Bytes) (n : Nat) (t : MsgType)
    (ha : Spec.argsOk e = true) (hcls : Spec.rtClass e = .holds)
    (hx : Spec.rtPayload c.respEid e = some (t, pl))
    (h : encode c dst e buf = .ok (buf', n)) :
    decode (buf'.take n) = .ok (t, n - 1 - pl.length, pl.length) ∧
    Spec.sub (buf'.take n) (n - 1 - pl.length) (n - 1) = pl ∧ pl.length + 1 ≤ n := by
  sorry

/-- a response encoded with a non-Success completion code decodes to the
unsuccessful-completion error carrying exactly that code -/
theorem response_error (c : Ctx) (dst : B) (e : Enc) (buf buf' : Bytes) (n : Nat) (cc : CC)
    (hcc : Spec.respCc e = some cc.toByte) (hne : cc ≠ .success)
    (h : encode c dst e buf = .ok (buf', n)) :
    decode (buf'.take n) = .err (.control, .ctl (.cc cc)) := by
  sorry

/-- finding D3: the nine request kinds whose command has no length-table entry make the
decoder panic on the library's own output -/
theorem request_unimpl (c : Ctx) (dst : B) (e : Enc) (buf buf' : Bytes) (n : Nat)
    (hcls : Spec.rtClass e = .d3) (ha : Spec.argsOk e = true)
    (h : encode c dst e buf = .ok (buf', n)) :
    decode (buf'.take n) = .panic ⟨.unimplemented, .traits⟩ := by
  sorry

/-- finding D2: the library's own Success Get Endpoint ID response is rejected -/
theorem geteid_response_rejected (c : Ctx) (dst et it : B) (fair : Bool) (buf buf' : Bytes) (n : Nat)
    (h : encode c dst (.respGetEid 0x00#8 et it fair) buf = .ok (buf', n)) :
    decode (buf'.take n) = .err (.control, .ctl .len) := by
  sorry

end C01
end Mctp
