/-
C07 — control response bodies follow the DSP0236 response layouts.
-/
import Mctp.Lemmas.EncodeApi
import Mctp.Spec.Api
namespace Mctp
namespace C07

/-- Rq/D/reserved/instance byte 0, command code, completion code -/
theorem header (c : Ctx) (dst : B) (e : Enc) (buf buf' fields : Bytes) (cmd cc : B) (n : Nat)
    (hf : Spec.respFields c.respEid e = some (cmd, cc, fields))
    (h : encode c dst e buf = .ok (buf', n)) :
    Spec.sub (buf'.take n) 9 12 = [0x00#8, cmd, cc] := by
  obtain ⟨t, hd, d, hb, -, -, hn, hp⟩ := encode_ok_take h
  rw [hp, packetPre_cons, respFields_body hf hb]
  simp [Spec.sub]

/-- for Success the remaining bytes are exactly the command's response fields -/
theorem success_body (c : Ctx) (dst : B) (e : Enc) (buf buf' fields : Bytes) (cmd cc : B) (n : Nat)
    (hf : Spec.respFields c.respEid e = some (cmd, cc, fields)) (hcc : cc = 0x00#8)
    (h : encode c dst e buf = .ok (buf', n)) :
    Spec.sub (buf'.take n) 12 (n - 1) = fields := by
  have _ := hcc
  obtain ⟨t, hd, d, hb, -, -, hn, hp⟩ := encode_ok_take h
  rw [hp, sub_pre _ _ _ _ (by rw [packetPre_length, hn]; omega), packetPre_cons, respFields_body hf hb]
  rfl

/-- (stronger, what the code does) the fields follow every completion code -/
theorem body_any_cc (c : Ctx) (dst : B) (e : Enc) (buf buf' fields : Bytes) (cmd cc : B) (n : Nat)
    (hf : Spec.respFields c.respEid e = some (cmd, cc, fields))
    (h : encode c dst e buf = .ok (buf', n)) :
    Spec.sub (buf'.take n) 12 (n - 1) = fields := by
  obtain ⟨t, hd, d, hb, -, -, hn, hp⟩ := encode_ok_take h
  rw [hp, sub_pre _ _ _ _ (by rw [packetPre_length, hn]; omega), packetPre_cons, respFields_body hf hb]
  rfl

end C07
end Mctp
