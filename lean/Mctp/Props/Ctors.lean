/-
Closed forms of the public header constructors (extends C18: "header views read and write exactly
their documented bit positions" to the constructors built from the setters), for all argument values.
-/
import Mctp.Model.Ctors
import Mctp.Lemmas.Encode
namespace Mctp
namespace Ctors

theorem ctrl_b0 (rq d : Bool) : ∀ iid : B,
    CtrlHdr.instanceId.encPutByte (CtrlHdr.d.encPutByte (CtrlHdr.rq.encPutByte (0:B) (if rq then 1 else 0))
      (if d then 1 else 0)) iid.toNat =
    (if rq then 0x80#8 else 0x00#8) ||| (if d then 0x40#8 else 0x00#8) ||| (iid &&& 0x1F#8) := by
  cases rq <;> cases d <;> (apply forall_byte; decide +kernel)

theorem ctrl_b1 : ∀ x : B, CtrlHdr.commandCode.encPutByte (0:B) x.toNat = x := by
  apply forall_byte; decide +kernel

/-- Rq bit 7, D bit 6, reserved bit 5 clear, instance ID truncated to 5 bits, then the command code -/
theorem ctrl_new (rq d : Bool) (iid : B) (cmd : Cmd) :
    ctrlHeaderNew rq d iid cmd =
      [(if rq then 0x80#8 else 0x00#8) ||| (if d then 0x40#8 else 0x00#8) ||| (iid &&& 0x1F#8), cmd.toByte] := by
  unfold ctrlHeaderNew
  simp only []
  rw [Field.enc_set_byte CtrlHdr.rq 0 _ _ (by simp) (by decide)]
  rw [Field.enc_set_byte CtrlHdr.d 0 _ _ (by simp) (by decide)]
  rw [Field.enc_set_byte CtrlHdr.instanceId 0 _ _ (by simp) (by decide)]
  rw [Field.enc_set_byte CtrlHdr.commandCode 1 _ _ (by simp) (by decide)]
  simp only [List.set, List.getD_cons_zero, List.getD_cons_succ]
  rw [ctrl_b0 rq d iid, ctrl_b1]

/-- the library's own header (`new(rq, false, 0, cmd)`) is the special case -/
theorem ctrl_new_lib (rq : Bool) (cmd : Cmd) : ctrlHeaderNew rq false 0x00#8 cmd = ctrlHeader rq cmd := by
  rw [ctrl_new, ctrlHeader_eq]
  cases rq <;> rfl

theorem tr_b0 : ∀ v : B, TransportHdr.hdrVersion.encPutByte (0:B) v.toNat = v &&& 0x0F#8 := by
  apply forall_byte; decide +kernel

/-- version truncated to its 4-bit field, reserved bits and everything else zero -/
theorem transport_new (v : B) : transportHeaderNew v = [v &&& 0x0F#8, 0x00#8, 0x00#8, 0x00#8] := by
  unfold transportHeaderNew
  rw [Field.enc_set_byte TransportHdr.hdrVersion 0 _ _ (by simp) (by decide)]
  simp only [List.set, List.getD_cons_zero]
  rw [tr_b0]
  rfl

/-- a header built by `new(version)` is accepted by `new_from_buf(_, version)` exactly for 4-bit versions -/
theorem transport_new_from_buf (v : B) :
    transportFromBufOk (transportHeaderNew v) v = decide (v.toNat < 16) := by
  rw [transport_new]
  revert v
  apply forall_byte; decide +kernel

theorem body_new (t : MsgType) : bodyHeaderNew false t = .ok [t.toByte &&& 0x7F#8] := by
  unfold bodyHeaderNew
  rw [bodyHeader_eq]; rfl

theorem body_new_ic (t : MsgType) : bodyHeaderNew true t = .panic ⟨.explicit, .base⟩ := rfl

theorem rt_b0 : ∀ v : B, RoutingEntry.entryType.encPutByte (0:B) v.toNat = v &&& 0x0F#8 := by
  apply forall_byte; decide +kernel

theorem rt_b1 : ∀ v : B, RoutingEntry.eidRangeSize.encPutByte (0:B) v.toNat = v := by
  apply forall_byte; decide +kernel

theorem rt_b2 : ∀ v : B, RoutingEntry.firstEid.encPutByte (0:B) v.toNat = v := by
  apply forall_byte; decide +kernel

theorem rt_b3 : ∀ v : B, RoutingEntry.physicalAddress.encPutByte (0:B) v.toNat = v := by
  apply forall_byte; decide +kernel

/-- entry type truncated to 4 bits, reserved nibble zero, then the three bytes verbatim -/
theorem routing_new (etype size first phys : B) :
    routingEntryNew etype size first phys = [etype &&& 0x0F#8, size, first, phys] := by
  unfold routingEntryNew
  simp only []
  rw [Field.enc_set_byte RoutingEntry.entryType 0 _ _ (by simp) (by decide)]
  rw [Field.enc_set_byte RoutingEntry.eidRangeSize 1 _ _ (by simp) (by decide)]
  rw [Field.enc_set_byte RoutingEntry.firstEid 2 _ _ (by simp) (by decide)]
  rw [Field.enc_set_byte RoutingEntry.physicalAddress 3 _ _ (by simp) (by decide)]
  simp only [List.set, List.getD_cons_zero, List.getD_cons_succ]
  rw [rt_b0, rt_b1, rt_b2, rt_b3]

theorem pci_new (v : BitVec 16) : pciFormatNew v = [(v >>> 8).setWidth 8, v.setWidth 8] := by
  have h := pciHeader_eq (v.setWidth 32)
  unfold pciHeader at h
  unfold pciFormatNew
  have e : (v.setWidth 32).toNat % 65536 = v.toNat := by
    simp [BitVec.toNat_setWidth]; omega
  rw [e] at h
  rw [h]
  have hv : v.toNat < 2 ^ 16 := v.isLt
  have e1 : BitVec.setWidth 8 (BitVec.setWidth 32 v >>> 8) = BitVec.setWidth 8 (v >>> 8) := by
    apply BitVec.eq_of_toNat_eq
    simp [BitVec.toNat_setWidth, BitVec.toNat_ushiftRight, Nat.shiftRight_eq_div_pow]
    omega
  have e2 : BitVec.setWidth 8 (BitVec.setWidth 32 v) = BitVec.setWidth 8 v := by
    apply BitVec.eq_of_toNat_eq
    simp [BitVec.toNat_setWidth]
  rw [e1, e2]

theorem iana_new (v : BitVec 32) :
    ianaFormatNew v = [(v >>> 24).setWidth 8, (v >>> 16).setWidth 8, (v >>> 8).setWidth 8, v.setWidth 8] :=
  ianaHeader_eq v

end Ctors
end Mctp
