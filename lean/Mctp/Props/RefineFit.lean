/-
`Refine.process_eq_ref` generalised from "response buffer of at least 64 bytes" to "response buffer
at least as long as the response the specification prescribes" (exactly sized buffers included).
-/
import Mctp.Props.Refine
import Mctp.Lemmas.ProcessFit
namespace Mctp
namespace Refine

/-- the buffer is long enough for the response the specification prescribes for `p` (if any) -/
def respFits (s : Spec.SpecSt) (p buf : Bytes) : Bool :=
  match Spec.expectedResponse s p with
  | some body => decide (10 + body.length ≤ buf.length)
  | none => true

/-- what `respFits` says once the prescribed response is known -/
theorem respFits_some (s : Spec.SpecSt) (p buf body : Bytes) (hb : respFits s p buf = true)
    (he : Spec.expectedResponse s p = some body) : 10 + body.length ≤ buf.length := by
  unfold respFits at hb
  rw [he] at hb
  exact of_decide_eq_true hb

theorem process_eq_ref_fit (c : Ctx) (p buf : Bytes) (hc : Spec.configOk c = true)
    (hb : respFits ⟨c.address, c.msgTypes, c.vendorIds, (c.reqEid, c.respEid), c.uuid⟩ p buf = true) :
    let s : Spec.SpecSt := ⟨c.address, c.msgTypes, c.vendorIds, (c.reqEid, c.respEid), c.uuid⟩
    let r := process c p buf
    (match Spec.refDecode p with
     | .err e => r = (c, .err e, buf)
     | .panic k => r = (c, .panic k, buf)
     | .ok d =>
       if Spec.isControl p && Spec.isRequest p then
         match Spec.dispatchPanicClass c.vendorIds.length p with
         | some k => r.2.1 = .panic k ∧ r.2.2 = buf
         | none =>
           ∃ body, Spec.expectedResponse s p = some body ∧
             r.2.1 = .ok (d, some (10 + body.length)) ∧
             Spec.respBody r.2.2 (10 + body.length) = body ∧
             Spec.respondsTo c.address p (r.2.2.take (10 + body.length)) (10 + body.length) = true ∧
             r.2.2.drop (10 + body.length) = buf.drop (10 + body.length) ∧
             (r.1.reqEid, r.1.respEid) = Spec.eidsStep (c.reqEid, c.respEid) (.process p buf)
       else r = (c, .ok (d, none), buf)) := by
  intro s r
  have hfit : ∀ body, Spec.expectedResponse s p = some body → 10 + body.length ≤ buf.length :=
    fun body he => respFits_some s p buf body hb he
  rw [← decode_eq_ref p]
  have hpd : r = _ := Proc.process_eq_decode c p buf
  cases hd : decode p with
  | err e => rw [hd] at hpd; exact hpd
  | panic k => rw [hd] at hpd; exact hpd
  | ok d =>
    rw [hd] at hpd
    show if (Spec.isControl p && Spec.isRequest p) = true then _ else _
    cases hcr : (Spec.isControl p && Spec.isRequest p)
    · rw [hcr] at hpd; exact hpd
    · rw [if_pos rfl]
      simp only [Bool.and_eq_true] at hcr
      obtain ⟨ha, hu, hdd⟩ := Proc.decode_ok_request p d hd hcr.1 hcr.2
      rw [Proc.dispatchPanicClass_eq, if_pos ha]
      cases hx : Proc.dispPanic c.vendorIds.length (byteAt p 10) (byteAt p 11) with
      | some k =>
        obtain ⟨c', hk⟩ := Proc.dispatch_panic_nobuf c (byteAt p 10) (byteAt p 6) (fun i => byteAt p (11 + i)) buf
          hu k hx
        have := Proc.process_of_dispatch c p buf ha hu _ _ _ hk
        show (process c p buf).2.1 = _ ∧ (process c p buf).2.2 = _
        rw [this]; exact ⟨rfl, rfl⟩
      | none =>
        have heid : (r.1.reqEid, r.1.respEid) = Spec.eidsStep (c.reqEid, c.respEid) (.process p buf) := by
          show ((process c p buf).1.reqEid, (process c p buf).1.respEid) = _
          rw [Proc.process_eids]; rfl
        suffices h : ∃ body, Spec.expectedResponse s p = some body ∧
            (process c p buf).2.1 = .ok (d, some (10 + body.length)) ∧
            Spec.respBody (process c p buf).2.2 (10 + body.length) = body ∧
            Spec.respondsTo c.address p ((process c p buf).2.2.take (10 + body.length)) (10 + body.length) = true ∧
            (process c p buf).2.2.drop (10 + body.length) = buf.drop (10 + body.length) by
          obtain ⟨body, h1, h2, h3, h4, h5⟩ := h
          exact ⟨body, h1, h2, h3, h4, h5, heid⟩
        obtain ⟨ht, hfmt, hv1, h255, huu⟩ := (Proc.configOk_iff c).mp hc
        rcases Proc.cmdCase (byteAt p 10) with ⟨h, e⟩ | ⟨h, e⟩ | ⟨h, e⟩ | ⟨h, e⟩ | ⟨h, e⟩ | ⟨h, e⟩ | ⟨h, e⟩ | ⟨h, hne⟩
        · rw [e] at hx; simp [Proc.dispPanic] at hx
        · rcases Proc.op_cases (byteAt p 11) with hop | hop | hop | hop | hop
          · have hbody : Spec.expectedResponse s p = some [0x00#8, 0x01#8, 0x00#8, 0x00#8, byteAt p 12, 0x00#8] := by
              rw [expected_unfold, if_pos e, if_pos (.inl hop)]
            have hl := hfit _ hbody
            have hl' : 16 ≤ buf.length := by simpa using hl
            have hd' := Proc.dispatch_setEid_assign c (byteAt p 10) (byteAt p 6) (fun i => byteAt p (11 + i)) buf h (.inl hop) hl'
            exact answered c p buf s d _ _ _ _ ha hu hdd hd' rfl e.symm (by simp) (by simp) hbody
          · have hbody : Spec.expectedResponse s p = some [0x00#8, 0x01#8, 0x00#8, 0x00#8, byteAt p 12, 0x00#8] := by
              rw [expected_unfold, if_pos e, if_pos (.inr hop)]
            have hl := hfit _ hbody
            have hl' : 16 ≤ buf.length := by simpa using hl
            have hd' := Proc.dispatch_setEid_assign c (byteAt p 10) (byteAt p 6) (fun i => byteAt p (11 + i)) buf h (.inr hop) hl'
            exact answered c p buf s d _ _ _ _ ha hu hdd hd' rfl e.symm (by simp) (by simp) hbody
          · rw [e, hop] at hx; simp [Proc.dispPanic] at hx
          · have hbody : Spec.expectedResponse s p = some [0x00#8, 0x01#8, 0x02#8, 0x00#8, s.eids.2, 0x00#8] := by
              rw [expected_unfold, if_pos e, if_neg (by rw [hop]; decide), if_pos hop]
            have hl := hfit _ hbody
            have hl' : 16 ≤ buf.length := by simpa using hl
            have hd' := Proc.dispatch_setEid_discovered c (byteAt p 10) (byteAt p 6) (fun i => byteAt p (11 + i)) buf h hop hl'
            exact answered c p buf s d _ _ _ _ ha hu hdd hd' rfl e.symm (by simp) (by simp) hbody
          · rw [e] at hx
            have n2 : byteAt p 11 ≠ 2#8 := by intro h0; rw [h0] at hop; simp at hop
            simp [Proc.dispPanic, n2, hop] at hx
        · have hbody : Spec.expectedResponse s p = some [0x00#8, 0x02#8, 0x00#8, s.eids.2, 0x00#8, 0x00#8] := by
            rw [expected_unfold, e]; rfl
          have hl := hfit _ hbody
          have hl' : 16 ≤ buf.length := by simpa using hl
          have hd' := Proc.dispatch_getEid_ok c (byteAt p 10) (byteAt p 6) (fun i => byteAt p (11 + i)) buf h hl'
          exact answered c p buf s d _ _ _ _ ha hu hdd hd' rfl e.symm (by simp) (by simp) hbody
        · have hbody : Spec.expectedResponse s p = some ([0x00#8, 0x03#8, 0x00#8] ++ s.uuid) := by
            rw [expected_unfold, e]; rfl
          have hl := hfit _ hbody
          have hl' : 29 ≤ buf.length := by
            have : s.uuid.length = 16 := huu
            simp [this] at hl; exact hl
          have hd' := Proc.dispatch_uuid_ok c (byteAt p 10) (byteAt p 6) (fun i => byteAt p (11 + i)) buf h huu hl'
          exact answered c p buf s d _ _ _ _ ha hu hdd hd' (by simp [huu]) e.symm (by simp) (by simp [huu]) hbody
        · have hbody : Spec.expectedResponse s p =
              some [0x00#8, 0x04#8, 0x00#8, 0x01#8, 0xF1#8, 0xF3#8, 0xF1#8, 0x00#8] := by
            rw [expected_unfold, e]; rfl
          have hl := hfit _ hbody
          have hl' : 18 ≤ buf.length := by simpa using hl
          have hd' := Proc.dispatch_version_ok c (byteAt p 10) (byteAt p 6) (fun i => byteAt p (11 + i)) buf h hl'
          exact answered c p buf s d _ _ _ _ ha hu hdd hd' rfl e.symm (by simp) (by simp) hbody
        · have hbody : Spec.expectedResponse s p =
              some ([0x00#8, 0x05#8, 0x00#8, BitVec.ofNat 8 s.types.length] ++ s.types) := by
            rw [expected_unfold, e]; rfl
          have hl := hfit _ hbody
          have hl' : 14 + c.msgTypes.length ≤ buf.length := by
            have : s.types = c.msgTypes := rfl
            simp [this] at hl; omega
          have hd' := Proc.dispatch_msgTypes_fit c (byteAt p 10) (byteAt p 6) (fun i => byteAt p (11 + i)) buf h ht hl'
          exact answered c p buf s d _ _ _ _ ha hu hdd hd' (by simp; omega) e.symm (by simp) (by simp; omega) hbody
        · rw [e] at hx
          have hff : byteAt p 11 ≠ 0xFF#8 := by intro h0; simp [Proc.dispPanic, h0] at hx
          have hlt : (byteAt p 11).toNat < c.vendorIds.length := by
            by_cases hn : c.vendorIds.length ≤ (byteAt p 11).toNat
            · simp [Proc.dispPanic, hff, hn] at hx
            · omega
          have hv : c.vendorIds[(byteAt p 11).toNat]? = some (c.vendorIds[(byteAt p 11).toNat]) :=
            List.getElem?_eq_getElem hlt
          obtain ⟨hf, hl7⟩ := Proc.vendorField_eq _ (hfmt _ (List.getElem_mem hlt))
          have hbody : Spec.expectedResponse s p =
              some ([0x00#8, 0x06#8, 0x00#8, Spec.nextSelector (byteAt p 11).toNat c.vendorIds.length] ++
                Spec.encodeSet (c.vendorIds[(byteAt p 11).toNat])) := by
            rw [expected_unfold, e]
            show (match c.vendorIds[(byteAt p 11).toNat]? with
              | some v => some ([0x00#8, 0x06#8, 0x00#8, Spec.nextSelector (byteAt p 11).toNat c.vendorIds.length] ++ Spec.encodeSet v)
              | none => none) = _
            rw [hv]
          have hl := hfit _ hbody
          have hl' : 14 + (Spec.encodeSet (c.vendorIds[(byteAt p 11).toNat])).length ≤ buf.length := by
            simp at hl; omega
          have hd' := Proc.dispatch_vendor_fit c (byteAt p 10) (byteAt p 6) (fun i => byteAt p (11 + i)) buf h hff _ _ hv hf hl7 hl'
          simp only [Nat.add_zero] at hd'
          rw [Proc.nextSel_eq c _ hlt h255] at hd'
          exact answered c p buf s d _ _ _ _ ha hu hdd hd' (by simp; omega) e.symm (by simp) (by simp; omega) hbody
        · obtain h78 := Proc.cmd78 _ h hu
          rcases h78 with h78 | h78 <;> rw [h78] at hx <;> simp [Proc.dispPanic] at hx

end Refine
end Mctp
