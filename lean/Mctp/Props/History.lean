/-
History-level corollaries: what a requester observes after ANY finite history of operations on a
responder context (C13 / C15 lifted from one step to whole histories), and the vendor-set walk carried
out with real packets (C14 end to end: the library's request encoder, the processor, the decoder).
-/
import Mctp.Props.C13
import Mctp.Props.C14
import Mctp.Props.C15
import Mctp.Props.Session
namespace Mctp
namespace History

/-- after any history on a fresh context, a Get Endpoint ID request is answered with the EID the
abstract specification says the response half holds -/
theorem get_eid_after (a : B) (ts : Bytes) (vs : List VendorId) (ops : List Op) (p buf : Bytes)
    (hops : ∀ op ∈ ops, Spec.opOk op = true) (hb : 64 ≤ buf.length)
    (ha : Spec.isAcceptedRequest p = true) (hcmd : Spec.cmdOf p = 0x02#8) :
    let c := (runOps (Ctx.new a ts vs) ops).1
    ∃ d buf', process c p buf = (c, .ok (d, some 16), buf') ∧
      Spec.sub buf' 9 15 = [0x00#8, 0x02#8, 0x00#8, (Spec.eids ops).2, 0x00#8, 0x00#8] := by
  intro c
  have hr : (c.reqEid, c.respEid) = Spec.eids ops := C13.refine a ts vs ops hops
  have h2 : c.respEid = (Spec.eids ops).2 := congrArg Prod.snd hr
  rw [← h2]
  exact C13.reported c p buf hb ha hcmd

/-- the specification's UUID always has 16 bytes -/
theorem uuid_foldl_length (ops : List Op) : ∀ u : Bytes, u.length = 16 →
    (ops.foldl Spec.uuidStep u).length = 16 := by
  induction ops with
  | nil => intro u h; exact h
  | cons op ops ih =>
    intro u h
    rw [List.foldl_cons]
    apply ih
    cases op with
    | setUuid v =>
      show (if v.length = 16 then v else u).length = 16
      split
      · assumption
      · exact h
    | _ => exact h

theorem uuid_length (ops : List Op) : (Spec.uuid ops).length = 16 :=
  uuid_foldl_length ops _ (by simp)

/-- after any history, Get Endpoint UUID is answered with the UUID most recently installed
(all zero before any) -/
theorem uuid_after (a : B) (ts : Bytes) (vs : List VendorId) (ops : List Op) (p buf : Bytes)
    (hb : 64 ≤ buf.length) (ha : Spec.isAcceptedRequest p = true) (hcmd : Spec.cmdOf p = 0x03#8) :
    let c := (runOps (Ctx.new a ts vs) ops).1
    ∃ d buf', process c p buf = (c, .ok (d, some 29), buf') ∧
      Spec.sub buf' 9 28 = [0x00#8, 0x03#8, 0x00#8] ++ Spec.uuid ops := by
  intro c
  have hu : c.uuid = Spec.uuid ops := (C15.history a ts vs ops).2.2.2
  rw [← hu]
  exact C15.uuid c p buf hb (by rw [hu]; exact uuid_length ops) ha hcmd

/-- after any history, Get Message Type Support is answered with the configured list -/
theorem types_after (a : B) (ts : Bytes) (vs : List VendorId) (ops : List Op) (p buf : Bytes)
    (ht : ts.length ≤ 30) (hb : 64 ≤ buf.length)
    (ha : Spec.isAcceptedRequest p = true) (hcmd : Spec.cmdOf p = 0x05#8) :
    let c := (runOps (Ctx.new a ts vs) ops).1
    ∃ d buf', process c p buf = (c, .ok (d, some (14 + ts.length)), buf') ∧
      Spec.sub buf' 9 (13 + ts.length) = [0x00#8, 0x05#8, 0x00#8, BitVec.ofNat 8 ts.length] ++ ts := by
  intro c
  have hm : c.msgTypes = ts := (C15.history a ts vs ops).1
  have := C15.types c p buf hb (by rw [hm]; exact ht) ha hcmd
  rw [hm] at this
  exact this

/-- the requester's walk with real packets: encode a Get Vendor Defined Message Support request for
`sel`, let the responder process it, decode the response, take the next selector from its payload -/
def sessionWalk (c1 : Ctx) (dst : B) : Nat → Ctx → B → List Bytes
  | 0, _, _ => []
  | fuel + 1, c2, sel =>
    match encode c1 dst (.reqVendor sel) (List.replicate 32 0x00#8) with
    | .ok (b, n) =>
      match process c2 (b.take n) (List.replicate 64 0x00#8) with
      | (c2', .ok (_, some m), rb) =>
        match decode (rb.take m) with
        | .ok (_, off, len) =>
          match Spec.sub rb off (off + len) with
          | next :: set => set :: (if next = 0xFF#8 then [] else sessionWalk c1 dst fuel c2' next)
          | [] => []
        | _ => []
      | _ => []
    | _ => []

/-- the request for any selector fits the requester's 32-byte buffer -/
theorem encode_reqVendor_ok (c1 : Ctx) (dst sel : B) :
    ∃ b n, encode c1 dst (.reqVendor sel) (List.replicate 32 0x00#8) = .ok (b, n) := by
  have hb : (Enc.reqVendor sel).body c1 =
      .ok (.control, some (ctrlHeader true .getVendorDefinedMessageSupport), [sel]) := by
    simp [Enc.body]
  rw [Proc.encode_of_body c1 dst _ _ _ _ _ hb rfl]
  have h2 := Proc.ctrlHeader_optLen true .getVendorDefinedMessageSupport
  rw [genPacket_ok c1.address dst .control (some (ctrlHeader true .getVendorDefinedMessageSupport)) [sel]
    (List.replicate 32 0x00#8) (by rw [h2]; simp) (by rw [h2]; simp)]
  exact ⟨_, _, rfl⟩

/-- one round trip of the walk at a configured selector: the set at that selector, then either stop
(next selector 0xFF) or continue from the responder's new context, which is still validly configured
with the same vendor sets -/
theorem walk_step (c1 c2 : Ctx) (dst sel : B) (v : VendorId) (fuel : Nat)
    (hc : Spec.configOk c2 = true) (hv : c2.vendorIds[sel.toNat]? = some v) :
    ∃ c2', Spec.configOk c2' = true ∧ c2'.vendorIds = c2.vendorIds ∧
      sessionWalk c1 dst (fuel + 1) c2 sel =
        Spec.encodeSet v ::
          (if Spec.nextSelector sel.toNat c2.vendorIds.length = 0xFF#8 then []
           else sessionWalk c1 dst fuel c2' (Spec.nextSelector sel.toNat c2.vendorIds.length)) := by
  obtain ⟨b, n, henc⟩ := encode_reqVendor_ok c1 dst sel
  obtain ⟨c2', d, rb, m, hproc, hm, hdec, hsub⟩ :=
    Session.vendor c1 c2 dst sel v _ b (List.replicate 64 0x00#8) n hc hv henc (by simp)
  have hst : c2' = (stepOp c2 (.process (b.take n) (List.replicate 64 0x00#8))).1 := by
    rw [Proc.stepOp_process, hproc]
  refine ⟨c2', ?_, ?_, ?_⟩
  · rw [hst]; exact Proc.configOk_stepOp c2 _ hc
  · rw [hst]; exact (C15.config_invariant c2 _).2.1
  · have e : 12 + (1 + (Spec.encodeSet v).length) = m - 1 := by omega
    rw [← e] at hsub
    conv => lhs; unfold sessionWalk
    simp only [henc, hproc, hdec, hsub]

/-- with enough fuel the walk from `sel` yields the remaining sets in order -/
theorem walk_from (c1 : Ctx) (dst : B) (vs : List VendorId) :
    ∀ (fuel : Nat) (c2 : Ctx) (sel : B), Spec.configOk c2 = true → c2.vendorIds = vs →
      sel.toNat < vs.length → vs.length - sel.toNat ≤ fuel →
      sessionWalk c1 dst fuel c2 sel = (vs.drop sel.toNat).map Spec.encodeSet := by
  intro fuel
  induction fuel with
  | zero => intro c2 sel _ _ h1 h2; omega
  | succ fuel ih =>
    intro c2 sel hc hvs h1 h2
    have h255 : vs.length ≤ 255 := by
      rw [← hvs]; exact ((Proc.configOk_iff c2).mp hc).2.2.2.1
    have hv : c2.vendorIds[sel.toNat]? = some vs[sel.toNat] := by
      rw [hvs]; exact List.getElem?_eq_getElem h1
    obtain ⟨c2', hc', hvs', hw⟩ := walk_step c1 c2 dst sel _ fuel hc hv
    rw [hw, hvs, List.drop_eq_getElem_cons h1, List.map_cons]
    rw [List.cons.injEq]; refine ⟨rfl, ?_⟩
    by_cases hn : sel.toNat + 1 = vs.length
    · have : Spec.nextSelector sel.toNat vs.length = 0xFF#8 := by simp [Spec.nextSelector, hn]
      rw [if_pos this, List.drop_eq_nil_of_le (by omega)]; rfl
    · have hns : Spec.nextSelector sel.toNat vs.length = BitVec.ofNat 8 (sel.toNat + 1) := by
        simp [Spec.nextSelector, hn]
      have htn : (BitVec.ofNat 8 (sel.toNat + 1)).toNat = sel.toNat + 1 := by
        simp only [BitVec.toNat_ofNat]; omega
      have hne : BitVec.ofNat 8 (sel.toNat + 1) ≠ 0xFF#8 := by
        intro h; have := congrArg BitVec.toNat h; rw [htn] at this; simp at this; omega
      rw [hns, if_neg hne]
      have := ih c2' (BitVec.ofNat 8 (sel.toNat + 1)) hc' (hvs'.trans hvs) (by rw [htn]; omega) (by rw [htn]; omega)
      rw [this, htn]

/-- starting at selector 0 and following the decoded next selectors, the requester sees every
configured vendor set exactly once, in configuration order, and then stops -/
theorem session_walk_complete (c1 c2 : Ctx) (dst : B) (hc : Spec.configOk c2 = true) :
    sessionWalk c1 dst 256 c2 0x00#8 = c2.vendorIds.map Spec.encodeSet := by
  obtain ⟨_, _, h1, h255, _⟩ := (Proc.configOk_iff c2).mp hc
  have := walk_from c1 dst c2.vendorIds 256 c2 0x00#8 hc rfl (by simp; omega) (by simp; omega)
  simpa using this

end History
end Mctp
