/-
C08 — vendor-defined and SPDM messages are framed with the right vendor header.
-/
import Mctp.Lemmas.EncodeApi
import Mctp.Spec.Api
namespace Mctp
namespace C08

/-- type byte, vendor ID most-significant byte first, then the message verbatim; SPDM / secured:
type byte, optional header and body verbatim -/
theorem frame (c : Ctx) (dst : B) (e : Enc) (buf buf' fr : Bytes) (n : Nat)
    (hv : Spec.vendorFrame e = some fr)
    (h : encode c dst e buf = .ok (buf', n)) :
    Spec.message (buf'.take n) = fr := by
  obtain ⟨t, hd, d, hb, -, -, hn, hp⟩ := encode_ok_take h
  have hl : (buf'.take n).length = n := by
    rw [hp, List.length_append, packetPre_length, hn]; simp; omega
  unfold Spec.message
  rw [hl, hp, sub_pre _ _ _ _ (by rw [packetPre_length, hn]; omega), packetPre_cons, ← vendorFrame_body hv hb]
  rfl

/-- any other vendor ID format is refused -/
theorem bad_format (c : Ctx) (dst : B) (v : VendorId) (msg buf : Bytes)
    (h0 : v.format ≠ 0#8) (h1 : v.format ≠ 1#8) :
    encode c dst (.vendorDefined v msg) buf = .err () := by
  unfold encode
  simp [Enc.body, h0, h1]

end C08
end Mctp
