/-
C08 — vendor-defined and SPDM messages are framed with the right vendor header.
-/
import Mctp.Lemmas.Encode
import Mctp.Spec.Api
namespace Mctp
namespace C08

/-- type byte, vendor ID most-significant byte first, then the message verbatim; SPDM / secured:
type byte, optional header and body verbatim -/
theorem frame (c : Ctx) (dst : B) (e : Enc) (buf buf' fr : Bytes) (n : Nat)
    (hv : Spec.vendorFrame e = some fr)
    (h : encode c dst e buf = .ok (buf', n)) :
    Spec.message (buf'.take n) = fr := by
  sorry

/-- any other vendor ID format is refused -/
theorem bad_format (c : Ctx) (dst : B) (v : VendorId) (msg buf : Bytes)
    (h0 : v.format ≠ 0#8) (h1 : v.format ≠ 1#8) :
    encode c dst (.vendorDefined v msg) buf = .err () := by
  sorry

end C08
end Mctp
