/-
C05 — MCTP transport header and message-type byte of encoded packets.
-/
import Mctp.Lemmas.EncodeApi
import Mctp.Spec.Api
namespace Mctp
namespace C05

theorem transport (c : Ctx) (dst : B) (e : Enc) (buf buf' : Bytes) (n : Nat)
    (h : encode c dst e buf = .ok (buf', n)) :
    Spec.transportOk c.address dst e (buf'.take n) = true := by
  obtain ⟨t, hd, d, hb, -, -, hn, hp⟩ := encode_ok_take h
  have ht := typeByte_body hb
  unfold Spec.transportOk
  rw [hp, packetPre_cons]
  simp [byteAt]
  exact ht

/-- also for API misuse of the SPDM writer: the type byte is the 7-bit type, IC clear -/
theorem type_byte_general (c : Ctx) (dst : B) (t : MsgType) (hd : Option Bytes) (d buf buf' : Bytes) (n : Nat)
    (h : encode c dst (.genSpdm t hd d) buf = .ok (buf', n)) :
    byteAt (buf'.take n) 8 = t.toByte &&& 0x7F#8 := by
  obtain ⟨t', hd', d', hb, -, -, hn, hp⟩ := encode_ok_take h
  simp [Enc.body] at hb
  obtain ⟨rfl, rfl, rfl⟩ := hb
  rw [hp, packetPre_cons]
  simp [byteAt]

end C05
end Mctp
