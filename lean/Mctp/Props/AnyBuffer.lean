/-
C13 without the 64-byte precondition on response buffers: the EID bookkeeping of the model follows
the abstract specification for EVERY operation, whatever the size of the response buffer (an accepted
Set/Force request assigns both halves even when the answer does not fit and the call panics; nothing
else ever writes them).
-/
import Mctp.Props.C13
namespace Mctp
namespace AnyBuffer

theorem step (c : Ctx) (op : Op) :
    ((stepOp c op).1.reqEid, (stepOp c op).1.respEid) = Spec.eidsStep (c.reqEid, c.respEid) op := by
  cases op with
  | process p buf =>
    rw [Proc.stepOp_process, Proc.process_eids]
    rfl
  | setUuid u =>
    show ((if u.length = 16 then ({ c with uuid := u }, Obs.unit) else (c, Obs.panicked ⟨.copyLen, .smbus⟩)).1.reqEid,
          (if u.length = 16 then ({ c with uuid := u }, Obs.unit) else (c, Obs.panicked ⟨.copyLen, .smbus⟩)).1.respEid) =
      (c.reqEid, c.respEid)
    split <;> rfl
  | _ => rfl

theorem refine (a : B) (ts : Bytes) (vs : List VendorId) (ops : List Op) :
    let c := (runOps (Ctx.new a ts vs) ops).1
    (c.reqEid, c.respEid) = Spec.eids ops := by
  have gen : ∀ (ops : List Op) (c : Ctx),
      ((runOps c ops).1.reqEid, (runOps c ops).1.respEid) = ops.foldl Spec.eidsStep (c.reqEid, c.respEid) := by
    intro ops
    induction ops with
    | nil => intro c; rfl
    | cons op ops ih =>
      intro c
      rw [Proc.runOps_cons, List.foldl_cons, ← step c op]
      exact ih _
  exact gen ops (Ctx.new a ts vs)

/-- in particular the two halves can only be driven apart by the accessors, never by traffic -/
theorem halves_agree_after_traffic (c : Ctx) (p buf : Bytes) (h : c.reqEid = c.respEid) :
    (process c p buf).1.reqEid = (process c p buf).1.respEid := by
  have hs := Proc.process_eids c p buf
  have h1 : (process c p buf).1.reqEid = _ := congrArg Prod.fst hs
  have h2 : (process c p buf).1.respEid = _ := congrArg Prod.snd hs
  rw [h1, h2]
  cases Spec.assigns p with
  | some e => rfl
  | none => exact h

end AnyBuffer
end Mctp
