/-
Helper lemmas: GF(2)-linear algebra of the byte-wise CRC-8 (Model/Crc8.lean) and its
equality with the bit-serial specification (Spec/Crc.lean).
-/
import Mctp.Model.Crc8
import Mctp.Spec.Crc
namespace Mctp

theorem step_lin (a b : B) : step (a ^^^ b) = step a ^^^ step b := by
  unfold step
  rw [BitVec.msb_xor, BitVec.shiftLeft_xor_distrib]
  cases a.msb <;> cases b.msb <;> simp
  · ac_rfl
  · ac_rfl
  · have : a <<< 1 ^^^ 7#8 ^^^ (b <<< 1 ^^^ 7#8) = (a <<< 1 ^^^ b <<< 1) ^^^ (7#8 ^^^ 7#8) := by ac_rfl
    rw [this, BitVec.xor_self, BitVec.xor_zero]

theorem step8_lin (a b : B) : step8 (a ^^^ b) = step8 a ^^^ step8 b := by
  simp [step8, step_lin]

theorem step_zero : step 0 = 0 := by decide
@[simp] theorem step8_zero : step8 0#8 = 0#8 := by decide

theorem step8_eq_zero : ∀ c : B, step8 c = 0 → c = 0 := by
  apply forall_byte; decide +kernel

theorem step8_inj (a b : B) (h : step8 a = step8 b) : a = b := by
  have : step8 (a ^^^ b) = 0 := by rw [step8_lin, h, BitVec.xor_self]; rfl
  have := step8_eq_zero _ this
  exact BitVec.xor_eq_zero_iff.mp this

theorem crcFrom_nil (c : B) : crcFrom c [] = c := rfl
theorem crcFrom_cons (c b : B) (xs : Bytes) : crcFrom c (b :: xs) = crcFrom (byteStep c b) xs := rfl

theorem crcFrom_append (c : B) (xs ys : Bytes) : crcFrom c (xs ++ ys) = crcFrom (crcFrom c xs) ys := by
  simp [crcFrom, List.foldl_append]

theorem crc_append_self (xs : Bytes) : crc8 (xs ++ [crc8 xs]) = 0 := by
  simp [crc8, crcFrom_append, crcFrom, byteStep, step8_zero]

theorem crc_append_zero_iff (xs : Bytes) (b : B) : crc8 (xs ++ [b]) = 0 ↔ b = crc8 xs := by
  constructor
  · intro h
    simp [crc8, crcFrom_append, crcFrom, byteStep] at h
    have := step8_eq_zero _ h
    exact (BitVec.xor_eq_zero_iff.mp this).symm
  · rintro rfl; exact crc_append_self xs

theorem crcFrom_xor (c d : B) : ∀ (xs ys : Bytes), xs.length = ys.length →
    crcFrom (c ^^^ d) (Spec.xorBytes xs ys) = crcFrom c xs ^^^ crcFrom d ys
  | [], [], _ => by simp [crcFrom, Spec.xorBytes]
  | a :: as, b :: bs, h => by
    simp only [Spec.xorBytes, crcFrom, List.foldl_cons, byteStep]
    have : c ^^^ d ^^^ (a ^^^ b) = (c ^^^ a) ^^^ (d ^^^ b) := by ac_rfl
    rw [this, step8_lin]
    exact crcFrom_xor _ _ as bs (by simpa using h)
  | [], _ :: _, h => by simp at h
  | _ :: _, [], h => by simp at h

theorem crcFrom_zeros (n : Nat) : crcFrom 0 (List.replicate n 0) = 0 := by
  induction n with
  | zero => rfl
  | succ n ih => simp [List.replicate_succ, crcFrom, byteStep, step8_zero] at *; exact ih

theorem crcFrom_zeros_ne (n : Nat) (c : B) (hc : c ≠ 0) : crcFrom c (List.replicate n 0) ≠ 0 := by
  induction n generalizing c with
  | zero => simpa [crcFrom]
  | succ n ih =>
    simp only [List.replicate_succ, crcFrom, List.foldl_cons, byteStep, BitVec.xor_zero]
    apply ih
    intro h; exact hc (step8_eq_zero _ (by simpa using h))

end Mctp
