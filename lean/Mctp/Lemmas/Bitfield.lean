/-
Helper lemmas about the bit-field accessor loops (Model/Bitfield.lean), for buffers of any length.
-/
import Mctp.Model.Bitfield
import Mctp.Model.Views
namespace Mctp

theorem putBit_getLsbD (b : B) (pos : Nat) (v : Bool) (j : Nat) (hp : pos < 8) :
    (putBit b pos v).getLsbD j = if j = pos then v else b.getLsbD j := by
  unfold putBit
  by_cases hj : j = pos
  · subst hj; cases v <;> simp [hp]
  · by_cases h8 : j < 8
    · by_cases hlt : j < pos
      · cases v <;> simp [h8, hlt, hj]
      · have : j - pos ≠ 0 := by omega
        cases v <;> simp [h8, hlt, hj, this]
    · have hb : b.getLsbD j = false := BitVec.getLsbD_of_ge _ _ (by omega)
      cases v <;> simp [h8, hj, hb]

theorem setBit_length (buf : Bytes) (k pos v) : (setBit buf k pos v).length = buf.length := by
  simp [setBit]

theorem getBit_setBit (buf : Bytes) (k pos : Nat) (v : Bool) (k' pos' : Nat) (hk : k < buf.length) (hp : pos < 8) :
    getBit (setBit buf k pos v) k' pos' = if k' = k ∧ pos' = pos then v else getBit buf k' pos' := by
  unfold getBit setBit
  by_cases h : k' = k
  · subst h; simp [List.getD_eq_getElem?_getD, hk, putBit_getLsbD, hp]
  · simp [List.getD_eq_getElem?_getD, h, Ne.symm h]

theorem setLoop_length (posOf) : ∀ (is : List Nat) (st : Bytes × Nat), (setLoop posOf is st).1.length = st.1.length
  | [], st => rfl
  | i :: is, (buf, v) => by simp [setLoop, setLoop_length posOf is, setBit_length]

/-- folding over a duplicate-free index list `is` writes bit `k` of `v` at index `is[k]` -/
theorem getBit_setLoop (posOf : Nat → Nat) (hpos : ∀ i, posOf i < 8)
    (inj : ∀ i j, i / 8 = j / 8 → posOf i = posOf j → i = j) :
    ∀ (is : List Nat) (buf : Bytes) (v : Nat) (j : Nat), is.Nodup → (∀ i ∈ is, i / 8 < buf.length) →
      getBit (setLoop posOf is (buf, v)).1 (j / 8) (posOf j) =
        if j ∈ is then v.testBit (is.idxOf j) else getBit buf (j / 8) (posOf j)
  | [], buf, v, j, _, _ => by simp [setLoop]
  | i :: is, buf, v, j, hnd, hlen => by
    have hnd' := (List.nodup_cons.mp hnd)
    have hi : i / 8 < buf.length := hlen i (by simp)
    rw [setLoop, getBit_setLoop posOf hpos inj is _ _ j hnd'.2
      (by intro k hk; rw [setBit_length]; exact hlen k (by simp [hk]))]
    by_cases hji : j = i
    · subst hji
      simp [hnd'.1, getBit_setBit, hi, hpos, Nat.testBit, List.idxOf_cons_self]
    · have hne : ¬ (j / 8 = i / 8 ∧ posOf j = posOf i) := fun h => hji (inj _ _ h.1 h.2)
      by_cases hmem : j ∈ is
      · have : List.idxOf j (i :: is) = List.idxOf j is + 1 := by
          have hb : (i == j) = false := by simpa using Ne.symm hji
          simp [List.idxOf_cons, hb]
        simp [hmem, hji, this, Nat.testBit_succ]
      · simp [hmem, hji, getBit_setBit, hi, hpos, hne]

/-! ### single-byte loops and localisation -/

/-- setter loop restricted to one byte -/
def byteSetLoop (posOf : Nat → Nat) : List Nat → B × Nat → B × Nat
  | [], st => st
  | i :: is, (b, v) => byteSetLoop posOf is (putBit b (posOf i) (v % 2 == 1), v / 2)

/-- getter loop restricted to one byte -/
def byteGetLoop (posOf : Nat → Nat) (b : B) : List Nat → Nat → Nat
  | [], acc => acc
  | i :: is, acc => byteGetLoop posOf b is (2 * acc + (if b.getLsbD (posOf i) then 1 else 0))

/-- the bits a setter loop leaves untouched -/
def clrMask (posOf : Nat → Nat) : List Nat → B
  | [] => BitVec.allOnes 8
  | i :: is => ~~~(1#8 <<< posOf i) &&& clrMask posOf is

theorem setLoop_append (posOf) : ∀ (is js : List Nat) (st : Bytes × Nat),
    setLoop posOf (is ++ js) st = setLoop posOf js (setLoop posOf is st)
  | [], js, st => rfl
  | i :: is, js, (buf, v) => by simp only [List.cons_append, setLoop]; exact setLoop_append posOf is js _

theorem getLoop_append (posOf) (buf : Bytes) : ∀ (is js : List Nat) (acc : Nat),
    getLoop posOf buf (is ++ js) acc = getLoop posOf buf js (getLoop posOf buf is acc)
  | [], js, acc => rfl
  | i :: is, js, acc => by simp only [List.cons_append, getLoop]; exact getLoop_append posOf buf is js _

/-- a getter loop whose indices all lie in byte `k` only reads `buf.getD k 0` -/
theorem getLoop_local (posOf) (buf : Bytes) (k : Nat) : ∀ (is : List Nat) (acc : Nat),
    (∀ i ∈ is, i / 8 = k) → getLoop posOf buf is acc = byteGetLoop posOf (buf.getD k 0) is acc
  | [], acc, _ => rfl
  | i :: is, acc, h => by
    have hi : i / 8 = k := h i (by simp)
    rw [getLoop, byteGetLoop, getBit, hi,
      getLoop_local posOf buf k is _ (fun j hj => h j (by simp [hj]))]

/-- a setter loop whose indices all lie in byte `k` only rewrites byte `k` -/
theorem setLoop_local (posOf) (k : Nat) : ∀ (is : List Nat) (buf : Bytes) (v : Nat),
    k < buf.length → (∀ i ∈ is, i / 8 = k) →
    setLoop posOf is (buf, v) =
      (buf.set k (byteSetLoop posOf is (buf.getD k 0, v)).1, (byteSetLoop posOf is (buf.getD k 0, v)).2)
  | [], buf, v, hk, _ => by
    simp [setLoop, byteSetLoop, List.getD_eq_getElem?_getD, hk]
  | i :: is, buf, v, hk, h => by
    have hi := h i (by simp)
    rw [setLoop, byteSetLoop, hi,
      setLoop_local posOf k is _ _ (by simpa [setBit_length] using hk) (fun j hj => h j (by simp [hj]))]
    simp [setBit, List.getD_eq_getElem?_getD, hk]

theorem byteSetLoop_snd (posOf) : ∀ (is : List Nat) (b : B) (v : Nat),
    (byteSetLoop posOf is (b, v)).2 = v / 2 ^ is.length
  | [], b, v => by simp [byteSetLoop]
  | i :: is, b, v => by
    rw [byteSetLoop, byteSetLoop_snd posOf is, List.length_cons, Nat.pow_succ', Nat.div_div_eq_div_mul]

theorem putBit_sep (b m c : B) (pos : Nat) (v : Bool) :
    putBit ((b &&& m) ||| c) pos v = (b &&& (m &&& ~~~(1#8 <<< pos))) ||| putBit c pos v := by
  unfold putBit
  ext j hj
  simp only [BitVec.getElem_or, BitVec.getElem_and, BitVec.getElem_not]
  cases b[j] <;> cases m[j] <;> cases c[j] <;> simp

/-- separation of variables: the old byte only contributes through the cleared mask -/
theorem byteSetLoop_sep (posOf) : ∀ (is : List Nat) (b m c : B) (v : Nat),
    (byteSetLoop posOf is ((b &&& m) ||| c, v)).1 =
      (b &&& (m &&& clrMask posOf is)) ||| (byteSetLoop posOf is (c, v)).1
  | [], b, m, c, v => by
    simp only [byteSetLoop, clrMask, BitVec.and_allOnes]
  | i :: is, b, m, c, v => by
    rw [byteSetLoop, putBit_sep, byteSetLoop_sep posOf is, byteSetLoop, clrMask, BitVec.and_assoc]

theorem byteSetLoop_zero (posOf) (is : List Nat) (b : B) (v : Nat) :
    (byteSetLoop posOf is (b, v)).1 = (b &&& clrMask posOf is) ||| (byteSetLoop posOf is (0#8, v)).1 := by
  have h := byteSetLoop_sep posOf is b (BitVec.allOnes 8) 0#8 v
  rw [BitVec.and_allOnes, BitVec.or_zero, BitVec.allOnes_and] at h; exact h

/-- only the low `is.length` bits of the value are consumed -/
theorem byteSetLoop_mod (posOf) : ∀ (is : List Nat) (n : Nat) (b : B) (v : Nat), is.length ≤ n →
    (byteSetLoop posOf is (b, v % 2 ^ n)).1 = (byteSetLoop posOf is (b, v)).1
  | [], n, b, v, _ => rfl
  | i :: is, 0, b, v, h => by simp at h
  | i :: is, n + 1, b, v, h => by
    have h1 : v % 2 ^ (n + 1) % 2 = v % 2 := by
      rw [Nat.pow_succ']; exact Nat.mod_mul_right_mod _ _ _
    have h2 : v % 2 ^ (n + 1) / 2 = v / 2 % 2 ^ n := by
      rw [Nat.pow_succ']; exact Nat.mod_mul_right_div_self _ _ _
    rw [byteSetLoop, byteSetLoop, h1, h2, byteSetLoop_mod posOf is n _ _ (by simpa using h)]

theorem byteGetLoop_acc (posOf) (b : B) : ∀ (is : List Nat) (acc : Nat),
    byteGetLoop posOf b is acc = 2 ^ is.length * acc + byteGetLoop posOf b is 0
  | [], acc => by simp [byteGetLoop]
  | i :: is, acc => by
    rw [byteGetLoop, byteGetLoop, byteGetLoop_acc posOf b is (2 * acc + _),
      byteGetLoop_acc posOf b is (2 * 0 + _), List.length_cons, Nat.pow_succ]
    grind

/-! ### fields that live inside one byte -/

theorem idxUp_byte (msb lsb k : Nat) (hl : lsb / 8 = k) (hm : msb / 8 = k) : ∀ i ∈ idxUp msb lsb, i / 8 = k := by
  intro i hi
  simp only [idxUp, List.mem_range'_1] at hi
  omega

theorem idxDown_byte (msb lsb k : Nat) (hl : lsb / 8 = k) (hm : msb / 8 = k) : ∀ i ∈ idxDown msb lsb, i / 8 = k := by
  intro i hi
  exact idxUp_byte msb lsb k hl hm i (by simpa [idxDown] using hi)

/-- what a single-byte getter computes from its byte -/
def Field.getByte (f : Field) (x : B) : Nat :=
  if f.msb0 then byteGetLoop posMsb0 x (idxUp f.msb f.lsb) 0 % 2 ^ (f.msb + 1 - f.lsb)
  else byteGetLoop posLsb0 x (idxDown f.msb f.lsb) 0 % 2 ^ (f.msb + 1 - f.lsb)

/-- what a single-byte setter stores into its byte -/
def Field.setByte (f : Field) (x : B) (v : Nat) : B :=
  if f.msb0 then (byteSetLoop posMsb0 (idxDown f.msb f.lsb) (x, v % 2 ^ f.valBits)).1
  else (byteSetLoop posLsb0 (idxUp f.msb f.lsb) (x, v % 2 ^ f.valBits)).1

/-- the bits of its byte a single-byte setter keeps -/
def Field.keepMask (f : Field) : B :=
  if f.msb0 then clrMask posMsb0 (idxDown f.msb f.lsb) else clrMask posLsb0 (idxUp f.msb f.lsb)

theorem Field.get_single_byte (f : Field) (k : Nat) (hl : f.lsb / 8 = k) (hm : f.msb / 8 = k) (buf : Bytes) :
    f.get buf = f.getByte (byteAt buf k) := by
  unfold Field.get Field.getByte getMsb0 getLsb0 byteAt
  rw [getLoop_local posMsb0 buf k _ _ (idxUp_byte _ _ k hl hm),
    getLoop_local posLsb0 buf k _ _ (idxDown_byte _ _ k hl hm)]

theorem Field.set_single_byte (f : Field) (k : Nat) (hl : f.lsb / 8 = k) (hm : f.msb / 8 = k) (buf : Bytes)
    (v : Nat) (hk : k < buf.length) : f.set buf v = buf.set k (f.setByte (byteAt buf k) v) := by
  unfold Field.set Field.setByte setMsb0 setLsb0 byteAt
  rw [setLoop_local posMsb0 k _ buf _ hk (idxDown_byte _ _ k hl hm),
    setLoop_local posLsb0 k _ buf _ hk (idxUp_byte _ _ k hl hm)]
  split <;> rfl

theorem Field.setByte_sep (f : Field) (x : B) (v : Nat) :
    f.setByte x v = (x &&& f.keepMask) ||| f.setByte 0#8 v := by
  unfold Field.setByte Field.keepMask
  split
  · exact byteSetLoop_zero _ _ _ _
  · exact byteSetLoop_zero _ _ _ _

theorem Field.set_length (f : Field) (buf : Bytes) (v : Nat) : (f.set buf v).length = buf.length := by
  unfold Field.set setMsb0 setLsb0
  split <;> exact setLoop_length _ _ _

/-! ### algebra of a bit range `[lo, lo+w)` inside a byte -/

theorem testBit_byte_range (z : B) (lo w j : Nat) :
    (z.toNat / 2 ^ lo % 2 ^ w).testBit j = (decide (j < w) && z.getLsbD (lo + j)) := by
  rw [Nat.testBit_mod_two_pow, Nat.testBit_div_two_pow, BitVec.getLsbD, Nat.add_comm]

theorem getLsbD_byte_update (x : B) (c lo w i : Nat) (h : lo + w ≤ 8) :
    ((x &&& ~~~(BitVec.ofNat 8 (2 ^ w - 1) <<< lo)) ||| (BitVec.ofNat 8 (c % 2 ^ w) <<< lo)).getLsbD i =
      if lo ≤ i ∧ i < lo + w then c.testBit (i - lo) else x.getLsbD i := by
  by_cases h8 : i < 8
  · simp only [BitVec.getLsbD_or, BitVec.getLsbD_and, BitVec.getLsbD_not, BitVec.getLsbD_shiftLeft,
      BitVec.getLsbD_ofNat, Nat.testBit_two_pow_sub_one, Nat.testBit_mod_two_pow, h8, decide_true, Bool.true_and]
    by_cases h1 : i < lo
    · have : ¬ (lo ≤ i ∧ i < lo + w) := by omega
      simp [h1, this]
    · by_cases h2 : i < lo + w
      · have h3 : i - lo < w := by omega
        have h4 : i - lo < 8 := by omega
        have : lo ≤ i ∧ i < lo + w := by omega
        simp [h1, h3, h4, this]
      · have h3 : ¬ i - lo < w := by omega
        have : ¬ (lo ≤ i ∧ i < lo + w) := by omega
        simp [h1, h3, this]
  · have : ¬ (lo ≤ i ∧ i < lo + w) := by omega
    rw [BitVec.getLsbD_of_ge _ _ (by omega), BitVec.getLsbD_of_ge x _ (by omega)]
    simp [this]

/-- reading back the range that was written -/
theorem byte_update_same (x : B) (c lo w : Nat) (h : lo + w ≤ 8) :
    ((x &&& ~~~(BitVec.ofNat 8 (2 ^ w - 1) <<< lo)) ||| (BitVec.ofNat 8 (c % 2 ^ w) <<< lo)).toNat / 2 ^ lo % 2 ^ w
      = c % 2 ^ w := by
  apply Nat.eq_of_testBit_eq
  intro j
  rw [testBit_byte_range, getLsbD_byte_update _ _ _ _ _ h, Nat.testBit_mod_two_pow]
  by_cases hj : j < w
  · have : lo ≤ lo + j ∧ lo + j < lo + w := by omega
    simp [hj, this]
  · simp [hj]

/-- reading a disjoint range of the same byte -/
theorem byte_update_other (x : B) (c lo w lo' w' : Nat) (h : lo + w ≤ 8) (hd : lo + w ≤ lo' ∨ lo' + w' ≤ lo) :
    ((x &&& ~~~(BitVec.ofNat 8 (2 ^ w - 1) <<< lo)) ||| (BitVec.ofNat 8 (c % 2 ^ w) <<< lo)).toNat / 2 ^ lo' % 2 ^ w'
      = x.toNat / 2 ^ lo' % 2 ^ w' := by
  apply Nat.eq_of_testBit_eq
  intro j
  rw [testBit_byte_range, testBit_byte_range, getLsbD_byte_update _ _ _ _ _ h]
  by_cases hj : j < w'
  · have : ¬ (lo ≤ lo' + j ∧ lo' + j < lo + w) := by omega
    simp [this]
  · simp [hj]

/-! ### closed forms for contiguous bit ranges -/

/-- bit-level description of a setter loop whose positions are `lo, lo+1, …, lo+w-1` -/
theorem getLsbD_byteSetLoop_range (posOf : Nat → Nat) : ∀ (is : List Nat) (lo w : Nat) (b : B) (v j : Nat),
    is.map posOf = List.range' lo w → lo + w ≤ 8 →
    (byteSetLoop posOf is (b, v)).1.getLsbD j =
      if lo ≤ j ∧ j < lo + w then v.testBit (j - lo) else b.getLsbD j
  | [], lo, w, b, v, j, hm, _ => by
    have hw : w = 0 := by simpa using (congrArg List.length hm).symm
    subst hw
    have : ¬ (lo ≤ j ∧ j < lo + 0) := by omega
    rw [if_neg this]; rfl
  | i :: is, lo, 0, b, v, j, hm, _ => by simp at hm
  | i :: is, lo, w + 1, b, v, j, hm, h8 => by
    rw [List.range'_succ, List.map_cons, List.cons.injEq] at hm
    rw [byteSetLoop, getLsbD_byteSetLoop_range posOf is (lo + 1) w _ _ j hm.2 (by omega),
      putBit_getLsbD _ _ _ _ (by omega), hm.1]
    by_cases h1 : j = lo
    · subst h1
      have : ¬ (j + 1 ≤ j ∧ j < j + 1 + w) := by omega
      simp [this, Nat.testBit_zero, BEq.beq]
    · by_cases h2 : lo + 1 ≤ j ∧ j < lo + 1 + w
      · have h3 : lo ≤ j ∧ j < lo + (w + 1) := by omega
        have h4 : j - lo = (j - (lo + 1)) + 1 := by omega
        rw [if_pos h2, if_pos h3, h4, Nat.testBit_succ]
      · have h3 : ¬ (lo ≤ j ∧ j < lo + (w + 1)) := by omega
        rw [if_neg h2, if_neg h3, if_neg h1]

/-- closed form of a setter loop whose positions are `lo, lo+1, …, lo+w-1` -/
theorem byteSetLoop_range (posOf : Nat → Nat) (is : List Nat) (lo w : Nat) (b : B) (v : Nat)
    (hm : is.map posOf = List.range' lo w) (h8 : lo + w ≤ 8) :
    (byteSetLoop posOf is (b, v)).1 =
      (b &&& ~~~(BitVec.ofNat 8 (2 ^ w - 1) <<< lo)) ||| (BitVec.ofNat 8 (v % 2 ^ w) <<< lo) := by
  apply BitVec.eq_of_getLsbD_eq
  intro j _
  rw [getLsbD_byteSetLoop_range posOf is lo w b v j hm h8, getLsbD_byte_update _ _ _ _ _ h8]

/-- closed form of a getter loop whose positions are `lo+w-1, …, lo+1, lo` -/
theorem byteGetLoop_range (posOf : Nat → Nat) (x : B) : ∀ (is : List Nat) (lo w acc : Nat),
    is.map posOf = (List.range' lo w).reverse →
    byteGetLoop posOf x is acc = acc * 2 ^ w + x.toNat / 2 ^ lo % 2 ^ w
  | [], lo, w, acc, hm => by
    have hw : w = 0 := by simpa using (congrArg List.length hm).symm
    subst hw; simp [byteGetLoop, Nat.mod_one]
  | i :: is, lo, 0, acc, hm => by simp at hm
  | i :: is, lo, w + 1, acc, hm => by
    rw [List.range'_1_concat, List.reverse_append, List.reverse_singleton, List.singleton_append,
      List.map_cons, List.cons.injEq] at hm
    rw [byteGetLoop, byteGetLoop_range posOf x is lo w _ hm.2, hm.1, Nat.mod_pow_succ (k := w),
      Nat.div_div_eq_div_mul, ← Nat.pow_add, BitVec.getLsbD, Nat.pow_succ]
    have hb : (if x.toNat.testBit (lo + w) then 1 else 0) = x.toNat / 2 ^ (lo + w) % 2 := by
      rw [← Nat.toNat_testBit]; cases x.toNat.testBit (lo + w) <;> rfl
    rw [hb]
    generalize x.toNat / 2 ^ (lo + w) % 2 = c
    generalize x.toNat / 2 ^ lo % 2 ^ w = d
    generalize 2 ^ w = p
    grind

/-- bit positions (inside the byte) visited by the setter of `f`, in loop order; the getter visits
them in the reverse order -/
def Field.setPos (f : Field) : List Nat :=
  if f.msb0 then (idxDown f.msb f.lsb).map posMsb0 else (idxUp f.msb f.lsb).map posLsb0

/-- closed form of the single-byte getter for a field occupying bits `[lo, lo+w)` of its byte -/
theorem Field.getByte_range (f : Field) (lo w : Nat) (hp : f.setPos = List.range' lo w) (x : B) :
    f.getByte x = x.toNat / 2 ^ lo % 2 ^ w := by
  have hw : f.msb + 1 - f.lsb = w := by
    have := congrArg List.length hp
    unfold Field.setPos at this
    split at this <;> simpa [idxDown, idxUp] using this
  unfold Field.setPos at hp
  unfold Field.getByte
  split
  · rename_i hb
    rw [if_pos hb] at hp
    rw [byteGetLoop_range posMsb0 x _ lo w 0 (by rw [← hp, idxDown, List.map_reverse, List.reverse_reverse]), hw]
    simp
  · rename_i hb
    rw [if_neg hb] at hp
    rw [byteGetLoop_range posLsb0 x _ lo w 0 (by rw [← hp, idxDown, List.map_reverse]), hw]
    simp

/-- closed form of the single-byte setter for a field occupying bits `[lo, lo+w)` of its byte -/
theorem Field.setByte_range (f : Field) (lo w : Nat) (hp : f.setPos = List.range' lo w) (h8 : lo + w ≤ 8)
    (hv : w ≤ f.valBits) (x : B) (v : Nat) :
    f.setByte x v =
      (x &&& ~~~(BitVec.ofNat 8 (2 ^ w - 1) <<< lo)) ||| (BitVec.ofNat 8 (v % 2 ^ w) <<< lo) := by
  have hmod : v % 2 ^ f.valBits % 2 ^ w = v % 2 ^ w :=
    Nat.mod_mod_of_dvd _ (Nat.pow_dvd_pow 2 hv)
  unfold Field.setPos at hp
  unfold Field.setByte
  split
  · rename_i hb
    rw [if_pos hb] at hp
    rw [byteSetLoop_range posMsb0 _ lo w x _ hp h8, hmod]
  · rename_i hb
    rw [if_neg hb] at hp
    rw [byteSetLoop_range posLsb0 _ lo w x _ hp h8, hmod]

/-- a field occupying bits `[lo, lo+w)` of byte `k` reads exactly those bits -/
theorem Field.get_range (f : Field) (k lo w : Nat) (hl : f.lsb / 8 = k) (hm : f.msb / 8 = k)
    (hp : f.setPos = List.range' lo w) (buf : Bytes) :
    f.get buf = (byteAt buf k).toNat / 2 ^ lo % 2 ^ w := by
  rw [Field.get_single_byte f k hl hm, Field.getByte_range f lo w hp]

/-- a field occupying bits `[lo, lo+w)` of byte `k` rewrites exactly those bits -/
theorem Field.set_range (f : Field) (k lo w : Nat) (hl : f.lsb / 8 = k) (hm : f.msb / 8 = k)
    (hp : f.setPos = List.range' lo w) (h8 : lo + w ≤ 8) (hv : w ≤ f.valBits) (buf : Bytes) (v : Nat)
    (hk : k < buf.length) :
    f.set buf v = buf.set k ((byteAt buf k &&& ~~~(BitVec.ofNat 8 (2 ^ w - 1) <<< lo)) |||
      (BitVec.ofNat 8 (v % 2 ^ w) <<< lo)) := by
  rw [Field.set_single_byte f k hl hm buf v hk, Field.setByte_range f lo w hp h8 hv]

theorem byteAt_set (buf : Bytes) (k k' : Nat) (z : B) (hk : k < buf.length) :
    byteAt (buf.set k z) k' = if k' = k then z else byteAt buf k' := by
  unfold byteAt
  by_cases h : k' = k
  · subst h; simp [List.getD_eq_getElem?_getD, hk]
  · simp [List.getD_eq_getElem?_getD, h, Ne.symm h]

/-! ### whole-byte loops (multi-byte big-endian fields are concatenations of these) -/

/-- a getter loop that shifts in one whole byte, most significant bit first -/
theorem getLoop_byte (posOf : Nat → Nat) (buf : Bytes) (is : List Nat) (k acc : Nat)
    (hk : ∀ i ∈ is, i / 8 = k) (hp : is.map posOf = (List.range' 0 8).reverse) :
    getLoop posOf buf is acc = acc * 256 + (byteAt buf k).toNat := by
  rw [getLoop_local posOf buf k is acc hk, byteGetLoop_range posOf _ is 0 8 acc hp]
  have := (byteAt buf k).isLt
  unfold byteAt at *
  omega

/-- a setter loop that stores the low 8 bits of the value into one whole byte -/
theorem setLoop_byte (posOf : Nat → Nat) (is : List Nat) (k : Nat) (buf : Bytes) (v : Nat)
    (hk : ∀ i ∈ is, i / 8 = k) (hlen : k < buf.length) (hp : is.map posOf = List.range' 0 8) :
    setLoop posOf is (buf, v) = (buf.set k (BitVec.ofNat 8 v), v / 256) := by
  have hl : is.length = 8 := by simpa using congrArg List.length hp
  rw [setLoop_local posOf k is buf v hlen hk, byteSetLoop_snd, hl,
    byteSetLoop_range posOf is 0 8 _ v hp (by omega)]
  have h1 : ∀ b : B, b &&& ~~~(BitVec.ofNat 8 (2 ^ 8 - 1) <<< 0) = 0#8 := by
    apply forall_byte; decide +kernel
  have h2 : BitVec.ofNat 8 (v % 2 ^ 8) = BitVec.ofNat 8 v := by
    apply BitVec.eq_of_toNat_eq; simp
  rw [h1, h2]; simp

end Mctp
