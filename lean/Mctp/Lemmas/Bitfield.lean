/-
Helper lemmas about the bit-field accessor loops (Model/Bitfield.lean), for buffers of any length.
-/
import Mctp.Model.Bitfield
namespace Mctp

theorem putBit_getLsbD (b : B) (pos : Nat) (v : Bool) (j : Nat) (hp : pos < 8) :
    (putBit b pos v).getLsbD j = if j = pos then v else b.getLsbD j := by
  unfold putBit
  by_cases hj : j = pos
  · subst hj; cases v <;> simp [hp]
  · by_cases h8 : j < 8
    · by_cases hlt : j < pos
      · cases v <;> simp [h8, hlt, hj]
      · have : j - pos ≠ 0 := by omega
        cases v <;> simp [h8, hlt, hj, this]
    · have hb : b.getLsbD j = false := BitVec.getLsbD_of_ge _ _ (by omega)
      cases v <;> simp [h8, hj, hb]

theorem setBit_length (buf : Bytes) (k pos v) : (setBit buf k pos v).length = buf.length := by
  simp [setBit]

theorem getBit_setBit (buf : Bytes) (k pos : Nat) (v : Bool) (k' pos' : Nat) (hk : k < buf.length) (hp : pos < 8) :
    getBit (setBit buf k pos v) k' pos' = if k' = k ∧ pos' = pos then v else getBit buf k' pos' := by
  unfold getBit setBit
  by_cases h : k' = k
  · subst h; simp [List.getD_eq_getElem?_getD, hk, putBit_getLsbD, hp]
  · simp [List.getD_eq_getElem?_getD, List.getElem?_set, h, Ne.symm h]

theorem setLoop_length (posOf) : ∀ (is : List Nat) (st : Bytes × Nat), (setLoop posOf is st).1.length = st.1.length
  | [], st => rfl
  | i :: is, (buf, v) => by simp [setLoop, setLoop_length posOf is, setBit_length]

/-- folding over a duplicate-free index list `is` writes bit `k` of `v` at index `is[k]` -/
theorem getBit_setLoop (posOf : Nat → Nat) (hpos : ∀ i, posOf i < 8)
    (inj : ∀ i j, i / 8 = j / 8 → posOf i = posOf j → i = j) :
    ∀ (is : List Nat) (buf : Bytes) (v : Nat) (j : Nat), is.Nodup → (∀ i ∈ is, i / 8 < buf.length) →
      getBit (setLoop posOf is (buf, v)).1 (j / 8) (posOf j) =
        if j ∈ is then v.testBit (is.idxOf j) else getBit buf (j / 8) (posOf j)
  | [], buf, v, j, _, _ => by simp [setLoop]
  | i :: is, buf, v, j, hnd, hlen => by
    have hnd' := (List.nodup_cons.mp hnd)
    have hi : i / 8 < buf.length := hlen i (by simp)
    rw [setLoop, getBit_setLoop posOf hpos inj is _ _ j hnd'.2
      (by intro k hk; rw [setBit_length]; exact hlen k (by simp [hk]))]
    by_cases hji : j = i
    · subst hji
      simp [hnd'.1, getBit_setBit, hi, hpos, Nat.testBit, List.idxOf_cons_self]
    · have hne : ¬ (j / 8 = i / 8 ∧ posOf j = posOf i) := fun h => hji (inj _ _ h.1 h.2)
      by_cases hmem : j ∈ is
      · have : List.idxOf j (i :: is) = List.idxOf j is + 1 := by
          have hb : (i == j) = false := by simpa using Ne.symm hji
          simp [List.idxOf_cons, hb]
        simp [hmem, hji, this, Nat.testBit_succ]
      · simp [hmem, hji, getBit_setBit, hi, hpos, hne]

end Mctp
