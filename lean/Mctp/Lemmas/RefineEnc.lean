/-
Helper lemmas for Props/RefineEnc: the packet normal form (`packetBytes_eq`) restated as the reference
packet around a message, and the two generic steps of the per-call comparison
(`via_body`: the call hands a body to the packet generator; `via_err`: the arguments are documented-invalid).
-/
import Mctp.Lemmas.EncodeApi
import Mctp.Lemmas.Decode
import Mctp.Spec.RefEncode
namespace Mctp
namespace RefineEnc

/-- the reference packet around a message -/
def refPacket (addr dst : B) (m : Bytes) : Bytes :=
  let pre := ((dst &&& 0x7F#8) <<< 1) :: 0x0F#8 :: BitVec.ofNat 8 (m.length + 5) ::
    (((addr &&& 0x7F#8) <<< 1) ||| 1#8) :: 0x01#8 :: dst :: addr :: 0xC8#8 :: m
  pre ++ [Spec.crc pre]

theorem packetBytes_eq_ref (a dst : B) (t : MsgType) (h : Option Bytes) (d m : Bytes)
    (hm : (t.toByte &&& 0x7F#8) :: (optBytes h ++ d) = m) :
    packetBytes a dst t h d = refPacket a dst m := by
  subst hm
  have hl : 6 + optLen h + d.length = ((t.toByte &&& 0x7F#8) :: (optBytes h ++ d)).length + 5 := by
    simp [optBytes_length]; omega
  rw [packetBytes_eq, crc8_eq_spec, packetPre, hl]
  rfl

theorem encodeBytes_of_body {c : Ctx} {dst : B} {e : Enc} {t : MsgType} {h : Option Bytes} {d : Bytes}
    (m : Bytes) (hb : e.body c = .ok (t, h, d)) (hs : e.isStub = false)
    (hm : (t.toByte &&& 0x7F#8) :: (optBytes h ++ d) = m) :
    encodeBytes c dst e = if 250 < m.length then .err () else .ok (refPacket c.address dst m) := by
  have hl : m.length = 1 + optLen h + d.length := by
    subst hm; simp [optBytes_length]; omega
  unfold encodeBytes
  rw [hb, Out.bind_ok]
  simp only [hs, maxBodyLen, hl, packetBytes_eq_ref _ _ _ _ _ _ hm]
  rfl

theorem via_body {c : Ctx} {dst : B} {e : Enc} {t : MsgType} {h : Option Bytes} {d : Bytes}
    (hb : e.body c = .ok (t, h, d)) (hs : e.isStub = false)
    (hm : (t.toByte &&& 0x7F#8) :: (optBytes h ++ d) = Spec.libMessage c.respEid e)
    (href : Spec.refEncode c.address c.respEid dst e =
      if 250 < (Spec.libMessage c.respEid e).length then .err ()
      else .ok (refPacket c.address dst (Spec.libMessage c.respEid e))) :
    encodeBytes c dst e = Spec.refEncode c.address c.respEid dst e := by
  rw [href, encodeBytes_of_body _ hb hs hm]

theorem via_err {c : Ctx} {dst : B} {e : Enc} (hd : Spec.documentedInvalid e = true) :
    encodeBytes c dst e = Spec.refEncode c.address c.respEid dst e := by
  unfold encodeBytes Spec.refEncode
  rw [(body_err_iff c e).mpr hd, if_pos hd, Out.bind_err]

end RefineEnc
end Mctp
