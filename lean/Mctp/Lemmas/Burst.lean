/-
Helper lemmas for C02: an error pattern confined to eight consecutive wire bits (`Spec.isBurst8`)
has a non-zero CRC-8, hence XOR-ing it onto a packet that passes the PEC test yields one that fails it.
-/
import Mctp.Lemmas.Decode
namespace Mctp

theorem mem_setBits (e : Bytes) (i : Nat) :
    i ∈ Spec.setBits e ↔ i < 8 * e.length ∧ (e.getD (i / 8) 0).getLsbD (7 - i % 8) = true := by
  simp [Spec.setBits]

theorem isBurst8_iff (e : Bytes) :
    Spec.isBurst8 e = true ↔ (∃ i, i ∈ Spec.setBits e) ∧
      ∀ i ∈ Spec.setBits e, ∀ j ∈ Spec.setBits e, i < j + 8 ∧ j < i + 8 := by
  unfold Spec.isBurst8
  simp only [Bool.and_eq_true, Bool.not_eq_true', List.all_eq_true, decide_eq_true_eq]
  constructor
  · rintro ⟨h1, h2⟩
    refine ⟨?_, h2⟩
    cases hs : Spec.setBits e with
    | nil => rw [hs] at h1; simp at h1
    | cons a as => exact ⟨a, by simp⟩
  · rintro ⟨⟨i, hi⟩, h2⟩
    refine ⟨?_, h2⟩
    cases hs : Spec.setBits e with
    | nil => rw [hs] at hi; simp at hi
    | cons a as => rfl

theorem byte_ne_zero_bit : ∀ y : B, y ≠ 0#8 → ∃ b, b < 8 ∧ y.getLsbD b = true := by
  apply forall_byte; decide +kernel

theorem burst_pair_table : ∀ hi : B, hi ≠ 0#8 → Spec.isBurst8 [hi, step8 hi] = false := by
  apply forall_byte; decide +kernel


theorem mem_setBits_cons (x : B) (xs : Bytes) (i : Nat) :
    i + 8 ∈ Spec.setBits (x :: xs) ↔ i ∈ Spec.setBits xs := by
  rw [mem_setBits, mem_setBits]
  have h1 : (i + 8) / 8 = i / 8 + 1 := by omega
  have h2 : (i + 8) % 8 = i % 8 := by omega
  rw [h1, h2, List.getD_cons_succ, List.length_cons]
  constructor
  · rintro ⟨a, b⟩; exact ⟨by omega, b⟩
  · rintro ⟨a, b⟩; exact ⟨by omega, b⟩

theorem mem_setBits_head (x : B) (xs : Bytes) (b : Nat) (hb : b < 8) (h : x.getLsbD b = true) :
    7 - b ∈ Spec.setBits (x :: xs) := by
  rw [mem_setBits]
  have h1 : (7 - b) / 8 = 0 := by omega
  have h2 : 7 - (7 - b) % 8 = b := by omega
  rw [h1, h2, List.length_cons]
  exact ⟨by omega, h⟩

theorem setBits_zero_head (xs : Bytes) (i : Nat) (h : i ∈ Spec.setBits (0#8 :: xs)) : 8 ≤ i := by
  rw [mem_setBits] at h
  apply Classical.byContradiction; intro hlt
  have h1 : i / 8 = 0 := by omega
  rw [h1] at h
  simp at h

theorem isBurst8_zero_cons (xs : Bytes) (h : Spec.isBurst8 (0#8 :: xs) = true) : Spec.isBurst8 xs = true := by
  rw [isBurst8_iff] at h ⊢
  obtain ⟨⟨i, hi⟩, hall⟩ := h
  constructor
  · have h8 := setBits_zero_head xs i hi
    refine ⟨i - 8, ?_⟩
    rw [← mem_setBits_cons 0#8 xs]
    have : i - 8 + 8 = i := by omega
    rw [this]; exact hi
  · intro a ha b hb
    have := hall (a + 8) ((mem_setBits_cons _ _ _).mpr ha) (b + 8) ((mem_setBits_cons _ _ _).mpr hb)
    omega

theorem isBurst8_head_ne_zero (x lo : B) (zs : Bytes) (hx : x ≠ 0#8)
    (h : Spec.isBurst8 (x :: lo :: zs) = true) :
    (∀ z ∈ zs, z = 0#8) ∧ Spec.isBurst8 [x, lo] = true := by
  rw [isBurst8_iff] at h
  obtain ⟨_, hall⟩ := h
  obtain ⟨b, hb, hbit⟩ := byte_ne_zero_bit x hx
  have hq := mem_setBits_head x (lo :: zs) b hb hbit
  have hsub : ∀ i, i ∈ Spec.setBits [x, lo] → i ∈ Spec.setBits (x :: lo :: zs) := by
    intro i hi
    rw [mem_setBits] at hi ⊢
    obtain ⟨h16, hbit⟩ := hi
    simp only [List.length_cons, List.length_nil] at h16
    refine ⟨by simp only [List.length_cons]; omega, ?_⟩
    have : i / 8 = 0 ∨ i / 8 = 1 := by omega
    rcases this with h | h <;> rw [h] at hbit ⊢ <;> simpa using hbit
  constructor
  · intro z hz
    apply Classical.byContradiction; intro hz0
    obtain ⟨b', hb', hbit'⟩ := byte_ne_zero_bit z hz0
    obtain ⟨k, hk, hzk⟩ := List.getElem_of_mem hz
    have hmem : 8 * (k + 2) + (7 - b') ∈ Spec.setBits (x :: lo :: zs) := by
      rw [mem_setBits]
      have h1 : (8 * (k + 2) + (7 - b')) / 8 = k + 2 := by omega
      have h2 : 7 - (8 * (k + 2) + (7 - b')) % 8 = b' := by omega
      rw [h1, h2]
      refine ⟨by simp only [List.length_cons]; omega, ?_⟩
      have hget : (x :: lo :: zs).getD (k + 2) 0 = z := by
        simp [List.getD_eq_getElem?_getD, hk, hzk]
      rw [hget]; exact hbit'
    have := hall _ hmem _ hq
    omega
  · rw [isBurst8_iff]
    refine ⟨⟨7 - b, mem_setBits_head x [lo] b hb hbit⟩, ?_⟩
    intro i hi j hj
    exact hall i (hsub i hi) j (hsub j hj)

theorem isBurst8_singleton_ne_zero (x : B) (h : Spec.isBurst8 [x] = true) : x ≠ 0#8 := by
  rintro rfl; revert h; decide

theorem byteStep_zero_left (x : B) : byteStep 0 x = step8 x := by simp [byteStep]

/-- an error pattern confined to eight consecutive wire bits has a non-zero CRC -/
theorem crc8_burst_ne_zero : ∀ e : Bytes, Spec.isBurst8 e = true → crc8 e ≠ 0#8
  | [], h => by revert h; decide
  | x :: xs, h => by
    by_cases hx : x = 0#8
    · subst hx
      have ih := crc8_burst_ne_zero xs (isBurst8_zero_cons xs h)
      unfold crc8 at ih ⊢
      rw [crcFrom_cons]
      have : byteStep 0 0#8 = 0 := by decide
      rw [this]; exact ih
    · match xs, h with
      | [], _ =>
        intro h0
        unfold crc8 at h0
        rw [crcFrom_cons, crcFrom_nil] at h0
        rw [byteStep_zero_left] at h0
        exact hx (step8_eq_zero _ h0)
      | lo :: zs, h =>
        obtain ⟨hz, hpair⟩ := isBurst8_head_ne_zero x lo zs hx h
        have hzs : zs = List.replicate zs.length 0#8 := List.eq_replicate_iff.mpr ⟨rfl, hz⟩
        unfold crc8
        rw [crcFrom_cons, crcFrom_cons, hzs]
        apply crcFrom_zeros_ne
        intro h0
        rw [byteStep_zero_left] at h0
        unfold byteStep at h0
        have h1 := step8_eq_zero _ h0
        have h2 : lo = step8 x := (BitVec.xor_eq_zero_iff.mp h1).symm
        rw [h2, burst_pair_table x hx] at hpair
        simp at hpair


theorem length_xorBytes : ∀ (xs ys : Bytes), xs.length = ys.length → (Spec.xorBytes xs ys).length = xs.length
  | [], [], _ => rfl
  | a :: as, b :: bs, h => by
    simp only [Spec.xorBytes, List.length_cons]
    rw [length_xorBytes as bs (by simpa using h)]
  | [], _ :: _, h => by simp at h
  | _ :: _, [], h => by simp at h

theorem pecOk_concat (xs : Bytes) (b : B) : Spec.pecOk (xs ++ [b]) = (b == Spec.crc xs) := by
  simp [Spec.pecOk]

/-- a packet passes the PEC test iff it is non-empty and its CRC over all bytes (PEC included) is zero -/
theorem pecOk_iff_crc (q : Bytes) : Spec.pecOk q = true ↔ q ≠ [] ∧ crc8 q = 0#8 := by
  rcases List.eq_nil_or_concat q with rfl | ⟨xs, b, rfl⟩
  · simp [Spec.pecOk]
  · rw [List.concat_eq_append, pecOk_concat, ← crc8_eq_spec]
    have h := crc_append_zero_iff xs b
    constructor
    · intro hb; exact ⟨by simp, h.mpr (by simpa using hb)⟩
    · rintro ⟨_, h0⟩; simpa using h.mp h0

theorem crc8_xorBytes (xs ys : Bytes) (h : xs.length = ys.length) :
    crc8 (Spec.xorBytes xs ys) = crc8 xs ^^^ crc8 ys := by
  have := crcFrom_xor 0 0 xs ys h
  simpa [crc8] using this

theorem pecOk_burst (p e : Bytes) (hp : Spec.pecOk p = true) (he : Spec.isBurst8 e = true)
    (hl : e.length = p.length) : Spec.pecOk (Spec.xorBytes p e) = false := by
  obtain ⟨_, hcrc⟩ := (pecOk_iff_crc p).mp hp
  cases hx : Spec.pecOk (Spec.xorBytes p e)
  · rfl
  · obtain ⟨_, h0⟩ := (pecOk_iff_crc _).mp hx
    rw [crc8_xorBytes p e hl.symm, hcrc, BitVec.zero_xor] at h0
    exact absurd h0 (crc8_burst_ne_zero e he)

end Mctp
