/-
Helper lemmas about `process`: the arms of `dispatch` with the exact response length as the
buffer hypothesis, and the panic arms with no buffer hypothesis at all.
-/
import Mctp.Lemmas.ProcessPanic
namespace Mctp
namespace Proc

section arms
variable (c : Ctx) (cmd src : B) (pay : Nat → B) (buf : Bytes)

/-- `dispatch_msgTypes_ok` with the exact response length as buffer hypothesis -/
theorem dispatch_msgTypes_fit (h : Cmd.ofByte cmd = .getMessageTypeSupport) (ht : c.msgTypes.length ≤ 30)
    (hb : 14 + c.msgTypes.length ≤ buf.length) :
    dispatch c cmd src pay buf =
      (c, .ok (14 + c.msgTypes.length),
        respPkt c.address src 0x05#8 (0x00#8 :: BitVec.ofNat 8 c.msgTypes.length :: c.msgTypes) ++
          buf.drop (14 + c.msgTypes.length)) := by
  rw [dispatch_msgTypes c cmd src pay buf h]
  have hbody : (Enc.respMsgTypes 0#8 c.msgTypes).body c =
      .ok (.control, some (ctrlHeader false .getMessageTypeSupport),
        0x00#8 :: BitVec.ofNat 8 c.msgTypes.length :: c.msgTypes) := by
    simp [Enc.body]; omega
  have e : 12 + (0x00#8 :: BitVec.ofNat 8 c.msgTypes.length :: c.msgTypes).length = 14 + c.msgTypes.length := by
    simp; omega
  have hfit : (0x00#8 :: BitVec.ofNat 8 c.msgTypes.length :: c.msgTypes).length ≤ 247 := by simp; omega
  have := respond_ctrl c src _ buf .getMessageTypeSupport _ hbody rfl hfit (by rw [e]; exact hb)
  rw [e] at this
  exact this

/-- `dispatch_vendor_ok` with the exact response length as buffer hypothesis -/
theorem dispatch_vendor_fit (h : Cmd.ofByte cmd = .getVendorDefinedMessageSupport) (hsel : pay 0 ≠ 0xFF#8)
    (v : VendorId) (f : Bytes) (hv : c.vendorIds[(pay 0).toNat]? = some v) (hf : vendorField v = some f)
    (hlen : f.length ≤ 7) (hb : 14 + f.length ≤ buf.length) :
    dispatch c cmd src pay buf =
      ({ c with selector := nextSel c (pay 0) }, .ok (14 + f.length),
        respPkt c.address src 0x06#8 (0x00#8 :: nextSel c (pay 0) :: f) ++ buf.drop (14 + f.length)) := by
  rw [dispatch_vendor c cmd src pay buf h, if_neg hsel]
  simp only [hv, hf]
  have hbody : (Enc.respVendor 0#8 (nextSel c (pay 0)) f).body { c with selector := nextSel c (pay 0) } =
      .ok (.control, some (ctrlHeader false .getVendorDefinedMessageSupport), 0x00#8 :: nextSel c (pay 0) :: f) := by
    simp [Enc.body]; omega
  have e : 12 + (0x00#8 :: nextSel c (pay 0) :: f).length = 14 + f.length := by simp; omega
  have hfit : (0x00#8 :: nextSel c (pay 0) :: f).length ≤ 247 := by simp; omega
  have := respond_ctrl { c with selector := nextSel c (pay 0) } src _ buf .getVendorDefinedMessageSupport _ hbody rfl
    hfit (by rw [e]; exact hb)
  rw [e] at this
  exact this

/-- the D11 panic classes of `dispatch` need no room in the buffer: the panic is returned before
any encoder call -/
theorem dispatch_panic_nobuf (hu : Spec.reqUnimpl cmd = false) (k : Panic)
    (hk : dispPanic c.vendorIds.length cmd (pay 0) = some k) :
    ∃ c', dispatch c cmd src pay buf = (c', .panic k, buf) := by
  rcases cmdCase cmd with ⟨h, e⟩ | ⟨h, e⟩ | ⟨h, e⟩ | ⟨h, e⟩ | ⟨h, e⟩ | ⟨h, e⟩ | ⟨h, e⟩ | ⟨h, hne⟩
  · subst e
    rw [dispatch_reserved c _ src pay buf h]
    simp [dispPanic] at hk; subst hk
    exact ⟨_, rfl⟩
  · subst e
    rcases op_cases (pay 0) with ho | ho | ho | ho | ho
    · simp [dispPanic, ho] at hk
    · simp [dispPanic, ho] at hk
    · rw [dispatch_setEid c _ src pay buf h]
      simp [dispPanic, ho] at hk; subst hk
      simp only [ho]; exact ⟨_, rfl⟩
    · simp [dispPanic, ho] at hk
    · rw [dispatch_setEid c _ src pay buf h]
      have n0 : pay 0 ≠ 0#8 := by intro h0; rw [h0] at ho; simp at ho
      have n1 : pay 0 ≠ 1#8 := by intro h0; rw [h0] at ho; simp at ho
      have n2 : pay 0 ≠ 2#8 := by intro h0; rw [h0] at ho; simp at ho
      have n3 : pay 0 ≠ 3#8 := by intro h0; rw [h0] at ho; simp at ho
      simp [dispPanic, n2, ho] at hk; subst hk
      simp only [n0, n1, n2, n3, or_self, if_false]
      exact ⟨_, rfl⟩
  · subst e; simp [dispPanic] at hk
  · subst e; simp [dispPanic] at hk
  · subst e; simp [dispPanic] at hk
  · subst e; simp [dispPanic] at hk
  · subst e
    by_cases hff : pay 0 = 0xFF#8
    · rw [dispatch_vendor c _ src pay buf h, if_pos hff]
      simp [dispPanic, hff] at hk; subst hk
      exact ⟨_, rfl⟩
    · by_cases hn : c.vendorIds.length ≤ (pay 0).toNat
      · rw [dispatch_vendor c _ src pay buf h, if_neg hff, List.getElem?_eq_none hn]
        simp [dispPanic, hff, hn] at hk; subst hk
        exact ⟨_, rfl⟩
      · simp [dispPanic, hff, hn] at hk
  · obtain h78 := cmd78 cmd h hu
    rw [dispatch_other c cmd src pay buf hne]
    rcases h78 with rfl | rfl
    · simp [dispPanic] at hk; subst hk; exact ⟨_, rfl⟩
    · simp [dispPanic] at hk; subst hk; exact ⟨_, rfl⟩
end arms

end Proc
end Mctp
