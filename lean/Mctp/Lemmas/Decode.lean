/-
Helper lemmas: closed forms of the header getters used on the receive path and normal forms
of the decoder.
-/
import Mctp.Model.Decode
import Mctp.Spec.Accept
import Mctp.Lemmas.Bitfield
import Mctp.Lemmas.Crc
namespace Mctp

/-! ### the library's CRC is the specification's -/

theorem lfsr_eq_step (r : B) (bit : Bool) :
    Spec.lfsr r bit = step (r ^^^ (if bit then 0x80#8 else 0#8)) := by
  cases bit
  · revert r; apply forall_byte; decide +kernel
  · revert r; apply forall_byte; decide +kernel

theorem bitsOf_fold_zero : ∀ b : B, (Spec.bitsOf b).foldl Spec.lfsr 0#8 = step8 b := by
  apply forall_byte; decide +kernel

theorem lfsr_lin (r s : B) (bit : Bool) : Spec.lfsr (r ^^^ s) bit = step r ^^^ Spec.lfsr s bit := by
  rw [lfsr_eq_step, lfsr_eq_step, BitVec.xor_assoc, step_lin]

theorem foldl_lfsr_lin (bits : List Bool) : ∀ (r s : B),
    bits.foldl Spec.lfsr (r ^^^ s) = (bits.foldl (fun c _ => step c) r) ^^^ bits.foldl Spec.lfsr s := by
  induction bits with
  | nil => intro r s; rfl
  | cons b bs ih => intro r s; simp only [List.foldl_cons]; rw [lfsr_lin, ih]

theorem bitsOf_fold (c b : B) : (Spec.bitsOf b).foldl Spec.lfsr c = step8 (c ^^^ b) := by
  have h := foldl_lfsr_lin (Spec.bitsOf b) c 0#8
  rw [BitVec.xor_zero] at h
  rw [h, bitsOf_fold_zero, step8_lin]
  rfl

theorem crcFrom_eq_spec (xs : Bytes) : ∀ c : B, crcFrom c xs = (xs.flatMap Spec.bitsOf).foldl Spec.lfsr c := by
  induction xs with
  | nil => intro c; rfl
  | cons x xs ih =>
    intro c
    rw [List.flatMap_cons, List.foldl_append, bitsOf_fold, crcFrom_cons, ih]; rfl

theorem crc8_eq_spec (xs : Bytes) : crc8 xs = Spec.crc xs := by
  unfold crc8 Spec.crc Spec.crcBits; exact crcFrom_eq_spec xs 0

theorem pecOk_eq (p : Bytes) (h : p ≠ []) :
    Spec.pecOk p = (byteAt p (p.length - 1) == calcPec p) := by
  unfold Spec.pecOk calcPec byteAt
  rw [crc8_eq_spec, List.dropLast_eq_take]
  rw [List.getLast?_eq_getElem?]
  have : p.length - 1 < p.length := by
    cases p with
    | nil => exact absurd rfl h
    | cons a as => simp
  simp [List.getD_eq_getElem?_getD, List.getElem?_eq_getElem this]

/-! ### closed forms of the getters the decoder uses -/

/-- unfold a header getter on a literal buffer down to bits of single bytes -/
macro "getter_unfold" : tactic =>
  `(tactic| simp only [Field.get, getMsb0, getLsb0, idxUp, idxDown, getLoop, getBit, posMsb0, posLsb0,
      List.range', List.reverse_cons, List.reverse_nil, List.nil_append, List.cons_append,
      TransportHdr.rsvd, TransportHdr.hdrVersion, TransportHdr.sourceEndpointId, BodyHdr.ic, BodyHdr.msgType,
      CtrlHdr.rq, CtrlHdr.commandCode, SMBusHdr.commandCode, SMBusHdr.byteCount,
      if_true, if_false, Bool.false_eq_true, Nat.reduceAdd, Nat.reduceSub, Nat.reduceDiv, Nat.reduceMod,
      List.getD_cons_zero, List.getD_cons_succ, Nat.reduceMul, Nat.reducePow])

theorem rsvd_get (x0 x1 x2 x3 : B) : TransportHdr.rsvd.get [x0, x1, x2, x3] = ((x0 &&& 0xF0#8) >>> 4).toNat := by
  getter_unfold
  revert x0; apply forall_byte; decide +kernel

theorem hdrVersion_get (x0 x1 x2 x3 : B) : TransportHdr.hdrVersion.get [x0, x1, x2, x3] = (x0 &&& 0x0F#8).toNat := by
  getter_unfold
  revert x0; apply forall_byte; decide +kernel

theorem ic_get (x : B) : BodyHdr.ic.get [x] = if x.msb then 1 else 0 := by
  getter_unfold
  revert x; apply forall_byte; decide +kernel

theorem msgType_get (x : B) : BodyHdr.msgType.get [x] = (x &&& 0x7F#8).toNat := by
  getter_unfold
  revert x; apply forall_byte; decide +kernel

theorem ctrl_rq_get (x y : B) : CtrlHdr.rq.get [x, y] = if x.msb then 1 else 0 := by
  getter_unfold
  revert x; apply forall_byte; decide +kernel

theorem ctrl_cmd_get' (x y : B) : CtrlHdr.commandCode.get [x, y] = y.toNat := by
  getter_unfold
  revert y; apply forall_byte; decide +kernel

theorem ctrl_cmd_get (x y : B) : BitVec.ofNat 8 (CtrlHdr.commandCode.get [x, y]) = y := by
  rw [ctrl_cmd_get']; simp

theorem srcEid_get' (x0 x1 x2 x3 : B) : TransportHdr.sourceEndpointId.get [x0, x1, x2, x3] = x2.toNat := by
  getter_unfold
  revert x2; apply forall_byte; decide +kernel

theorem srcEid_get (x0 x1 x2 x3 : B) :
    BitVec.ofNat 8 (TransportHdr.sourceEndpointId.get [x0, x1, x2, x3]) = x2 := by
  rw [srcEid_get']; simp

theorem smbus_cmd_get (a b c d : B) : SMBusHdr.commandCode.get [a, b, c, d] = b.toNat := by
  getter_unfold
  revert b; apply forall_byte; decide +kernel

theorem smbus_count_get (a b c d : B) : SMBusHdr.byteCount.get [a, b, c, d] = c.toNat := by
  getter_unfold
  revert c; apply forall_byte; decide +kernel

theorem transportFromBufOk_eq (x0 x1 x2 x3 v : B) :
    transportFromBufOk [x0, x1, x2, x3] v = ((x0 &&& 0xF0#8) == 0x00#8 && (x0 &&& 0x0F#8) == v) := by
  unfold transportFromBufOk
  rw [rsvd_get, hdrVersion_get]
  have h1 : ∀ x0 : B, (((x0 &&& 0xF0#8) >>> 4).toNat ≠ 0) = ((x0 &&& 0xF0#8) ≠ 0x00#8) := by
    apply forall_byte; decide +kernel
  simp only [h1, ne_eq, BitVec.toNat_inj]
  by_cases ha : (x0 &&& 0xF0#8) = 0x00#8 <;> by_cases hb : (x0 &&& 0x0F#8) = v <;> simp [ha, hb]

theorem bodyFromBufOk_eq (x : B) :
    bodyFromBufOk [x] = ((x &&& 0x80#8) == 0x00#8 && MsgType.ofByte (x &&& 0x7F#8) != .invalid) := by
  unfold bodyFromBufOk
  rw [ic_get, msgType_get]
  revert x; apply forall_byte; decide +kernel

theorem bodyMsgType_eq (p : Bytes) : bodyMsgType p = MsgType.ofByte (byteAt p 8 &&& 0x7F#8) := by
  unfold bodyMsgType
  rw [msgType_get]; simp

theorem msgTypeOf_eq (p : Bytes) : Spec.msgTypeOf p = MsgType.ofByte (byteAt p 8 &&& 0x7F#8) := by
  unfold Spec.msgTypeOf Spec.typeBits MsgType.ofByte; rfl

/-! ### normal forms -/

theorem slice_4_8 (p : Bytes) (h : 8 ≤ p.length) :
    slice p 4 8 = [byteAt p 4, byteAt p 5, byteAt p 6, byteAt p 7] := by
  match p, h with
  | _ :: _ :: _ :: _ :: _ :: _ :: _ :: _ :: _, _ => rfl

theorem hdrOk_eq (p : Bytes) :
    Spec.hdrOk p = (transportFromBufOk [byteAt p 4, byteAt p 5, byteAt p 6, byteAt p 7] 1#8 &&
      bodyFromBufOk [byteAt p 8]) := by
  rw [transportFromBufOk_eq, bodyFromBufOk_eq]
  unfold Spec.hdrOk Spec.typeBits
  generalize byteAt p 4 = a
  generalize byteAt p 8 = b
  have h1 : ∀ a : B, ((a &&& 0xF0#8) == 0x00#8 && (a &&& 0x0F#8) == 1#8) = (a == 0x01#8) := by
    apply forall_byte; decide +kernel
  have h2 : ∀ b : B, ((b &&& 0x80#8) == 0x00#8 && MsgType.ofByte (b &&& 0x7F#8) != .invalid) =
      ((b &&& 0x80#8) == 0x00#8 && ((b &&& 0x7F#8) == 0x00#8 || (b &&& 0x7F#8) == 0x05#8 || (b &&& 0x7F#8) == 0x06#8 ||
        (b &&& 0x7F#8) == 0x7E#8 || (b &&& 0x7F#8) == 0x7F#8)) := by
    apply forall_byte; decide +kernel
  rw [h1, h2, Bool.and_assoc]

theorem getHeaders_eq (p : Bytes) :
    getHeaders p =
      if p.length < 10 then .err (.invalid, .unknown)
      else if Spec.hdrOk p then .ok () else .err (.invalid, .unknown) := by
  unfold getHeaders
  by_cases h : p.length < 10
  · simp [h]
  · rw [if_neg h, if_neg h, slice_4_8 p (by omega), hdrOk_eq]
    cases transportFromBufOk [byteAt p 4, byteAt p 5, byteAt p 6, byteAt p 7] 1#8 <;>
      cases bodyFromBufOk [byteAt p 8] <;> simp

theorem ccOf_zero : ccOf 0x00#8 = .ok .success := by decide

theorem ctrlSelect_eq (cp : Bytes) :
    ctrlSelect cp =
      if (byteAt cp 0).msb then (reqDataLen (byteAt cp 1)).map fun n => (2, true, n)
      else if cp.length < 4 then .err (.control, .ctl .len)
      else if byteAt cp 2 ≠ 0x00#8 then (ccOf (byteAt cp 2)).bind fun c => .err (.control, .ctl (.cc c))
      else (respDataLen (byteAt cp 1)).map fun n => (3, false, n) := by
  unfold ctrlSelect
  simp only [ctrl_rq_get, ctrl_cmd_get]
  cases hm : (byteAt cp 0).msb
  · simp only [Bool.false_eq_true, if_false]
    by_cases h4 : cp.length < 4
    · simp [h4]
    · by_cases h2 : byteAt cp 2 = 0x00#8
      · simp [h4, h2, ccOf_zero]
      · simp [h4, h2]
  · simp

theorem decode_eq (p : Bytes) :
    decode p =
      if p.length < 10 then .err (.invalid, .unknown)
      else if !Spec.hdrOk p then .err (.invalid, .unknown)
      else
        match Spec.msgTypeOf p with
        | .control => (getCtrl (p.drop 9) (calcPec p)).bind fun c => .ok (.control, 9 + c.off, c.dataLen)
        | .pci => vendorArm p (calcPec p) .pci
        | .iana => vendorArm p (calcPec p) .iana
        | .spdm => vendorArm p (calcPec p) .spdm
        | .secured => vendorArm p (calcPec p) .secured
        | .invalid => .err (.invalid, .unknown) := by
  unfold decode
  rw [getHeaders_eq, bodyMsgType_eq, msgTypeOf_eq]
  by_cases h : p.length < 10
  · simp [h]
  · cases hh : Spec.hdrOk p
    · simp [h]
    · simp only [h, if_false, Bool.not_true, Bool.false_eq_true]
      cases MsgType.ofByte (byteAt p 8 &&& 0x7F#8) <;> rfl

/-! ### byte access through `take` / `drop` -/

theorem byteAt_take (p : Bytes) (n i : Nat) (h : i < n) : byteAt (p.take n) i = byteAt p i := by
  simp [byteAt, List.getD_eq_getElem?_getD, h]

theorem byteAt_drop (p : Bytes) (n i : Nat) : byteAt (p.drop n) i = byteAt p (n + i) := by
  simp [byteAt, List.getD_eq_getElem?_getD]

end Mctp
