/-
Helper lemmas: closed forms of the header getters used on the receive path and normal forms
of the decoder.
-/
import Mctp.Model.Decode
import Mctp.Spec.Accept
import Mctp.Lemmas.Bitfield
import Mctp.Lemmas.Crc
namespace Mctp

/-! ### the library's CRC is the specification's -/

theorem crc8_eq_spec (xs : Bytes) : crc8 xs = Spec.crc xs := by
  sorry

theorem pecOk_eq (p : Bytes) (h : p ≠ []) :
    Spec.pecOk p = (byteAt p (p.length - 1) == calcPec p) := by
  sorry

/-! ### closed forms of the getters the decoder uses -/

theorem transportFromBufOk_eq (x0 x1 x2 x3 v : B) :
    transportFromBufOk [x0, x1, x2, x3] v = ((x0 &&& 0xF0#8) == 0x00#8 && (x0 &&& 0x0F#8) == v) := by
  sorry

theorem bodyFromBufOk_eq (x : B) :
    bodyFromBufOk [x] = ((x &&& 0x80#8) == 0x00#8 && MsgType.ofByte (x &&& 0x7F#8) != .invalid) := by
  sorry

theorem bodyMsgType_eq (p : Bytes) : bodyMsgType p = MsgType.ofByte (byteAt p 8 &&& 0x7F#8) := by
  sorry

theorem msgTypeOf_eq (p : Bytes) : Spec.msgTypeOf p = MsgType.ofByte (byteAt p 8 &&& 0x7F#8) := by
  sorry

theorem ctrl_rq_get (x y : B) : CtrlHdr.rq.get [x, y] = if x.msb then 1 else 0 := by
  sorry

theorem ctrl_cmd_get (x y : B) : BitVec.ofNat 8 (CtrlHdr.commandCode.get [x, y]) = y := by
  sorry

theorem srcEid_get (x0 x1 x2 x3 : B) :
    BitVec.ofNat 8 (TransportHdr.sourceEndpointId.get [x0, x1, x2, x3]) = x2 := by
  sorry

theorem smbus_cmd_get (a b c d : B) : SMBusHdr.commandCode.get [a, b, c, d] = b.toNat := by
  sorry

theorem smbus_count_get (a b c d : B) : SMBusHdr.byteCount.get [a, b, c, d] = c.toNat := by
  sorry

/-! ### normal forms -/

theorem getHeaders_eq (p : Bytes) :
    getHeaders p =
      if p.length < 10 then .err (.invalid, .unknown)
      else if Spec.hdrOk p then .ok () else .err (.invalid, .unknown) := by
  sorry

theorem ctrlSelect_eq (cp : Bytes) :
    ctrlSelect cp =
      if (byteAt cp 0).msb then (reqDataLen (byteAt cp 1)).map fun n => (2, true, n)
      else if cp.length < 4 then .err (.control, .ctl .len)
      else if byteAt cp 2 ≠ 0x00#8 then (ccOf (byteAt cp 2)).bind fun c => .err (.control, .ctl (.cc c))
      else (respDataLen (byteAt cp 1)).map fun n => (3, false, n) := by
  sorry

theorem decode_eq (p : Bytes) :
    decode p =
      if p.length < 10 then .err (.invalid, .unknown)
      else if !Spec.hdrOk p then .err (.invalid, .unknown)
      else
        match Spec.msgTypeOf p with
        | .control => (getCtrl (p.drop 9) (calcPec p)).bind fun c => .ok (.control, 9 + c.off, c.dataLen)
        | .pci => vendorArm p (calcPec p) .pci
        | .iana => vendorArm p (calcPec p) .iana
        | .spdm => vendorArm p (calcPec p) .spdm
        | .secured => vendorArm p (calcPec p) .secured
        | .invalid => .err (.invalid, .unknown) := by
  sorry

end Mctp
