/-
Helper lemmas: closed forms of the header getters used on the receive path and normal forms
of the decoder.
-/
import Mctp.Model.Decode
import Mctp.Lemmas.Bitfield
import Mctp.Lemmas.Crc
namespace Mctp

end Mctp
