/-
Helper lemmas about `process`: valid configurations and the panic classes of `dispatch`.
-/
import Mctp.Lemmas.ProcessResp
namespace Mctp
namespace Proc

/-! ### a valid configuration -/

theorem configOk_iff (c : Ctx) :
    Spec.configOk c = true ↔
      c.msgTypes.length ≤ 30 ∧ (∀ v ∈ c.vendorIds, v.format = 0#8 ∨ v.format = 1#8) ∧
      1 ≤ c.vendorIds.length ∧ c.vendorIds.length ≤ 255 ∧ c.uuid.length = 16 := by
  simp [Spec.configOk, and_assoc]

theorem vendorField_eq (v : VendorId) (h : v.format = 0#8 ∨ v.format = 1#8) :
    vendorField v = some (Spec.encodeSet v) ∧ (Spec.encodeSet v).length ≤ 7 := by
  unfold vendorField Spec.encodeSet
  rcases h with h | h
  · simp [h]
  · have : ¬ ((1#8 : B) = 0#8) := by decide
    simp [h, this]

/-- the selector stored by the vendor arm is the specification's next selector -/
theorem nextSel_eq (c : Ctx) (sel : B) (h : sel.toNat < c.vendorIds.length) (h255 : c.vendorIds.length ≤ 255) :
    nextSel c sel = Spec.nextSelector sel.toNat c.vendorIds.length := by
  unfold nextSel Spec.nextSelector
  have e1 : sel + 1#8 = BitVec.ofNat 8 (sel.toNat + 1) := by
    apply BitVec.eq_of_toNat_eq
    simp [BitVec.toNat_add]
  rw [e1]
  have e2 : BitVec.ofNat 8 (sel.toNat + 1) = BitVec.ofNat 8 c.vendorIds.length ↔ sel.toNat + 1 = c.vendorIds.length := by
    constructor
    · intro h'
      have := congrArg BitVec.toNat h'
      simp only [BitVec.toNat_ofNat] at this
      omega
    · intro h'; rw [h']
  by_cases h3 : sel.toNat + 1 = c.vendorIds.length
  · rw [if_pos (e2.mpr h3), if_pos h3]
  · rw [if_neg (mt e2.mp h3), if_neg h3]

/-- the D11 panic classes of `dispatch` as a function of command, first payload byte and set count -/
def dispPanic (n : Nat) (cmd op : B) : Option Panic :=
  if cmd = 0x00#8 then some ⟨.unreachable, .smbus⟩
  else if cmd = 0x01#8 then
    if op = 0x02#8 then some ⟨.unimplemented, .smbus⟩
    else if 4 ≤ op.toNat then some ⟨.unreachable, .smbus⟩ else none
  else if cmd = 0x06#8 then
    if op = 0xFF#8 then some ⟨.addOverflow, .smbus⟩
    else if n ≤ op.toNat then some ⟨.indexOOB, .smbus⟩ else none
  else if cmd = 0x07#8 ∨ cmd = 0x08#8 then some ⟨.unimplemented, .smbus⟩
  else none

theorem dispatchPanicClass_eq (n : Nat) (p : Bytes) :
    Spec.dispatchPanicClass n p =
      if Spec.isAcceptedRequest p = true then dispPanic n (byteAt p 10) (byteAt p 11) else none := rfl

theorem op_cases : ∀ op : B, op = 0#8 ∨ op = 1#8 ∨ op = 2#8 ∨ op = 3#8 ∨ 4 ≤ op.toNat := by
  apply forall_byte; decide +kernel

theorem cmd78 : ∀ cmd : B, 7 ≤ cmd.toNat → Spec.reqUnimpl cmd = false → cmd = 0x07#8 ∨ cmd = 0x08#8 := by
  apply forall_byte; decide +kernel

/-- under a valid configuration and with a 64-byte buffer `dispatch` panics exactly on the D11 classes
and otherwise answers -/
theorem dispatch_outcome (c : Ctx) (cmd src : B) (pay : Nat → B) (buf : Bytes)
    (hc : Spec.configOk c = true) (hb : 64 ≤ buf.length) (hu : Spec.reqUnimpl cmd = false) :
    match dispPanic c.vendorIds.length cmd (pay 0) with
    | some k => ∃ c', dispatch c cmd src pay buf = (c', .panic k, buf)
    | none => ∃ c' n buf', dispatch c cmd src pay buf = (c', .ok n, buf') := by
  obtain ⟨ht, hfmt, h1, h255, huu⟩ := (configOk_iff c).mp hc
  rcases cmdCase cmd with ⟨h, e⟩ | ⟨h, e⟩ | ⟨h, e⟩ | ⟨h, e⟩ | ⟨h, e⟩ | ⟨h, e⟩ | ⟨h, e⟩ | ⟨h, hne⟩
  · subst e
    rw [dispatch_reserved c _ src pay buf h]
    exact ⟨_, rfl⟩
  · subst e
    rcases op_cases (pay 0) with ho | ho | ho | ho | ho
    · rw [dispatch_setEid_assign c _ src pay buf h (.inl ho) (by omega)]
      simp only [dispPanic, ho]; exact ⟨_, _, _, rfl⟩
    · rw [dispatch_setEid_assign c _ src pay buf h (.inr ho) (by omega)]
      simp only [dispPanic, ho]; exact ⟨_, _, _, rfl⟩
    · rw [dispatch_setEid c _ src pay buf h]
      simp only [dispPanic, ho]; exact ⟨_, rfl⟩
    · rw [dispatch_setEid_discovered c _ src pay buf h ho (by omega)]
      simp only [dispPanic, ho]; exact ⟨_, _, _, rfl⟩
    · rw [dispatch_setEid c _ src pay buf h]
      have n0 : pay 0 ≠ 0#8 := by intro h0; rw [h0] at ho; simp at ho
      have n1 : pay 0 ≠ 1#8 := by intro h0; rw [h0] at ho; simp at ho
      have n2 : pay 0 ≠ 2#8 := by intro h0; rw [h0] at ho; simp at ho
      have n3 : pay 0 ≠ 3#8 := by intro h0; rw [h0] at ho; simp at ho
      simp only [dispPanic, n0, n1, n2, n3, ho, or_self, if_false, if_true]
      exact ⟨_, rfl⟩
  · subst e
    rw [dispatch_getEid_ok c _ src pay buf h (by omega)]
    exact ⟨_, _, _, rfl⟩
  · subst e
    rw [dispatch_uuid_ok c _ src pay buf h huu (by omega)]
    exact ⟨_, _, _, rfl⟩
  · subst e
    rw [dispatch_version_ok c _ src pay buf h (by omega)]
    exact ⟨_, _, _, rfl⟩
  · subst e
    rw [dispatch_msgTypes_ok c _ src pay buf h ht (by omega)]
    exact ⟨_, _, _, rfl⟩
  · subst e
    by_cases hff : pay 0 = 0xFF#8
    · rw [dispatch_vendor c _ src pay buf h, if_pos hff]
      simp only [dispPanic, hff]; exact ⟨_, rfl⟩
    · by_cases hn : c.vendorIds.length ≤ (pay 0).toNat
      · rw [dispatch_vendor c _ src pay buf h, if_neg hff, List.getElem?_eq_none hn]
        simp only [dispPanic, hff, hn]; exact ⟨_, rfl⟩
      · have hlt : (pay 0).toNat < c.vendorIds.length := by omega
        have hv : c.vendorIds[(pay 0).toNat]? = some (c.vendorIds[(pay 0).toNat]) := List.getElem?_eq_getElem hlt
        obtain ⟨hf, hl⟩ := vendorField_eq _ (hfmt _ (List.getElem_mem hlt))
        rw [dispatch_vendor_ok c _ src pay buf h hff _ _ hv hf hl (by omega)]
        simp only [dispPanic, hff, hn]; exact ⟨_, _, _, rfl⟩
  · obtain h78 := cmd78 cmd h hu
    rw [dispatch_other c cmd src pay buf hne]
    rcases h78 with rfl | rfl <;> exact ⟨_, rfl⟩

/-! ### the configuration under operations -/

/-- no operation changes the configuration; the UUID changes only through `set_uuid` -/
theorem stepOp_fields (c : Ctx) (op : Op) :
    (stepOp c op).1.msgTypes = c.msgTypes ∧ (stepOp c op).1.vendorIds = c.vendorIds ∧
    (stepOp c op).1.address = c.address ∧ (stepOp c op).1.uuid = Spec.uuidStep c.uuid op := by
  cases op with
  | process p buf =>
    obtain ⟨r, q, s, h⟩ := process_fst c p buf
    rw [stepOp_process]; simp [h, Spec.uuidStep]
  | setUuid u =>
    simp only [stepOp, Spec.uuidStep]
    split <;> exact ⟨rfl, rfl, rfl, rfl⟩
  | _ => exact ⟨rfl, rfl, rfl, rfl⟩

theorem configOk_stepOp (c : Ctx) (op : Op) (hc : Spec.configOk c = true) :
    Spec.configOk (stepOp c op).1 = true := by
  obtain ⟨h1, h2, _, h4⟩ := stepOp_fields c op
  obtain ⟨a1, a2, a3, a4, a5⟩ := (configOk_iff c).mp hc
  rw [configOk_iff, h1, h2, h4]
  refine ⟨a1, a2, a3, a4, ?_⟩
  cases op with
  | setUuid v =>
    simp only [Spec.uuidStep]
    split
    · assumption
    · exact a5
  | _ => exact a5

theorem configOk_runOps (ops : List Op) : ∀ (c : Ctx), Spec.configOk c = true → Spec.configOk (runOps c ops).1 = true := by
  induction ops with
  | nil => intro c h; exact h
  | cons op ops ih =>
    intro c h
    rw [runOps_cons]
    exact ih _ (configOk_stepOp c op h)

/-! ### the panic classes of the decoder -/

/-- the decoder panics exactly on the finding classes, with exactly that panic -/
theorem decode_panic_iff (p : Bytes) (k : Panic) :
    decode p = .panic k ↔ Spec.decodePanicClass p = some k := by
  unfold Spec.decodePanicClass Spec.cmdOf Spec.ccByte
  by_cases h1 : p.length < 10 ∨ Spec.hdrOk p = false
  · rw [decode_nf, if_pos h1]
    rcases h1 with h1 | h1
    · have : ¬ 10 ≤ p.length := by omega
      simp [this]
    · simp [h1]
  have h10 : 10 ≤ p.length := by omega
  have hh : Spec.hdrOk p = true := by cases hx : Spec.hdrOk p <;> simp_all
  by_cases hc : Spec.isControl p = true
  · by_cases h12 : 12 ≤ p.length
    · by_cases hr : Spec.isRequest p = true
      · rw [decode_request p h12 hh hc hr]
        simp only [hh, h10, hc, h12, hr, decide_true, Bool.and_self, if_true]
        by_cases hu : Spec.reqUnimpl (byteAt p 10) = true
        · simp only [hu, if_true, Out.panic.injEq, Option.some.injEq]
        · simp only [hu, if_false, Bool.false_eq_true]
          split
          · simp
          · split <;> simp
      · have hr' : Spec.isRequest p = false := by simpa using hr
        rw [decode_nf, if_neg h1, if_pos hc, getCtrl_nf p h10]
        have hl : ¬ p.length < 12 := by omega
        simp only [hl, if_false, hr', Bool.false_eq_true, hh, h10, hc, h12, decide_true, Bool.and_self, if_true]
        by_cases h13 : 13 ≤ p.length
        · have hl2 : ¬ p.length < 13 := by omega
          simp only [hl2, if_false, h13, decide_true, if_true]
          by_cases hcc : byteAt p 11 = 0x00#8
          · simp only [hcc, ne_eq, not_true_eq_false, if_false]
            have e6 : ¬ 6 ≤ (0#8 : B).toNat := by decide
            simp only [e6, decide_false, Bool.false_eq_true, if_false, beq_self_eq_true, Bool.true_and]
            rcases respDataLen_table (byteAt p 10) with ⟨hu, ht⟩ | ⟨hu, ht⟩
            · simp [hu, ht]
            · cases hx : respDataLen (byteAt p 10) with
              | ok n =>
                simp only [hu, Bool.false_eq_true, if_false, Out.bind_ok]
                split
                · simp
                · split <;> simp
              | err e => simp [hx, Out.isOk] at ht
              | panic q => simp [hx, Out.isOk] at ht
          · simp only [ne_eq, hcc, not_false_eq_true, if_true]
            have hb : (byteAt p 11 == 0x00#8) = false := by simpa using hcc
            rcases ccOf_table (byteAt p 11) with ⟨h6, ht⟩ | ⟨h6, ht⟩
            · simp [h6, ht]
            · have n6 : ¬ 6 ≤ (byteAt p 11).toNat := by omega
              cases hx : ccOf (byteAt p 11) with
              | ok n => simp [n6, hb]
              | err e => simp [hx, Out.isOk] at ht
              | panic q => simp [hx, Out.isOk] at ht
        · have hl2 : p.length < 13 := by omega
          simp [hl2, h13]
    · have hl : p.length < 12 := by omega
      rw [decode_nf, if_neg h1, if_pos hc, getCtrl_nf p h10, if_pos hl]
      simp [h12]
  · rw [decode_nf, if_neg h1, if_neg hc]
    have hc' : Spec.isControl p = false := by simpa using hc
    simp only [hc', Bool.and_false, Bool.false_and, Bool.false_eq_true, if_false]
    split <;> simp

/-! ### answerable requests and well-formed responses -/

/-- an answerable request is answered with a control response -/
theorem process_answerable (c : Ctx) (p buf : Bytes) (hc : Spec.configOk c = true) (hb : 64 ≤ buf.length)
    (ha : Spec.answerable c.vendorIds.length p = true) :
    ∃ c' cc rest, (cc = 0x00#8 ∨ cc = 0x02#8) ∧ 1 ≤ (byteAt p 10).toNat ∧ (byteAt p 10).toNat ≤ 6 ∧
      (13 + rest.length ≤ buf.length ∧ rest.length ≤ 246) ∧
      process c p buf =
        (c', .ok ((.control, 11, p.length - 12), some (13 + rest.length)),
          respPkt c.address (byteAt p 6) (byteAt p 10) (cc :: rest) ++ buf.drop (13 + rest.length)) := by
  unfold Spec.answerable Spec.processPanicClass at ha
  simp only [Bool.and_eq_true, Option.isNone_iff_eq_none] at ha
  obtain ⟨hacc, hcls⟩ := ha
  have hdc : Spec.decodePanicClass p = none := by
    cases hx : Spec.decodePanicClass p with
    | none => rfl
    | some k => rw [hx] at hcls; simp at hcls
  rw [hdc] at hcls
  simp only at hcls
  rw [dispatchPanicClass_eq, if_pos hacc] at hcls
  obtain ⟨h12, hh, hcn, hr, _, _⟩ := (acceptedRequest_iff p).mp hacc
  have hu : Spec.reqUnimpl (byteAt p 10) = false := by
    cases hx : Spec.reqUnimpl (byteAt p 10) with
    | false => rfl
    | true =>
      have := decode_request p h12 hh hcn hr
      rw [if_pos hx] at this
      rw [(decode_panic_iff p _).mp this] at hdc
      simp at hdc
  have ho := dispatch_outcome c (byteAt p 10) (byteAt p 6) (fun i => byteAt p (11 + i)) buf hc hb hu
  simp only [Nat.add_zero] at ho
  rw [hcls] at ho
  obtain ⟨c'', n, b', ho⟩ := ho
  rcases dispatch_cases c (byteAt p 10) (byteAt p 6) (fun i => byteAt p (11 + i)) buf with
    ⟨c', k, hk⟩ | ⟨c', cc, rest, hcc, h1, h6, hle, hk⟩
  · rw [hk] at ho; simp at ho
  · refine ⟨c', cc, rest, hcc, h1, h6, hle, ?_⟩
    rw [process_of_dispatch c p buf hacc hu _ _ _ hk]; rfl

theorem byteAt_append_left (xs ys : Bytes) (i : Nat) (h : i < xs.length) :
    byteAt (xs ++ ys) i = byteAt xs i := by
  simp [byteAt, List.getD_eq_getElem?_getD, List.getElem?_append_left h]

theorem pecOk_append_crc (pre : Bytes) : Spec.pecOk (pre ++ [crc8 pre]) = true := by
  simp [Spec.pecOk, crc8_eq_spec]

theorem crc_append_crc (pre : Bytes) : Spec.crc (pre ++ [crc8 pre]) = 0x00#8 := by
  rw [← crc8_eq_spec, crc_append_self]; rfl

/-- a response packet is well formed and correlates with the request it answers -/
theorem respondsTo_respPkt (a : B) (p : Bytes) (cc : B) (rest : Bytes) (h : rest.length ≤ 246) :
    Spec.respondsTo a p (respPkt a (byteAt p 6) (byteAt p 10) (cc :: rest)) (13 + rest.length) = true := by
  have hl : (respPkt a (byteAt p 6) (byteAt p 10) (cc :: rest)).length = 13 + rest.length := by
    rw [respPkt_length]; simp; omega
  have e7 : (0xC8#8 : B) &&& 0xF0#8 = 0xC0#8 := by decide
  unfold Spec.respondsTo Spec.frameOk
  rw [hl]
  simp only [respPkt, pecOk_append_crc, crc_append_crc]
  simp [respPre, byteAt, e7]
  omega

/-- a reported response is a control response packet: its first `n` bytes -/
theorem process_ok_some_take (c : Ctx) (p buf buf' : Bytes) (c' : Ctx) (d : Dec) (n : Nat)
    (h : process c p buf = (c', .ok (d, some n), buf')) :
    ∃ cc rest, (cc = 0x00#8 ∨ cc = 0x02#8) ∧ n = 13 + rest.length ∧
      buf'.take n = respPkt c.address (byteAt p 6) (byteAt p 10) (cc :: rest) := by
  rcases process_cases c p buf with ⟨_, hp⟩ | ⟨_, _, _, c'', k, _, hp⟩ | ⟨_, _, _, c'', cc, rest, hcc, _, _, _, _, hp⟩
  · rw [hp] at h
    cases hdec : decode p <;> simp [hdec, Out.map] at h
  · rw [hp] at h; simp at h
  · rw [hp] at h
    simp only [Prod.mk.injEq, Out.ok.injEq, Option.some.injEq] at h
    obtain ⟨_, ⟨_, rfl⟩, rfl⟩ := h
    refine ⟨cc, rest, hcc, rfl, ?_⟩
    have e : 13 + rest.length = 12 + (cc :: rest).length := by simp; omega
    rw [e]; exact respPkt_take _ _ _ _ _

end Proc
end Mctp
