/-
Helper lemmas about the round trip: what the decoder does on the packets the encoders write.
-/
import Mctp.Lemmas.ProcessPanic
namespace Mctp
namespace Proc

/-! ### decoding what the encoders write -/

/-- a successful encoder call wrote exactly `packetBytes` -/
theorem encode_ok_take (c : Ctx) (dst : B) (e : Enc) (buf buf' : Bytes) (n : Nat)
    (h : encode c dst e buf = .ok (buf', n)) :
    ∃ t hd d, e.body c = .ok (t, hd, d) ∧ e.isStub = false ∧ n = 10 + optLen hd + d.length ∧
      buf'.take n = packetBytes c.address dst t hd d := by
  obtain ⟨t, hd, d, hb, hs, _, hn, _, hbuf⟩ := encode_ok_inv c dst e buf buf' n h
  refine ⟨t, hd, d, hb, hs, hn, ?_⟩
  rw [hbuf, hn]
  exact List.take_left' (packetBytes_length _ _ _ _ _)

/-- vendor-defined, SPDM and secured messages decode to their type and everything after the type byte -/
theorem decode_packet_vendor (a d : B) (t : MsgType) (h : Option Bytes) (data : Bytes)
    (ht : t = .pci ∨ t = .iana ∨ t = .spdm ∨ t = .secured) :
    decode (packetBytes a d t h data) = .ok (t, 9, optLen h + data.length) := by
  have hlen := packetBytes_length a d t h data
  rw [decode_nf]
  have hpec : Spec.pecOk (packetBytes a d t h data) = true := by
    rw [packetBytes_eq]; exact pecOk_append_crc _
  have hh : Spec.hdrOk (packetBytes a d t h data) = true := by
    rw [packetBytes_eq]
    rcases ht with rfl | rfl | rfl | rfl <;> simp [packetPre, Spec.hdrOk, Spec.typeBits, byteAt, MsgType.toByte]
  have hc : Spec.isControl (packetBytes a d t h data) = false := by
    rw [packetBytes_eq]
    rcases ht with rfl | rfl | rfl | rfl <;> simp [packetPre, Spec.isControl, Spec.typeBits, byteAt, MsgType.toByte]
  have hm : Spec.msgTypeOf (packetBytes a d t h data) = t := by
    rw [packetBytes_eq]
    rcases ht with rfl | rfl | rfl | rfl <;> simp [packetPre, Spec.msgTypeOf, Spec.typeBits, byteAt, MsgType.toByte]
  have h1 : ¬ ((packetBytes a d t h data).length < 10 ∨ Spec.hdrOk (packetBytes a d t h data) = false) := by
    rw [hlen, hh]; simp; omega
  rw [if_neg h1, hc, hpec, hm, hlen]
  simp
  omega

/-- a control message before its PEC: nine fixed bytes, Rq/D/instance byte, command, data -/
def ctlPre (a d rqb cmdb : B) (data : Bytes) : Bytes :=
  (d &&& 0x7F#8) <<< 1 :: 0x0F#8 :: BitVec.ofNat 8 (8 + data.length) :: (((a &&& 0x7F#8) <<< 1) ||| 1#8) ::
    0x01#8 :: d :: a :: 0xC8#8 :: 0x00#8 :: rqb :: cmdb :: data

def ctlPkt (a d rqb cmdb : B) (data : Bytes) : Bytes := ctlPre a d rqb cmdb data ++ [crc8 (ctlPre a d rqb cmdb data)]

theorem ctlPkt_eq (a d : B) (rq : Bool) (cmd : Cmd) (data : Bytes) :
    packetBytes a d .control (some (ctrlHeader rq cmd)) data =
      ctlPkt a d (if rq then 0x80#8 else 0x00#8) cmd.toByte data := by
  have h0 : MsgType.control.toByte &&& 0x7F#8 = 0x00#8 := by decide
  rw [packetBytes_eq]
  simp [packetPre, ctrlHeader_eq, optLen, optBytes, ctlPre, ctlPkt, h0]

theorem ctlPkt_length (a d rqb cmdb : B) (data : Bytes) : (ctlPkt a d rqb cmdb data).length = 12 + data.length := by
  simp [ctlPkt, ctlPre]; omega

theorem ctlPkt_facts (a d rqb cmdb : B) (data : Bytes) :
    Spec.hdrOk (ctlPkt a d rqb cmdb data) = true ∧ Spec.isControl (ctlPkt a d rqb cmdb data) = true ∧
    Spec.pecOk (ctlPkt a d rqb cmdb data) = true ∧ byteAt (ctlPkt a d rqb cmdb data) 10 = cmdb ∧
    Spec.isRequest (ctlPkt a d rqb cmdb data) = rqb.msb := by
  refine ⟨?_, ?_, pecOk_append_crc _, ?_, ?_⟩
  · simp [ctlPkt, ctlPre, Spec.hdrOk, Spec.typeBits, byteAt]
  · simp [ctlPkt, ctlPre, Spec.isControl, Spec.typeBits, byteAt]
  · simp [ctlPkt, ctlPre, byteAt]
  · rw [isRequest_eq_msb]; simp [ctlPkt, ctlPre, byteAt]

/-- a control request as the encoders write it, decoded -/
theorem decode_ctl_request (a d cmdb : B) (data : Bytes) :
    decode (ctlPkt a d 0x80#8 cmdb data) =
      if Spec.reqUnimpl cmdb then .panic ⟨.unimplemented, .traits⟩
      else if Spec.lenFits (Spec.reqFixed cmdb) data.length = false then .err (.control, .ctl .len)
      else .ok (.control, 11, data.length) := by
  obtain ⟨hh, hc, hp, h10, hr⟩ := ctlPkt_facts a d 0x80#8 cmdb data
  have hl := ctlPkt_length a d 0x80#8 cmdb data
  rw [decode_request _ (by omega) hh hc (by rw [hr]; decide), h10, hp, hl]
  have : 12 + data.length - 12 = data.length := by omega
  simp [this]

/-- a control response as the encoders write it, decoded -/
theorem decode_ctl_response (a d cmdb cc : B) (rest : Bytes) :
    decode (ctlPkt a d 0x00#8 cmdb (cc :: rest)) =
      if cc ≠ 0x00#8 then (ccOf cc).bind fun x => .err (.control, .ctl (.cc x))
      else (respDataLen cmdb).bind fun k =>
        if k > 0 ∧ rest.length ≠ k then .err (.control, .ctl .len) else .ok (.control, 12, rest.length) := by
  obtain ⟨hh, hc, hp, h10, hr⟩ := ctlPkt_facts a d 0x00#8 cmdb (cc :: rest)
  have hl : (ctlPkt a d 0x00#8 cmdb (cc :: rest)).length = 13 + rest.length := by
    rw [ctlPkt_length]; simp; omega
  have h11 : byteAt (ctlPkt a d 0x00#8 cmdb (cc :: rest)) 11 = cc := by simp [ctlPkt, ctlPre, byteAt]
  have hne : ctlPkt a d 0x00#8 cmdb (cc :: rest) ≠ [] := by simp [ctlPkt]
  have hpe := (pecOk_iff _ hne).mp hp
  have hr' : Spec.isRequest (ctlPkt a d 0x00#8 cmdb (cc :: rest)) = false := by rw [hr]; decide
  have h1 : ¬ ((ctlPkt a d 0x00#8 cmdb (cc :: rest)).length < 10 ∨
      Spec.hdrOk (ctlPkt a d 0x00#8 cmdb (cc :: rest)) = false) := by rw [hl, hh]; simp; omega
  rw [decode_nf, if_neg h1, if_pos hc, getCtrl_nf _ (by omega), hr', h10, h11, hpe, hl]
  have e1 : ¬ 13 + rest.length < 12 := by omega
  have e2 : ¬ 13 + rest.length < 13 := by omega
  have e3 : 13 + rest.length - 13 = rest.length := by omega
  simp only [e1, e2, e3, if_false, Bool.false_eq_true, ne_eq, not_true_eq_false]
  by_cases hcc : cc = 0x00#8
  · simp only [hcc, not_true_eq_false, if_false]
    cases respDataLen cmdb with
    | ok k => simp only [Out.bind_ok]; split <;> rfl
    | err e => rfl
    | panic q => rfl
  · simp only [hcc, not_false_eq_true, if_true]
    cases ccOf cc <;> rfl

/-! ### round trips, packet by packet -/

theorem sub_mid (xs ys zs : Bytes) (i j : Nat) (hi : i = xs.length) (hj : j = xs.length + ys.length) :
    Spec.sub (xs ++ ys ++ zs) i j = ys := by
  subst hi hj
  unfold Spec.sub
  rw [List.append_assoc, ← List.append_assoc xs ys zs, List.take_left' (by simp), List.drop_left' rfl]

theorem sub_ctlPkt (a d rqb cmdb : B) (data : Bytes) (i j : Nat) (hi : i = 11) (hj : j = 11 + data.length) :
    Spec.sub (ctlPkt a d rqb cmdb data) i j = data := by
  have : ctlPkt a d rqb cmdb data =
      [(d &&& 0x7F#8) <<< 1, 0x0F#8, BitVec.ofNat 8 (8 + data.length), (((a &&& 0x7F#8) <<< 1) ||| 1#8),
        0x01#8, d, a, 0xC8#8, 0x00#8, rqb, cmdb] ++ data ++ [crc8 (ctlPre a d rqb cmdb data)] := by
    simp [ctlPkt, ctlPre]
  rw [this]
  exact sub_mid _ _ _ i j (by simp [hi]) (by simp [hj])

theorem sub_ctlPkt_resp (a d rqb cmdb cc : B) (rest : Bytes) (i j : Nat) (hi : i = 12) (hj : j = 12 + rest.length) :
    Spec.sub (ctlPkt a d rqb cmdb (cc :: rest)) i j = rest := by
  have : ctlPkt a d rqb cmdb (cc :: rest) =
      [(d &&& 0x7F#8) <<< 1, 0x0F#8, BitVec.ofNat 8 (8 + (cc :: rest).length), (((a &&& 0x7F#8) <<< 1) ||| 1#8),
        0x01#8, d, a, 0xC8#8, 0x00#8, rqb, cmdb, cc] ++ rest ++ [crc8 (ctlPre a d rqb cmdb (cc :: rest))] := by
    simp [ctlPkt, ctlPre]
  rw [this]
  exact sub_mid _ _ _ i j (by simp [hi]) (by simp [hj])

theorem sub_packetBytes (a d : B) (t : MsgType) (h : Option Bytes) (data : Bytes) (i j : Nat)
    (hi : i = 9) (hj : j = 9 + optLen h + data.length) :
    Spec.sub (packetBytes a d t h data) i j = optBytes h ++ data := by
  have : packetBytes a d t h data =
      [(d &&& 0x7F#8) <<< 1, 0x0F#8, BitVec.ofNat 8 (6 + optLen h + data.length), (((a &&& 0x7F#8) <<< 1) ||| 1#8),
        0x01#8, d, a, 0xC8#8, t.toByte &&& 0x7F#8] ++ (optBytes h ++ data) ++ [crc8 (packetPre a d t h data)] := by
    rw [packetBytes_eq]; simp [packetPre]
  have hl : (optBytes h).length = optLen h := by cases h <;> rfl
  rw [this]
  exact sub_mid _ _ _ i j (by simp [hi]) (by simp [hj, hl]; omega)

/-- round trip of a control request whose command has a length-table entry -/
theorem rt_request_pkt (a d : B) (cmd : Cmd) (data : Bytes) (n : Nat)
    (hn : n = 10 + optLen (some (ctrlHeader true cmd)) + data.length)
    (hu : Spec.reqUnimpl cmd.toByte = false) (hf : Spec.lenFits (Spec.reqFixed cmd.toByte) data.length = true) :
    decode (packetBytes a d .control (some (ctrlHeader true cmd)) data) =
        .ok (.control, n - 1 - data.length, data.length) ∧
      Spec.sub (packetBytes a d .control (some (ctrlHeader true cmd)) data) (n - 1 - data.length) (n - 1) = data ∧
      data.length + 1 ≤ n := by
  rw [ctrlHeader_optLen] at hn
  rw [ctlPkt_eq]
  simp only [if_true]
  refine ⟨?_, sub_ctlPkt _ _ _ _ _ _ _ (by omega) (by omega), by omega⟩
  rw [decode_ctl_request, hu, hf]
  have : n - 1 - data.length = 11 := by omega
  simp [this]

/-- … and of one without: finding D3 -/
theorem rt_request_unimpl (a d : B) (cmd : Cmd) (data : Bytes) (hu : Spec.reqUnimpl cmd.toByte = true) :
    decode (packetBytes a d .control (some (ctrlHeader true cmd)) data) = .panic ⟨.unimplemented, .traits⟩ := by
  rw [ctlPkt_eq]
  simp only [if_true]
  rw [decode_ctl_request, hu]; rfl

/-- round trip of a Success control response whose length the decoder's table agrees with -/
theorem rt_response_pkt (a d : B) (cmd : Cmd) (rest : Bytes) (n k : Nat)
    (hn : n = 10 + optLen (some (ctrlHeader false cmd)) + (0x00#8 :: rest).length)
    (hk : respDataLen cmd.toByte = .ok k) (hkk : k = 0 ∨ rest.length = k) :
    decode (packetBytes a d .control (some (ctrlHeader false cmd)) (0x00#8 :: rest)) =
        .ok (.control, n - 1 - rest.length, rest.length) ∧
      Spec.sub (packetBytes a d .control (some (ctrlHeader false cmd)) (0x00#8 :: rest)) (n - 1 - rest.length) (n - 1) = rest ∧
      rest.length + 1 ≤ n := by
  rw [ctrlHeader_optLen] at hn
  simp only [List.length_cons] at hn
  rw [ctlPkt_eq]
  simp only [Bool.false_eq_true, if_false]
  refine ⟨?_, sub_ctlPkt_resp _ _ _ _ _ _ _ _ (by omega) (by omega), by omega⟩
  rw [decode_ctl_response, hk]
  have : n - 1 - rest.length = 12 := by omega
  have h2 : ¬ (k > 0 ∧ rest.length ≠ k) := by omega
  simp [this, h2]

/-- a response with a non-Success completion code decodes to the error carrying that code -/
theorem rt_response_cc (a d : B) (cmd : Cmd) (cc : CC) (rest : Bytes) (hne : cc ≠ .success) :
    decode (packetBytes a d .control (some (ctrlHeader false cmd)) (cc.toByte :: rest)) =
      .err (.control, .ctl (.cc cc)) := by
  rw [ctlPkt_eq]
  simp only [Bool.false_eq_true, if_false]
  rw [decode_ctl_response]
  cases cc <;> first | exact absurd rfl hne | rfl

/-- a Success response whose length disagrees with the decoder's table is rejected: finding D2 -/
theorem rt_response_len (a d : B) (cmd : Cmd) (rest : Bytes) (k : Nat)
    (hk : respDataLen cmd.toByte = .ok k) (hkk : k > 0 ∧ rest.length ≠ k) :
    decode (packetBytes a d .control (some (ctrlHeader false cmd)) (0x00#8 :: rest)) =
      .err (.control, .ctl .len) := by
  rw [ctlPkt_eq]
  simp only [Bool.false_eq_true, if_false]
  rw [decode_ctl_response, hk]
  simp [hkk]

/-- round trip of a vendor-defined / SPDM / secured message -/
theorem rt_vendor_pkt (a d : B) (t : MsgType) (h : Option Bytes) (data : Bytes) (n : Nat)
    (hn : n = 10 + optLen h + data.length) (ht : t = .pci ∨ t = .iana ∨ t = .spdm ∨ t = .secured) :
    decode (packetBytes a d t h data) = .ok (t, n - 1 - (optBytes h ++ data).length, (optBytes h ++ data).length) ∧
      Spec.sub (packetBytes a d t h data) (n - 1 - (optBytes h ++ data).length) (n - 1) = optBytes h ++ data ∧
      (optBytes h ++ data).length + 1 ≤ n := by
  have hl : (optBytes h ++ data).length = optLen h + data.length := by
    cases h <;> simp [optBytes, optLen]
  rw [hl]
  refine ⟨?_, sub_packetBytes _ _ _ _ _ _ _ (by omega) (by omega), by omega⟩
  rw [decode_packet_vendor a d t h data ht]
  have : n - 1 - (optLen h + data.length) = 9 := by omega
  rw [this]

end Proc
end Mctp
