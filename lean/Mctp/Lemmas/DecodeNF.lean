/-
Helper lemmas: normal form of the decoder in terms of the specification's byte predicates
(`Spec.isControl`, `Spec.isRequest`, `Spec.cmdOf`, `Spec.ccByte`), and the length / completion-code
tables against `Spec.reqFixed`, `Spec.respFixed`, `Spec.reqUnimpl`, `Spec.respUnimpl`.
-/
import Mctp.Lemmas.Decode
namespace Mctp

/-- the tail of `get_mctp_control_packet` after the length table was consulted -/
def ctrlFin (p : Bytes) (pec : B) (off : Nat) (isReq : Bool) (n : Nat) : Out DErr Ctrl :=
  if byteAt p (p.length - 1) ≠ pec then .err (.control, .ctl .pec)
  else if n > 0 ∧ p.length - 10 - off ≠ n then .err (.control, .ctl .len)
  else .ok ⟨Spec.cmdOf p, isReq, off, p.length - 10 - off⟩

theorem Out.bind_map {ε α β γ : Type} (x : Out ε α) (f : α → β) (g : β → Out ε γ) :
    (x.map f).bind g = x.bind fun a => g (f a) := by
  cases x <;> rfl

theorem isRequest_eq_msb (p : Bytes) : Spec.isRequest p = (byteAt p 9).msb := by
  unfold Spec.isRequest
  generalize byteAt p 9 = b
  revert b; apply forall_byte; decide +kernel

theorem getCtrl_drop9 (p : Bytes) (pec : B) (h : 10 ≤ p.length) :
    getCtrl (p.drop 9) pec =
      if p.length < 12 then .err (.control, .ctl .len)
      else if Spec.isRequest p then (reqDataLen (Spec.cmdOf p)).bind (ctrlFin p pec 2 true)
      else if p.length < 13 then .err (.control, .ctl .len)
      else if Spec.ccByte p ≠ 0x00#8 then (ccOf (Spec.ccByte p)).bind fun c => .err (.control, .ctl (.cc c))
      else (respDataLen (Spec.cmdOf p)).bind (ctrlFin p pec 3 false) := by
  unfold getCtrl
  rw [ctrlSelect_eq]
  simp only [byteAt_drop, List.length_drop, ctrl_cmd_get, isRequest_eq_msb, Spec.cmdOf, Spec.ccByte]
  have e1 : 9 + (p.length - 9 - 1) = p.length - 1 := by omega
  simp only [e1, Nat.add_zero]
  by_cases h12 : p.length < 12
  · have : p.length - 9 < 3 := by omega
    simp [h12, this]
  · have h3 : ¬ p.length - 9 < 3 := by omega
    rw [if_neg h3, if_neg h12]
    cases hm : (byteAt p 9).msb
    · simp only [Bool.false_eq_true, if_false]
      by_cases h13 : p.length < 13
      · have : p.length - 9 < 4 := by omega
        simp [h13, this]
      · have h4 : ¬ p.length - 9 < 4 := by omega
        rw [if_neg h4, if_neg h13]
        by_cases hc : byteAt p 11 = 0x00#8
        · simp only [hc, ne_eq, not_true, if_false, Out.bind_map]
          congr 1
        · simp only [hc, ne_eq, not_false_eq_true, if_true]
          cases ccOf (byteAt p 11) <;> rfl
    · simp only [if_true, Out.bind_map]
      congr 1

theorem msgTypeOf_of_isControl (p : Bytes) (h : Spec.isControl p = true) : Spec.msgTypeOf p = .control := by
  unfold Spec.isControl at h; unfold Spec.msgTypeOf
  simp only [beq_iff_eq] at h; simp [h]

theorem hdrOk_msgType (p : Bytes) (h : Spec.hdrOk p = true) : Spec.msgTypeOf p ≠ .invalid := by
  unfold Spec.hdrOk at h; unfold Spec.msgTypeOf
  generalize Spec.typeBits p = t at *
  simp only [Bool.and_eq_true, Bool.or_eq_true, beq_iff_eq] at h
  rcases h.2 with (((h|h)|h)|h)|h <;> subst h <;> decide

theorem decode_nf (p : Bytes) :
    decode p =
      if p.length < 10 then .err (.invalid, .unknown)
      else if !Spec.hdrOk p then .err (.invalid, .unknown)
      else if Spec.isControl p then
        (getCtrl (p.drop 9) (calcPec p)).bind fun c => .ok (.control, 9 + c.off, c.dataLen)
      else vendorArm p (calcPec p) (Spec.msgTypeOf p) := by
  rw [decode_eq]
  by_cases h10 : p.length < 10
  · simp [h10]
  · rw [if_neg h10, if_neg h10]
    cases hh : Spec.hdrOk p
    · simp
    · simp only [Bool.not_true, Bool.false_eq_true, if_false]
      have hinv := hdrOk_msgType p hh
      cases hc : Spec.isControl p
      · have : Spec.msgTypeOf p ≠ .control := by
          intro hm; unfold Spec.msgTypeOf at hm; unfold Spec.isControl at hc
          simp only [beq_eq_false_iff_ne, ne_eq] at hc; simp [hc] at hm
          repeat' (split at hm)
          all_goals simp at hm
        simp only [Bool.false_eq_true, if_false]
        cases hm : Spec.msgTypeOf p <;> simp_all
      · rw [msgTypeOf_of_isControl p hc]; simp

/-! ### tables -/

theorem reqDataLen_tbl : ∀ cmd : B, Spec.reqUnimpl cmd = false →
    reqDataLen cmd = .ok ((Spec.reqFixed cmd).getD 0) ∧ Spec.reqFixed cmd ≠ some 0 := by
  apply forall_byte; decide +kernel

theorem respDataLen_tbl : ∀ cmd : B, Spec.respUnimpl cmd = false →
    (cmd == 0x02#8 || cmd == 0x08#8 || cmd == 0x09#8) = false →
    respDataLen cmd = .ok ((Spec.respFixed cmd).getD 0) ∧ Spec.respFixed cmd ≠ some 0 := by
  apply forall_byte; decide +kernel

theorem reqDataLen_unimpl : ∀ cmd : B, Spec.reqUnimpl cmd = true →
    reqDataLen cmd = .panic ⟨.unimplemented, .traits⟩ := by
  apply forall_byte; decide +kernel

theorem respDataLen_unimpl : ∀ cmd : B, Spec.respUnimpl cmd = true →
    respDataLen cmd = .panic ⟨.unimplemented, .traits⟩ := by
  apply forall_byte; decide +kernel

theorem reqDataLen_cases : ∀ cmd : B, (∃ n, reqDataLen cmd = .ok n) ∨ reqDataLen cmd = .panic ⟨.unimplemented, .traits⟩ := by
  intro cmd
  cases h : Spec.reqUnimpl cmd
  · exact .inl ⟨_, (reqDataLen_tbl cmd h).1⟩
  · exact .inr (reqDataLen_unimpl cmd h)

theorem respDataLen_cases_aux : ∀ cmd : B, (respDataLen cmd).isOk || (respDataLen cmd == .panic ⟨.unimplemented, .traits⟩) := by
  apply forall_byte; decide +kernel

theorem respDataLen_cases (cmd : B) : (∃ n, respDataLen cmd = .ok n) ∨ respDataLen cmd = .panic ⟨.unimplemented, .traits⟩ := by
  have := respDataLen_cases_aux cmd
  cases h : respDataLen cmd with
  | ok n => exact .inl ⟨n, rfl⟩
  | err e => rw [h] at this; simp [Out.isOk] at this
  | panic k => rw [h] at this; simp [Out.isOk] at this; exact .inr (by rw [this])

/-- Bool form of the completion-code table facts, for evaluation -/
def ccChk (b : B) : Bool :=
  match ccOf b with
  | .ok c => b == c.toByte && (b == 0x00#8 || c != .success) && decide (b.toNat < 6)
  | .err _ => false
  | .panic k => k == ⟨.unreachable, .control⟩ && decide (6 ≤ b.toNat)

theorem ccChk_all : ∀ b : B, ccChk b = true := by
  apply forall_byte; decide +kernel

theorem ccOf_ok (b : B) (c : CC) (h : ccOf b = .ok c) :
    b = c.toByte ∧ (b ≠ 0x00#8 → c ≠ .success) ∧ b.toNat < 6 := by
  have := ccChk_all b
  unfold ccChk at this; rw [h] at this
  simp only [Bool.and_eq_true, Bool.or_eq_true, beq_iff_eq, bne_iff_ne, decide_eq_true_eq] at this
  refine ⟨this.1.1, ?_, this.2⟩
  intro hb; rcases this.1.2 with h0 | h0
  · exact absurd h0 hb
  · exact h0

theorem ccOf_ne_err (b : B) (e : DErr) : ccOf b ≠ .err e := by
  intro h; have := ccChk_all b
  unfold ccChk at this; rw [h] at this; simp at this

theorem ccOf_panic (b : B) (k : Panic) (h : ccOf b = .panic k) :
    k = ⟨.unreachable, .control⟩ ∧ 6 ≤ b.toNat := by
  have := ccChk_all b
  unfold ccChk at this; rw [h] at this
  simpa using this

theorem ccOf_lt (b : B) (h : b.toNat < 6) : ∃ c, ccOf b = .ok c := by
  cases hc : ccOf b with
  | ok c => exact ⟨c, rfl⟩
  | err e => exact absurd hc (ccOf_ne_err b e)
  | panic k => have := (ccOf_panic b k hc).2; omega

theorem lenFits_eq (o : Option Nat) (m : Nat) (h : o ≠ some 0) :
    Spec.lenFits o m = !decide (o.getD 0 > 0 ∧ m ≠ o.getD 0) := by
  cases o with
  | none => simp [Spec.lenFits]
  | some k =>
    have : k ≠ 0 := fun hk => h (by rw [hk])
    have : k > 0 := by omega
    simp [Spec.lenFits, this, BEq.beq]

/-! ### inversion of decoder outcomes -/

theorem ctrlFin_eq_ok {p : Bytes} {pec : B} {off : Nat} {r : Bool} {n : Nat} {c : Ctrl}
    (h : ctrlFin p pec off r n = .ok c) :
    byteAt p (p.length - 1) = pec ∧ ¬ (n > 0 ∧ p.length - 10 - off ≠ n) ∧
      c = ⟨Spec.cmdOf p, r, off, p.length - 10 - off⟩ := by
  unfold ctrlFin at h
  by_cases h1 : byteAt p (p.length - 1) = pec
  · by_cases h2 : n > 0 ∧ p.length - 10 - off ≠ n
    · simp [h1, h2] at h
    · simp only [h1, h2, ne_eq, not_true, if_false] at h
      injection h with h
      exact ⟨h1, h2, h.symm⟩
  · simp [h1] at h

theorem ctrlFin_eq_err {p : Bytes} {pec : B} {off : Nat} {r : Bool} {n : Nat} {e : DErr}
    (h : ctrlFin p pec off r n = .err e) :
    (byteAt p (p.length - 1) ≠ pec ∧ e = (.control, .ctl .pec)) ∨
    (byteAt p (p.length - 1) = pec ∧ n > 0 ∧ p.length - 10 - off ≠ n ∧ e = (.control, .ctl .len)) := by
  unfold ctrlFin at h
  by_cases h1 : byteAt p (p.length - 1) = pec
  · by_cases h2 : n > 0 ∧ p.length - 10 - off ≠ n
    · simp only [h1, h2, ne_eq, not_true, if_false] at h
      injection h with h
      exact .inr ⟨h1, h2.1, h2.2, h.symm⟩
    · simp [h1, h2] at h
  · simp only [h1, ne_eq, not_false_eq_true, if_true] at h
    injection h with h
    exact .inl ⟨h1, h.symm⟩

theorem ctrlFin_ne_panic (p : Bytes) (pec : B) (off : Nat) (r : Bool) (n : Nat) (k : Panic) :
    ctrlFin p pec off r n ≠ .panic k := by
  unfold ctrlFin; repeat' split
  all_goals simp

theorem reqDataLen_ne_err (cmd : B) (e : DErr) : reqDataLen cmd ≠ .err e := by
  rcases reqDataLen_cases cmd with ⟨n, h⟩ | h <;> rw [h] <;> simp

theorem respDataLen_ne_err (cmd : B) (e : DErr) : respDataLen cmd ≠ .err e := by
  rcases respDataLen_cases cmd with ⟨n, h⟩ | h <;> rw [h] <;> simp

/-- inversion of a successful control decode -/
theorem getCtrl_ok_inv {p : Bytes} {pec : B} {c : Ctrl} (h10 : 10 ≤ p.length)
    (h : getCtrl (p.drop 9) pec = .ok c) :
    byteAt p (p.length - 1) = pec ∧
    ((Spec.isRequest p = true ∧ 12 ≤ p.length ∧ c = ⟨Spec.cmdOf p, true, 2, p.length - 12⟩ ∧
        ∃ n, reqDataLen (Spec.cmdOf p) = .ok n ∧ ¬ (n > 0 ∧ p.length - 12 ≠ n)) ∨
     (Spec.isRequest p = false ∧ 13 ≤ p.length ∧ Spec.ccByte p = 0x00#8 ∧
        c = ⟨Spec.cmdOf p, false, 3, p.length - 13⟩ ∧
        ∃ n, respDataLen (Spec.cmdOf p) = .ok n ∧ ¬ (n > 0 ∧ p.length - 13 ≠ n))) := by
  rw [getCtrl_drop9 p pec h10] at h
  by_cases h12 : p.length < 12
  · simp [h12] at h
  · rw [if_neg h12] at h
    cases hr : Spec.isRequest p
    · simp only [hr, Bool.false_eq_true, if_false] at h
      by_cases h13 : p.length < 13
      · simp [h13] at h
      · rw [if_neg h13] at h
        by_cases hcc : Spec.ccByte p = 0x00#8
        · simp only [hcc, ne_eq, not_true, if_false] at h
          obtain ⟨n, hn, hf⟩ := Out.bind_eq_ok.mp h
          obtain ⟨h1, h2, h3⟩ := ctrlFin_eq_ok hf
          exact ⟨h1, .inr ⟨rfl, by omega, hcc, h3, n, hn, h2⟩⟩
        · simp only [hcc, ne_eq, not_false_eq_true, if_true] at h
          obtain ⟨n, _, hf⟩ := Out.bind_eq_ok.mp h
          simp at hf
    · simp only [hr, if_true] at h
      obtain ⟨n, hn, hf⟩ := Out.bind_eq_ok.mp h
      obtain ⟨h1, h2, h3⟩ := ctrlFin_eq_ok hf
      exact ⟨h1, .inl ⟨rfl, by omega, h3, n, hn, h2⟩⟩

/-- inversion of a rejecting control decode -/
theorem getCtrl_err_inv {p : Bytes} {pec : B} {e : DErr} (h10 : 10 ≤ p.length)
    (h : getCtrl (p.drop 9) pec = .err e) :
    (p.length < 12 ∧ e = (.control, .ctl .len)) ∨
    (Spec.isRequest p = true ∧ 12 ≤ p.length ∧ ∃ n, reqDataLen (Spec.cmdOf p) = .ok n ∧
      ((byteAt p (p.length - 1) ≠ pec ∧ e = (.control, .ctl .pec)) ∨
       (byteAt p (p.length - 1) = pec ∧ n > 0 ∧ p.length - 12 ≠ n ∧ e = (.control, .ctl .len)))) ∨
    (Spec.isRequest p = false ∧ 12 ≤ p.length ∧ p.length < 13 ∧ e = (.control, .ctl .len)) ∨
    (Spec.isRequest p = false ∧ 13 ≤ p.length ∧ Spec.ccByte p ≠ 0x00#8 ∧
      ∃ c, ccOf (Spec.ccByte p) = .ok c ∧ e = (.control, .ctl (.cc c))) ∨
    (Spec.isRequest p = false ∧ 13 ≤ p.length ∧ Spec.ccByte p = 0x00#8 ∧
      ∃ n, respDataLen (Spec.cmdOf p) = .ok n ∧
      ((byteAt p (p.length - 1) ≠ pec ∧ e = (.control, .ctl .pec)) ∨
       (byteAt p (p.length - 1) = pec ∧ n > 0 ∧ p.length - 13 ≠ n ∧ e = (.control, .ctl .len)))) := by
  rw [getCtrl_drop9 p pec h10] at h
  by_cases h12 : p.length < 12
  · simp only [h12, if_true] at h
    injection h with h
    exact .inl ⟨h12, h.symm⟩
  · rw [if_neg h12] at h
    cases hr : Spec.isRequest p
    · simp only [hr, Bool.false_eq_true, if_false] at h
      by_cases h13 : p.length < 13
      · simp only [h13, if_true] at h
        injection h with h
        exact .inr (.inr (.inl ⟨rfl, by omega, h13, h.symm⟩))
      · rw [if_neg h13] at h
        by_cases hcc : Spec.ccByte p = 0x00#8
        · simp only [hcc, ne_eq, not_true, if_false] at h
          rcases Out.bind_eq_err.mp h with h | ⟨n, hn, hf⟩
          · exact absurd h (respDataLen_ne_err _ _)
          · refine .inr (.inr (.inr (.inr ⟨rfl, by omega, hcc, n, hn, ?_⟩)))
            exact ctrlFin_eq_err hf
        · simp only [hcc, ne_eq, not_false_eq_true, if_true] at h
          rcases Out.bind_eq_err.mp h with h | ⟨c, hc, hf⟩
          · exact absurd h (ccOf_ne_err _ _)
          · injection hf with hf
            exact .inr (.inr (.inr (.inl ⟨rfl, by omega, hcc, c, hc, hf.symm⟩)))
    · simp only [hr, if_true] at h
      rcases Out.bind_eq_err.mp h with h | ⟨n, hn, hf⟩
      · exact absurd h (reqDataLen_ne_err _ _)
      · exact .inr (.inl ⟨rfl, by omega, n, hn, ctrlFin_eq_err hf⟩)

theorem decode_ok_inv {p : Bytes} {t : MsgType} {off len : Nat} (h : decode p = .ok (t, off, len)) :
    10 ≤ p.length ∧ Spec.hdrOk p = true ∧ byteAt p (p.length - 1) = calcPec p ∧
    ((Spec.isControl p = false ∧ t = Spec.msgTypeOf p ∧ off = 9 ∧ len = p.length - 1 - 9) ∨
     (Spec.isControl p = true ∧ t = .control ∧
        ∃ c, getCtrl (p.drop 9) (calcPec p) = .ok c ∧ off = 9 + c.off ∧ len = c.dataLen)) := by
  rw [decode_nf] at h
  by_cases h10 : p.length < 10
  · simp [h10] at h
  · rw [if_neg h10] at h
    cases hh : Spec.hdrOk p
    · simp [hh] at h
    · simp only [hh, Bool.not_true, Bool.false_eq_true, if_false] at h
      cases hc : Spec.isControl p
      · simp only [hc, Bool.false_eq_true, if_false] at h
        unfold vendorArm at h
        by_cases hp : byteAt p (p.length - 1) = calcPec p
        · simp only [hp, ne_eq, not_true, if_false] at h
          injection h with h; injection h with h1 h2; injection h2 with h2 h3
          exact ⟨by omega, rfl, hp, .inl ⟨rfl, h1.symm, h2.symm, h3.symm⟩⟩
        · simp [hp] at h
      · simp only [hc, if_true] at h
        obtain ⟨c, hcok, hf⟩ := Out.bind_eq_ok.mp h
        injection hf with hf; injection hf with h1 h2; injection h2 with h2 h3
        have h10' : 10 ≤ p.length := by omega
        exact ⟨h10', rfl, (getCtrl_ok_inv h10' hcok).1, .inr ⟨rfl, h1.symm, c, hcok, h2.symm, h3.symm⟩⟩

theorem decode_err_inv {p : Bytes} {e : DErr} (h : decode p = .err e) :
    ((p.length < 10 ∨ Spec.hdrOk p = false) ∧ e = (.invalid, .unknown)) ∨
    (10 ≤ p.length ∧ Spec.hdrOk p = true ∧ Spec.isControl p = false ∧
      byteAt p (p.length - 1) ≠ calcPec p ∧ e = (Spec.msgTypeOf p, .ctl .pec)) ∨
    (10 ≤ p.length ∧ Spec.hdrOk p = true ∧ Spec.isControl p = true ∧
      getCtrl (p.drop 9) (calcPec p) = .err e) := by
  rw [decode_nf] at h
  by_cases h10 : p.length < 10
  · simp only [h10, if_true] at h
    injection h with h
    exact .inl ⟨.inl h10, h.symm⟩
  · rw [if_neg h10] at h
    cases hh : Spec.hdrOk p
    · simp only [hh, Bool.not_false, if_true] at h
      injection h with h
      exact .inl ⟨.inr rfl, h.symm⟩
    · simp only [hh, Bool.not_true, Bool.false_eq_true, if_false] at h
      cases hc : Spec.isControl p
      · simp only [hc, Bool.false_eq_true, if_false] at h
        unfold vendorArm at h
        by_cases hp : byteAt p (p.length - 1) = calcPec p
        · simp [hp] at h
        · simp only [hp, ne_eq, not_false_eq_true, if_true] at h
          injection h with h
          exact .inr (.inl ⟨by omega, rfl, rfl, hp, h.symm⟩)
      · simp only [hc, if_true] at h
        rcases Out.bind_eq_err.mp h with h | ⟨c, _, hf⟩
        · exact .inr (.inr ⟨by omega, rfl, rfl, h⟩)
        · simp at hf

/-! ### acceptance helpers and the pieces of `Spec.inClaim` -/

theorem Out.isOk_bind_ok {ε α β : Type} (x : Out ε α) (f : α → β) :
    (x.bind fun a => .ok (f a)).isOk = x.isOk := by
  cases x <;> rfl

theorem ctrlFin_isOk (p : Bytes) (pec : B) (off : Nat) (r : Bool) (n : Nat) :
    (ctrlFin p pec off r n).isOk =
      (byteAt p (p.length - 1) == pec && !decide (n > 0 ∧ p.length - 10 - off ≠ n)) := by
  unfold ctrlFin
  by_cases h1 : byteAt p (p.length - 1) = pec
  · by_cases h2 : n > 0 ∧ p.length - 10 - off ≠ n
    · simp [h1, h2, Out.isOk]
    · simp only [h1, h2, ne_eq, not_true, if_false, Out.isOk]; simp
  · simp [h1, Out.isOk]

theorem inClaim_inv (p : Bytes) (h : Spec.inClaim p = true) :
    10 ≤ p.length ∧ (Spec.isControl p = true → Spec.hdrOk p = true →
      (Spec.isRequest p = true → 12 ≤ p.length ∧ Spec.reqUnimpl (Spec.cmdOf p) = false) ∧
      (Spec.isRequest p = false → 13 ≤ p.length ∧ (Spec.ccByte p).toNat < 6 ∧
        (Spec.cmdOf p == 0x02#8 || Spec.cmdOf p == 0x08#8 || Spec.cmdOf p == 0x09#8) = false ∧
        (Spec.ccByte p = 0x00#8 → Spec.respUnimpl (Spec.cmdOf p) = false))) := by
  unfold Spec.inClaim at h
  simp only [Bool.and_eq_true] at h
  obtain ⟨⟨hlong, hexcl⟩, hpan⟩ := h
  unfold Spec.longEnough at hlong
  simp only [Bool.and_eq_true, decide_eq_true_eq] at hlong
  obtain ⟨h10, hlong⟩ := hlong
  refine ⟨h10, fun hc hh => ?_⟩
  unfold Spec.decodePanicClass at hpan
  rw [hc] at hlong hexcl
  rw [hh, hc] at hpan
  simp only [if_true, Bool.true_and, Bool.and_true, decide_eq_true_eq, h10, decide_true] at hlong hexcl hpan
  constructor
  · intro hr
    rw [hr] at hlong hpan
    simp at hlong hpan
    exact ⟨hlong, hpan hlong⟩
  · intro hr
    rw [hr] at hlong hexcl hpan
    simp at hlong hexcl hpan
    have hpan := hpan (by omega) hlong
    have hcc6 : (Spec.ccByte p).toNat < 6 := by
      by_cases h6 : 6 ≤ (Spec.ccByte p).toNat
      · simp [h6] at hpan
      · omega
    refine ⟨hlong, hcc6, by simp [hexcl], fun hcc => ?_⟩
    have h6 : ¬ 6 ≤ (Spec.ccByte p).toNat := by omega
    rw [if_neg h6] at hpan
    cases hu : Spec.respUnimpl (Spec.cmdOf p)
    · rfl
    · simp [hcc, hu] at hpan

end Mctp
