/-
Helper lemmas: normal form of the decoder in terms of the specification's byte predicates
(`Spec.isControl`, `Spec.isRequest`, `Spec.cmdOf`, `Spec.ccByte`), and the length / completion-code
tables against `Spec.reqFixed`, `Spec.respFixed`, `Spec.reqUnimpl`, `Spec.respUnimpl`.
-/
import Mctp.Lemmas.Decode
namespace Mctp

/-- the tail of `get_mctp_control_packet` after the length table was consulted -/
def ctrlFin (p : Bytes) (pec : B) (off : Nat) (isReq : Bool) (n : Nat) : Out DErr Ctrl :=
  if byteAt p (p.length - 1) ≠ pec then .err (.control, .ctl .pec)
  else if n > 0 ∧ p.length - 10 - off ≠ n then .err (.control, .ctl .len)
  else .ok ⟨Spec.cmdOf p, isReq, off, p.length - 10 - off⟩

theorem Out.bind_map {ε α β γ : Type} (x : Out ε α) (f : α → β) (g : β → Out ε γ) :
    (x.map f).bind g = x.bind fun a => g (f a) := by
  cases x <;> rfl

theorem isRequest_eq_msb (p : Bytes) : Spec.isRequest p = (byteAt p 9).msb := by
  unfold Spec.isRequest
  generalize byteAt p 9 = b
  revert b; apply forall_byte; decide +kernel

theorem getCtrl_drop9 (p : Bytes) (pec : B) (h : 10 ≤ p.length) :
    getCtrl (p.drop 9) pec =
      if p.length < 12 then .err (.control, .ctl .len)
      else if Spec.isRequest p then (reqDataLen (Spec.cmdOf p)).bind (ctrlFin p pec 2 true)
      else if p.length < 13 then .err (.control, .ctl .len)
      else if Spec.ccByte p ≠ 0x00#8 then (ccOf (Spec.ccByte p)).bind fun c => .err (.control, .ctl (.cc c))
      else (respDataLen (Spec.cmdOf p)).bind (ctrlFin p pec 3 false) := by
  unfold getCtrl
  rw [ctrlSelect_eq]
  simp only [byteAt_drop, List.length_drop, ctrl_cmd_get, isRequest_eq_msb, Spec.cmdOf, Spec.ccByte]
  have e1 : 9 + (p.length - 9 - 1) = p.length - 1 := by omega
  simp only [e1, Nat.add_zero]
  by_cases h12 : p.length < 12
  · have : p.length - 9 < 3 := by omega
    simp [h12, this]
  · have h3 : ¬ p.length - 9 < 3 := by omega
    rw [if_neg h3, if_neg h12]
    cases hm : (byteAt p 9).msb
    · simp only [Bool.false_eq_true, if_false]
      by_cases h13 : p.length < 13
      · have : p.length - 9 < 4 := by omega
        simp [h13, this]
      · have h4 : ¬ p.length - 9 < 4 := by omega
        rw [if_neg h4, if_neg h13]
        by_cases hc : byteAt p 11 = 0x00#8
        · simp only [hc, ne_eq, not_true, if_false, Out.bind_map]
          congr 1
        · simp only [hc, ne_eq, not_false_eq_true, if_true]
          cases ccOf (byteAt p 11) <;> rfl
    · simp only [if_true, Out.bind_map]
      congr 1

theorem msgTypeOf_of_isControl (p : Bytes) (h : Spec.isControl p = true) : Spec.msgTypeOf p = .control := by
  unfold Spec.isControl at h; unfold Spec.msgTypeOf
  simp only [beq_iff_eq] at h; simp [h]

theorem hdrOk_msgType (p : Bytes) (h : Spec.hdrOk p = true) : Spec.msgTypeOf p ≠ .invalid := by
  unfold Spec.hdrOk at h; unfold Spec.msgTypeOf
  generalize Spec.typeBits p = t at *
  simp only [Bool.and_eq_true, Bool.or_eq_true, beq_iff_eq] at h
  rcases h.2 with (((h|h)|h)|h)|h <;> subst h <;> decide

theorem decode_nf (p : Bytes) :
    decode p =
      if p.length < 10 then .err (.invalid, .unknown)
      else if !Spec.hdrOk p then .err (.invalid, .unknown)
      else if Spec.isControl p then
        (getCtrl (p.drop 9) (calcPec p)).bind fun c => .ok (.control, 9 + c.off, c.dataLen)
      else vendorArm p (calcPec p) (Spec.msgTypeOf p) := by
  rw [decode_eq]
  by_cases h10 : p.length < 10
  · simp [h10]
  · rw [if_neg h10, if_neg h10]
    cases hh : Spec.hdrOk p
    · simp
    · simp only [Bool.not_true, Bool.false_eq_true, if_false]
      have hinv := hdrOk_msgType p hh
      cases hc : Spec.isControl p
      · have : Spec.msgTypeOf p ≠ .control := by
          intro hm; unfold Spec.msgTypeOf at hm; unfold Spec.isControl at hc
          simp only [beq_eq_false_iff_ne, ne_eq] at hc; simp [hc] at hm
          repeat' (split at hm)
          all_goals simp at hm
        simp only [Bool.false_eq_true, if_false]
        cases hm : Spec.msgTypeOf p <;> simp_all
      · rw [msgTypeOf_of_isControl p hc]; simp

/-! ### tables -/

theorem reqDataLen_tbl : ∀ cmd : B, Spec.reqUnimpl cmd = false →
    reqDataLen cmd = .ok ((Spec.reqFixed cmd).getD 0) ∧ Spec.reqFixed cmd ≠ some 0 := by
  apply forall_byte; decide +kernel

theorem respDataLen_tbl : ∀ cmd : B, Spec.respUnimpl cmd = false →
    (cmd == 0x02#8 || cmd == 0x08#8 || cmd == 0x09#8) = false →
    respDataLen cmd = .ok ((Spec.respFixed cmd).getD 0) ∧ Spec.respFixed cmd ≠ some 0 := by
  apply forall_byte; decide +kernel

theorem reqDataLen_unimpl : ∀ cmd : B, Spec.reqUnimpl cmd = true →
    reqDataLen cmd = .panic ⟨.unimplemented, .traits⟩ := by
  apply forall_byte; decide +kernel

theorem respDataLen_unimpl : ∀ cmd : B, Spec.respUnimpl cmd = true →
    respDataLen cmd = .panic ⟨.unimplemented, .traits⟩ := by
  apply forall_byte; decide +kernel

theorem reqDataLen_cases : ∀ cmd : B, (∃ n, reqDataLen cmd = .ok n) ∨ reqDataLen cmd = .panic ⟨.unimplemented, .traits⟩ := by
  intro cmd
  cases h : Spec.reqUnimpl cmd
  · exact .inl ⟨_, (reqDataLen_tbl cmd h).1⟩
  · exact .inr (reqDataLen_unimpl cmd h)

theorem respDataLen_cases_aux : ∀ cmd : B, (respDataLen cmd).isOk || (respDataLen cmd == .panic ⟨.unimplemented, .traits⟩) := by
  apply forall_byte; decide +kernel

theorem respDataLen_cases (cmd : B) : (∃ n, respDataLen cmd = .ok n) ∨ respDataLen cmd = .panic ⟨.unimplemented, .traits⟩ := by
  have := respDataLen_cases_aux cmd
  cases h : respDataLen cmd with
  | ok n => exact .inl ⟨n, rfl⟩
  | err e => rw [h] at this; simp [Out.isOk] at this
  | panic k => rw [h] at this; simp [Out.isOk] at this; exact .inr (by rw [this])

/-- Bool form of the completion-code table facts, for evaluation -/
def ccChk (b : B) : Bool :=
  match ccOf b with
  | .ok c => b == c.toByte && (b == 0x00#8 || c != .success) && decide (b.toNat < 6)
  | .err _ => false
  | .panic k => k == ⟨.unreachable, .control⟩ && decide (6 ≤ b.toNat)

theorem ccChk_all : ∀ b : B, ccChk b = true := by
  apply forall_byte; decide +kernel

theorem ccOf_ok (b : B) (c : CC) (h : ccOf b = .ok c) :
    b = c.toByte ∧ (b ≠ 0x00#8 → c ≠ .success) ∧ b.toNat < 6 := by
  have := ccChk_all b
  unfold ccChk at this; rw [h] at this
  simp only [Bool.and_eq_true, Bool.or_eq_true, beq_iff_eq, bne_iff_ne, decide_eq_true_eq] at this
  refine ⟨this.1.1, ?_, this.2⟩
  intro hb; rcases this.1.2 with h0 | h0
  · exact absurd h0 hb
  · exact h0

theorem ccOf_ne_err (b : B) (e : DErr) : ccOf b ≠ .err e := by
  intro h; have := ccChk_all b
  unfold ccChk at this; rw [h] at this; simp at this

theorem ccOf_panic (b : B) (k : Panic) (h : ccOf b = .panic k) :
    k = ⟨.unreachable, .control⟩ ∧ 6 ≤ b.toNat := by
  have := ccChk_all b
  unfold ccChk at this; rw [h] at this
  simpa using this

theorem ccOf_lt (b : B) (h : b.toNat < 6) : ∃ c, ccOf b = .ok c := by
  cases hc : ccOf b with
  | ok c => exact ⟨c, rfl⟩
  | err e => exact absurd hc (ccOf_ne_err b e)
  | panic k => have := (ccOf_panic b k hc).2; omega

theorem lenFits_eq (o : Option Nat) (m : Nat) (h : o ≠ some 0) :
    Spec.lenFits o m = !decide (o.getD 0 > 0 ∧ m ≠ o.getD 0) := by
  cases o with
  | none => simp [Spec.lenFits]
  | some k =>
    have : k ≠ 0 := fun hk => h (by rw [hk])
    have : k > 0 := by omega
    simp [Spec.lenFits, this, BEq.beq]

end Mctp
