/-
Helper lemmas for Props/JudgeSoundEnc: outcome inversion of `encode`, and the judge-level quantities
(`Spec.messageLen`, lengths of `Spec.reqBody` / `Spec.respFields` / `Spec.vendorFrame`) against the size of the
body the model hands to `genPacket`.
-/
import Mctp.Lemmas.EncodeApi
import Mctp.Spec.Judge
namespace Mctp
namespace JSE
open Spec

theorem bytes_beq_self (b : Bytes) : (b == b) = true := by simp

theorem optLen_some (x : Bytes) : optLen (some x) = x.length := rfl
theorem ctrlHeader_length (rq : Bool) (cmd : Cmd) : (ctrlHeader rq cmd).length = 2 := by
  rw [ctrlHeader_eq]; rfl
theorem pciHeader_length (d : BitVec 32) : (pciHeader d).length = 2 := by rw [pciHeader_eq]; rfl
theorem ianaHeader_length (d : BitVec 32) : (ianaHeader d).length = 4 := by rw [ianaHeader_eq]; rfl

theorem isStubCall_eq (e : Enc) : isStubCall e = e.isStub := by cases e <;> rfl

/-! ### outcome inversion of `encode` -/

theorem encode_panic_cases {c : Ctx} {dst : B} {e : Enc} {buf : Bytes} {p : Panic}
    (h : encode c dst e buf = .panic p) :
    e.isStub = true ∨ (∃ q, e.body c = .panic q) ∨
      (e.isStub = false ∧ ∃ t hd d, e.body c = .ok (t, hd, d) ∧ 1 + optLen hd + d.length ≤ 250 ∧
        buf.length < 10 + optLen hd + d.length) := by
  cases hs : e.isStub
  · right
    cases hb : e.body c with
    | ok a =>
      obtain ⟨t, hd, d⟩ := a
      right
      refine ⟨rfl, t, hd, d, rfl, ?_⟩
      rw [encode_of_body hb hs] at h
      by_cases hbig : 250 < 1 + optLen hd + d.length
      · rw [genPacket_oversize _ _ _ _ _ _ hbig] at h; cases h
      · have hf : 1 + optLen hd + d.length ≤ 250 := by omega
        by_cases hsh : buf.length < 10 + optLen hd + d.length
        · exact ⟨hf, hsh⟩
        · have hl : 10 + optLen hd + d.length ≤ buf.length := by omega
          rw [genPacket_ok _ _ _ _ _ _ hf hl] at h; cases h
    | err u => unfold encode at h; rw [hb] at h; simp at h
    | panic q => exact .inl ⟨q, rfl⟩
  · exact .inl rfl

theorem encode_err_cases {c : Ctx} {dst : B} {e : Enc} {buf : Bytes} {u : Unit}
    (h : encode c dst e buf = .err u) :
    documentedInvalid e = true ∨
      (e.isStub = false ∧ ∃ t hd d, e.body c = .ok (t, hd, d) ∧ 250 < 1 + optLen hd + d.length) := by
  cases hb : e.body c with
  | ok a =>
    obtain ⟨t, hd, d⟩ := a
    right
    cases hs : e.isStub
    · rw [encode_of_body hb hs, genPacket_err_iff] at h
      exact ⟨rfl, t, hd, d, rfl, h⟩
    · exact absurd h (encode_stub_ne_err hs buf)
  | err u => exact .inl ((body_err_iff c e).mp hb)
  | panic p => unfold encode at h; rw [hb] at h; simp at h

/-! ### the judge's message length against the model's body size -/

theorem messageLen_vendor (r : B) (v : VendorId) (msg : Bytes) :
    messageLen r (.vendorDefined v msg) =
      if v.format = 0#8 then some (3 + msg.length) else if v.format = 1#8 then some (5 + msg.length) else none := rfl

theorem messageLen_of_body {c : Ctx} {r : B} {e : Enc} {t : MsgType} {hd : Option Bytes} {d : Bytes} {m : Nat}
    (hb : e.body c = .ok (t, hd, d)) (hm : messageLen r e = some m) :
    m = 1 + optLen hd + d.length ∨ (argsOk e = false ∧ m ≤ 35) := by
  cases e <;> enc_body_inv hb
  all_goals (first | (injection hm; done) | skip)
  all_goals (try (injection hm with hm; subst hm))
  case vendorDefined.isTrue v msg h0 =>
    rw [messageLen_vendor, if_pos h0] at hm
    injection hm with hm; subst hm
    left; rw [optLen_some, pciHeader_length]
  case vendorDefined.isFalse.isTrue v msg h0 h1 =>
    rw [messageLen_vendor, if_neg h0, if_pos h1] at hm
    injection hm with hm; subst hm
    left; rw [optLen_some, ianaHeader_length]
  case reqRouting.isFalse es hn =>
    by_cases h4 : es.length % 4 = 0
    · left
      have : 4 * (es.length / 4) = es.length := by omega
      rw [this, List.take_length, optLen_some, ctrlHeader_length]
      simp only [List.length_cons]; omega
    · right
      refine ⟨by simp [argsOk, h4], ?_⟩
      simp only [List.length_cons]; omega
  case genSpdm t h d =>
    cases t <;> first | (injection hm; done) | (injection hm with hm; subst hm; left; simp [optBytes_length]; omega)
  all_goals left
  all_goals simp [optLen_some, ctrlHeader_length, optBytes_length]
  all_goals omega

theorem stub_none {e : Enc} (hs : e.isStub = true) (r : B) :
    messageLen r e = none ∧ reqBody e = none ∧ respFields r e = none ∧ vendorFrame e = none := by
  cases e <;> first | (cases hs; done) | exact ⟨rfl, rfl, rfl, rfl⟩

theorem body_panic_inv {c : Ctx} {e : Enc} {p : Panic} (h : e.body c = .panic p) :
    ∃ cc sel vid, e = .respVendor cc sel vid ∧ 7 < vid.length := by
  cases e <;> simp only [Enc.body] at h
  all_goals (first | (cases h; done) | skip)
  case reqSetEid => split at h <;> cases h
  case reqRouting => split at h <;> cases h
  case vendorDefined => split at h; cases h; split at h <;> cases h
  case respMsgTypes => split at h <;> cases h
  case respVendor cc sel vid =>
    refine ⟨cc, sel, vid, rfl, ?_⟩
    split at h
    · assumption
    · cases h

theorem messageLen_respVendor (r cc sel : B) (vid : Bytes) :
    messageLen r (.respVendor cc sel vid) = some (5 + vid.length) := by
  show some (4 + (sel :: vid).length) = _
  simp only [List.length_cons]; congr 1; omega

theorem reqBody_len {c : Ctx} {e : Enc} {t : MsgType} {hd : Option Bytes} {d body : Bytes}
    (ha : argsOk e = true) (hr : reqBody e = some body) (hb : e.body c = .ok (t, hd, d)) :
    optLen hd + d.length = body.length ∧ body.length ≤ 40 := by
  cases e <;> enc_body_inv hb
  all_goals (first | (injection hr; done) | skip)
  all_goals (injection hr with hr; subst hr)
  case reqRouting.isFalse es hn =>
    have h4 : es.length % 4 = 0 := by simpa [argsOk] using ha
    have : 4 * (es.length / 4) = es.length := by omega
    rw [this, List.take_length, optLen_some, ctrlHeader_length]
    simp only [List.length_cons]; omega
  case reqResolveUuid u h =>
    have h16 : u.length = 16 := by simpa [argsOk] using ha
    simp [optLen_some, ctrlHeader_length, h16]
  all_goals simp [optLen_some, ctrlHeader_length]

theorem respFields_len {c : Ctx} {e : Enc} {t : MsgType} {hd : Option Bytes} {d fields : Bytes} {cmd cc : B}
    (hf : respFields c.respEid e = some (cmd, cc, fields)) (hb : e.body c = .ok (t, hd, d)) :
    optLen hd + d.length = 3 + fields.length := by
  have h := congrArg List.length (respFields_body hf hb)
  rw [List.length_append, optBytes_length] at h
  simp only [List.length_cons] at h
  omega

theorem respFields_small {c : Ctx} {e : Enc} {t : MsgType} {hd : Option Bytes} {d fields : Bytes} {cmd cc r : B}
    (ha : argsOk e = true) (hf : respFields r e = some (cmd, cc, fields)) (hb : e.body c = .ok (t, hd, d)) :
    fields.length ≤ 40 := by
  cases e <;> enc_body_inv hb
  all_goals (first | (injection hf; done) | skip)
  case respUuid cc0 u =>
    have h16 : u.length = 16 := by simpa [argsOk] using ha
    injection hf with hf; injection hf with _ hf; injection hf with _ hf; subst hf
    omega
  all_goals (injection hf with hf; injection hf with _ hf; injection hf with _ hf; subst hf)
  all_goals (simp only [List.length_cons, List.length_nil]; omega)

theorem vendorFrame_len {c : Ctx} {e : Enc} {t : MsgType} {hd : Option Bytes} {d fr : Bytes}
    (hv : vendorFrame e = some fr) (hb : e.body c = .ok (t, hd, d)) :
    fr.length = 1 + optLen hd + d.length := by
  rw [← vendorFrame_body hv hb, List.length_cons, List.length_append, optBytes_length]; omega

end JSE
end Mctp
