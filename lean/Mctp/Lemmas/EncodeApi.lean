/-
Helper lemmas: inversion of the encoder API (`encode`, `encodeBytes`, `Enc.body`) down to `genPacket`
and the packet normal form; shared by Props/C03-C08 and C16.
-/
import Mctp.Lemmas.Encode
import Mctp.Spec.Api
namespace Mctp

/-- inversion of a successful `genPacket` -/
theorem genPacket_ok_inv {a d : B} {t : MsgType} {h : Option Bytes} {data buf buf' : Bytes} {n : Nat}
    (hg : genPacket a d t h data buf = .ok (buf', n)) :
    1 + optLen h + data.length ≤ 250 ∧ 10 + optLen h + data.length ≤ buf.length ∧
      buf' = packetBytes a d t h data ++ buf.drop (10 + optLen h + data.length) ∧
      n = 10 + optLen h + data.length := by
  by_cases hbig : 250 < 1 + optLen h + data.length
  · rw [genPacket_oversize a d t h data buf hbig] at hg; cases hg
  · by_cases hs : buf.length < 10 + optLen h + data.length
    · have hf : 1 + optLen h + data.length ≤ 250 := by omega
      obtain ⟨p, hp⟩ := genPacket_short a d t h data buf hf hs
      rw [hp] at hg; cases hg
    · have hf : 1 + optLen h + data.length ≤ 250 := by omega
      have hl : 10 + optLen h + data.length ≤ buf.length := by omega
      rw [genPacket_ok a d t h data buf hf hl] at hg
      simp only [Out.ok.injEq, Prod.mk.injEq] at hg
      exact ⟨hf, hl, hg.1.symm, hg.2.symm⟩

theorem genPacket_err_iff (a d : B) (t : MsgType) (h : Option Bytes) (data buf : Bytes) :
    genPacket a d t h data buf = .err () ↔ 250 < 1 + optLen h + data.length := by
  constructor
  · intro hg
    by_cases hbig : 250 < 1 + optLen h + data.length
    · exact hbig
    · by_cases hs : buf.length < 10 + optLen h + data.length
      · have hf : 1 + optLen h + data.length ≤ 250 := by omega
        obtain ⟨p, hp⟩ := genPacket_short a d t h data buf hf hs
        rw [hp] at hg; cases hg
      · have hf : 1 + optLen h + data.length ≤ 250 := by omega
        have hl : 10 + optLen h + data.length ≤ buf.length := by omega
        rw [genPacket_ok a d t h data buf hf hl] at hg
        simp at hg
  · exact genPacket_oversize a d t h data buf

theorem encodeBytes_ok_iff (c : Ctx) (dst : B) (e : Enc) (pkt : Bytes) :
    encodeBytes c dst e = .ok pkt ↔
      ∃ t h d, e.body c = .ok (t, h, d) ∧ e.isStub = false ∧ 1 + optLen h + d.length ≤ 250 ∧
        packetBytes c.address dst t h d = pkt := by
  unfold encodeBytes
  rw [Out.bind_eq_ok]
  constructor
  · rintro ⟨⟨t, h, d⟩, hb, hr⟩
    refine ⟨t, h, d, hb, ?_⟩
    simp only [] at hr
    split at hr
    · cases hr
    · split at hr
      · cases hr
      · have hp := Out.ok.inj hr
        exact ⟨by simpa using ‹¬ e.isStub = true›, by unfold maxBodyLen at *; omega, hp⟩
  · rintro ⟨t, h, d, hb, hs, hf, hp⟩
    subst hp
    refine ⟨(t, h, d), hb, ?_⟩
    simp only [hs]
    rw [if_neg (by simp), if_neg (by unfold maxBodyLen; omega)]

theorem encode_ok_iff (c : Ctx) (dst : B) (e : Enc) (buf buf' : Bytes) (n : Nat) :
    encode c dst e buf = .ok (buf', n) ↔
      ∃ t h d, e.body c = .ok (t, h, d) ∧ e.isStub = false ∧ 1 + optLen h + d.length ≤ 250 ∧
        10 + optLen h + d.length ≤ buf.length ∧
        packetBytes c.address dst t h d ++ buf.drop (10 + optLen h + d.length) = buf' ∧
        n = 10 + optLen h + d.length := by
  unfold encode
  rw [Out.bind_eq_ok]
  constructor
  · rintro ⟨⟨t, h, d⟩, hb, hr⟩
    refine ⟨t, h, d, hb, ?_⟩
    simp only [] at hr
    split at hr
    · split at hr <;> cases hr
    · obtain ⟨h1, h2, h3, h4⟩ := genPacket_ok_inv hr
      exact ⟨by simpa using ‹¬ e.isStub = true›, h1, h2, h3.symm, h4⟩
  · rintro ⟨t, h, d, hb, hs, hf, hl, hp, hn⟩
    subst hp hn
    refine ⟨(t, h, d), hb, ?_⟩
    simp only [hs]
    rw [if_neg (by simp), genPacket_ok _ _ _ _ _ _ hf hl]

theorem encode_of_body {c : Ctx} {dst : B} {e : Enc} {t : MsgType} {h : Option Bytes} {d : Bytes}
    (hb : e.body c = .ok (t, h, d)) (hs : e.isStub = false) (buf : Bytes) :
    encode c dst e buf = genPacket c.address dst t h d buf := by
  unfold encode
  rw [hb, Out.bind_ok]
  simp only [hs]
  rw [if_neg (by simp)]

theorem encode_stub_ne_err {c : Ctx} {dst : B} {e : Enc} (hs : e.isStub = true) (buf : Bytes) :
    encode c dst e buf ≠ .err () := by
  unfold encode
  cases hb : e.body c with
  | ok a =>
    obtain ⟨t, h, d⟩ := a
    rw [Out.bind_ok]
    simp only [hs, if_true]
    split <;> simp
  | err u => cases e <;> simp [Enc.isStub] at hs <;> simp [Enc.body] at hb
  | panic p => simp

theorem body_err_iff (c : Ctx) (e : Enc) : e.body c = .err () ↔ Spec.documentedInvalid e = true := by
  cases e <;> simp [Enc.body, Spec.documentedInvalid]
  case reqSetEid op eid => by_cases h : eid = 255#8 <;> simp [h]
  case reqRouting es => omega
  case vendorDefined v msg => by_cases h0 : v.format = 0#8 <;> by_cases h1 : v.format = 1#8 <;> simp [h0, h1]
  case respVendor cc sel vid => split <;> simp

theorem body_panic (c : Ctx) (e : Enc) (p : Panic) (h : e.body c = .panic p) : Spec.argsOk e = false := by
  cases e <;> simp [Enc.body, Spec.argsOk] at h ⊢
  case reqSetEid op eid => split at h <;> cases h
  case reqRouting es => split at h <;> cases h
  case vendorDefined v msg => split at h; cases h; split at h <;> cases h
  case respMsgTypes cc ts => split at h <;> cases h
  case respVendor cc sel vid => split at h; assumption; cases h

/-! ### normal form of the reported bytes, and what each API call hands to `genPacket` -/

/-- normal form of the bytes a successful encoder call reports -/
theorem encode_ok_take {c : Ctx} {dst : B} {e : Enc} {buf buf' : Bytes} {n : Nat}
    (h : encode c dst e buf = .ok (buf', n)) :
    ∃ t hd d, e.body c = .ok (t, hd, d) ∧ e.isStub = false ∧ 1 + optLen hd + d.length ≤ 250 ∧
      n = 10 + optLen hd + d.length ∧
      buf'.take n = packetPre c.address dst t hd d ++ [crc8 (packetPre c.address dst t hd d)] := by
  obtain ⟨t, hd, d, hbd, hs, hf, hl, hp, hn⟩ := (encode_ok_iff c dst e buf buf' n).mp h
  subst hp hn
  refine ⟨t, hd, d, hbd, hs, hf, rfl, ?_⟩
  rw [List.take_left' (packetBytes_length ..), packetBytes_eq]

theorem packetPre_cons (a d : B) (t : MsgType) (h : Option Bytes) (data : Bytes) :
    packetPre a d t h data =
      (d &&& 0x7F#8) <<< 1 :: 0x0F#8 :: BitVec.ofNat 8 (6 + optLen h + data.length) ::
        (((a &&& 0x7F#8) <<< 1) ||| 1#8) :: 0x01#8 :: d :: a :: 0xC8#8 :: (t.toByte &&& 0x7F#8) ::
          (optBytes h ++ data) := rfl

theorem sub_pre (pre : Bytes) (x : B) (a n : Nat) (hn : n = pre.length + 1) :
    Spec.sub (pre ++ [x]) a (n - 1) = pre.drop a := by
  subst hn
  simp [Spec.sub]

/-- bytes 9 .. n-2 of an encoded packet: additional header and data -/
theorem encode_ok_sub9 {c : Ctx} {dst : B} {e : Enc} {buf buf' : Bytes} {n : Nat}
    (h : encode c dst e buf = .ok (buf', n)) :
    ∃ t hd d, e.body c = .ok (t, hd, d) ∧ Spec.sub (buf'.take n) 9 (n - 1) = optBytes hd ++ d := by
  obtain ⟨t, hd, d, hb, -, -, hn, hp⟩ := encode_ok_take h
  refine ⟨t, hd, d, hb, ?_⟩
  rw [hp, sub_pre _ _ _ _ (by rw [packetPre_length, hn]; omega), packetPre_cons]
  rfl

/-- invert `hb : e.body c = .ok (t, hd, d)` after `cases e`: substitutes `t`, `hd`, `d` -/
macro "enc_body_inv " hb:ident : tactic => `(tactic| (
  simp only [Enc.body] at $hb:ident
  repeat' (split at $hb:ident)
  all_goals (first | (cases $hb:ident; done) | skip)
  all_goals (simp only [Out.ok.injEq, Prod.mk.injEq] at $hb:ident; obtain ⟨h1, h2, h3⟩ := $hb:ident; subst h1 h2 h3)))

theorem typeByte_body {c : Ctx} {e : Enc} {t : MsgType} {hd : Option Bytes} {d : Bytes}
    (hb : e.body c = .ok (t, hd, d)) :
    (match Spec.typeByte e with | some tb => (t.toByte &&& 0x7F#8) == tb | none => true) = true := by
  cases e <;> enc_body_inv hb
  all_goals (first | rfl | skip)
  case genSpdm t _ _ => cases t <;> rfl
  all_goals simp [Spec.typeByte, MsgType.toByte, *]

theorem reqBody_body {c : Ctx} {e : Enc} {t : MsgType} {hd : Option Bytes} {d body : Bytes}
    (hq : ∀ a t, e ≠ .reqQueryHop a t) (ha : Spec.argsOk e = true)
    (hr : Spec.reqBody e = some body) (hb : e.body c = .ok (t, hd, d)) : optBytes hd ++ d = body := by
  cases e <;> enc_body_inv hb
  all_goals (unfold Spec.reqBody at hr; simp only [Option.some.injEq] at hr)
  all_goals (first | (cases hr; done) | skip)
  all_goals subst hr
  all_goals simp [optBytes, ctrlHeader_eq, Cmd.toByte]
  case reqRouting es _ =>
    simp [Spec.argsOk] at ha
    exact List.take_of_length_le (by omega)
  case reqQueryHop a t => exact hq a t rfl

theorem respFields_body {c : Ctx} {e : Enc} {t : MsgType} {hd : Option Bytes} {d fields : Bytes} {cmd cc : B}
    (hf : Spec.respFields c.respEid e = some (cmd, cc, fields)) (hb : e.body c = .ok (t, hd, d)) :
    optBytes hd ++ d = 0x00#8 :: cmd :: cc :: fields := by
  cases e <;> enc_body_inv hb
  all_goals (unfold Spec.respFields at hf; simp only [Option.some.injEq, Prod.mk.injEq] at hf)
  all_goals (first | (cases hf; done) | skip)
  all_goals (obtain ⟨h1, h2, h3⟩ := hf; subst h1 h2 h3)
  all_goals simp [optBytes, ctrlHeader_eq, Cmd.toByte]
  all_goals simp_all
  exact BitVec.or_comm _ _

theorem vendorFrame_body {c : Ctx} {e : Enc} {t : MsgType} {hd : Option Bytes} {d fr : Bytes}
    (hv : Spec.vendorFrame e = some fr) (hb : e.body c = .ok (t, hd, d)) :
    (t.toByte &&& 0x7F#8) :: (optBytes hd ++ d) = fr := by
  cases e <;> enc_body_inv hb
  all_goals (unfold Spec.vendorFrame at hv; try simp only [] at hv)
  all_goals (first | (cases hv; done) | skip)
  case vendorDefined.isTrue v msg h0 =>
    rw [if_pos h0] at hv; cases hv
    rw [pciHeader_eq]; rfl
  case vendorDefined.isFalse.isTrue v msg h0 h1 =>
    rw [if_neg h0, if_pos h1] at hv; cases hv
    rw [ianaHeader_eq]; rfl
  case genPci h d => cases hv; rfl
  case genIana h d => cases hv; rfl
  case genSpdm t h d => cases t <;> simp only [] at hv <;> cases hv <;> rfl

end Mctp
