/-
Helper lemmas: inversion of the encoder API (`encode`, `encodeBytes`, `Enc.body`) down to `genPacket`
and the packet normal form; shared by Props/C03-C08 and C16.
-/
import Mctp.Lemmas.Encode
import Mctp.Spec.Api
namespace Mctp

/-- inversion of a successful `genPacket` -/
theorem genPacket_ok_inv {a d : B} {t : MsgType} {h : Option Bytes} {data buf buf' : Bytes} {n : Nat}
    (hg : genPacket a d t h data buf = .ok (buf', n)) :
    1 + optLen h + data.length ≤ 250 ∧ 10 + optLen h + data.length ≤ buf.length ∧
      buf' = packetBytes a d t h data ++ buf.drop (10 + optLen h + data.length) ∧
      n = 10 + optLen h + data.length := by
  by_cases hbig : 250 < 1 + optLen h + data.length
  · rw [genPacket_oversize a d t h data buf hbig] at hg; cases hg
  · by_cases hs : buf.length < 10 + optLen h + data.length
    · have hf : 1 + optLen h + data.length ≤ 250 := by omega
      obtain ⟨p, hp⟩ := genPacket_short a d t h data buf hf hs
      rw [hp] at hg; cases hg
    · have hf : 1 + optLen h + data.length ≤ 250 := by omega
      have hl : 10 + optLen h + data.length ≤ buf.length := by omega
      rw [genPacket_ok a d t h data buf hf hl] at hg
      simp only [Out.ok.injEq, Prod.mk.injEq] at hg
      exact ⟨hf, hl, hg.1.symm, hg.2.symm⟩

theorem genPacket_err_iff (a d : B) (t : MsgType) (h : Option Bytes) (data buf : Bytes) :
    genPacket a d t h data buf = .err () ↔ 250 < 1 + optLen h + data.length := by
  constructor
  · intro hg
    by_cases hbig : 250 < 1 + optLen h + data.length
    · exact hbig
    · by_cases hs : buf.length < 10 + optLen h + data.length
      · have hf : 1 + optLen h + data.length ≤ 250 := by omega
        obtain ⟨p, hp⟩ := genPacket_short a d t h data buf hf hs
        rw [hp] at hg; cases hg
      · have hf : 1 + optLen h + data.length ≤ 250 := by omega
        have hl : 10 + optLen h + data.length ≤ buf.length := by omega
        rw [genPacket_ok a d t h data buf hf hl] at hg
        simp at hg
  · exact genPacket_oversize a d t h data buf

theorem encodeBytes_ok_iff (c : Ctx) (dst : B) (e : Enc) (pkt : Bytes) :
    encodeBytes c dst e = .ok pkt ↔
      ∃ t h d, e.body c = .ok (t, h, d) ∧ e.isStub = false ∧ 1 + optLen h + d.length ≤ 250 ∧
        packetBytes c.address dst t h d = pkt := by
  unfold encodeBytes
  rw [Out.bind_eq_ok]
  constructor
  · rintro ⟨⟨t, h, d⟩, hb, hr⟩
    refine ⟨t, h, d, hb, ?_⟩
    simp only [] at hr
    split at hr
    · cases hr
    · split at hr
      · cases hr
      · have hp := Out.ok.inj hr
        exact ⟨by simpa using ‹¬ e.isStub = true›, by unfold maxBodyLen at *; omega, hp⟩
  · rintro ⟨t, h, d, hb, hs, hf, hp⟩
    subst hp
    refine ⟨(t, h, d), hb, ?_⟩
    simp only [hs]
    rw [if_neg (by simp), if_neg (by unfold maxBodyLen; omega)]

theorem encode_ok_iff (c : Ctx) (dst : B) (e : Enc) (buf buf' : Bytes) (n : Nat) :
    encode c dst e buf = .ok (buf', n) ↔
      ∃ t h d, e.body c = .ok (t, h, d) ∧ e.isStub = false ∧ 1 + optLen h + d.length ≤ 250 ∧
        10 + optLen h + d.length ≤ buf.length ∧
        packetBytes c.address dst t h d ++ buf.drop (10 + optLen h + d.length) = buf' ∧
        n = 10 + optLen h + d.length := by
  unfold encode
  rw [Out.bind_eq_ok]
  constructor
  · rintro ⟨⟨t, h, d⟩, hb, hr⟩
    refine ⟨t, h, d, hb, ?_⟩
    simp only [] at hr
    split at hr
    · split at hr <;> cases hr
    · obtain ⟨h1, h2, h3, h4⟩ := genPacket_ok_inv hr
      exact ⟨by simpa using ‹¬ e.isStub = true›, h1, h2, h3.symm, h4⟩
  · rintro ⟨t, h, d, hb, hs, hf, hl, hp, hn⟩
    subst hp hn
    refine ⟨(t, h, d), hb, ?_⟩
    simp only [hs]
    rw [if_neg (by simp), genPacket_ok _ _ _ _ _ _ hf hl]

theorem encode_of_body {c : Ctx} {dst : B} {e : Enc} {t : MsgType} {h : Option Bytes} {d : Bytes}
    (hb : e.body c = .ok (t, h, d)) (hs : e.isStub = false) (buf : Bytes) :
    encode c dst e buf = genPacket c.address dst t h d buf := by
  unfold encode
  rw [hb, Out.bind_ok]
  simp only [hs]
  rw [if_neg (by simp)]

theorem encode_stub_ne_err {c : Ctx} {dst : B} {e : Enc} (hs : e.isStub = true) (buf : Bytes) :
    encode c dst e buf ≠ .err () := by
  unfold encode
  cases hb : e.body c with
  | ok a =>
    obtain ⟨t, h, d⟩ := a
    rw [Out.bind_ok]
    simp only [hs, if_true]
    split <;> simp
  | err u => cases e <;> simp [Enc.isStub] at hs <;> simp [Enc.body] at hb
  | panic p => simp

theorem body_err_iff (c : Ctx) (e : Enc) : e.body c = .err () ↔ Spec.documentedInvalid e = true := by
  cases e <;> simp [Enc.body, Spec.documentedInvalid]
  case reqSetEid op eid => by_cases h : eid = 255#8 <;> simp [h]
  case reqRouting es => omega
  case vendorDefined v msg => by_cases h0 : v.format = 0#8 <;> by_cases h1 : v.format = 1#8 <;> simp [h0, h1]
  case respVendor cc sel vid => split <;> simp

theorem body_panic (c : Ctx) (e : Enc) (p : Panic) (h : e.body c = .panic p) : Spec.argsOk e = false := by
  cases e <;> simp [Enc.body, Spec.argsOk] at h ⊢
  case reqSetEid op eid => split at h <;> cases h
  case reqRouting es => split at h <;> cases h
  case vendorDefined v msg => split at h; cases h; split at h <;> cases h
  case respMsgTypes cc ts => split at h <;> cases h
  case respVendor cc sel vid => split at h; assumption; cases h

end Mctp
