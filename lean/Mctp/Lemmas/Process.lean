/-
Helper lemmas about `process` and the operation state machine.
-/
import Mctp.Model.Process
import Mctp.Lemmas.Decode
import Mctp.Lemmas.Encode
namespace Mctp

end Mctp
