/-
Helper lemmas about `process` and the operation state machine (umbrella file).
All names live in namespace `Mctp.Proc`.
-/
import Mctp.Lemmas.ProcessDecode
import Mctp.Lemmas.ProcessResp
import Mctp.Lemmas.ProcessPanic
import Mctp.Lemmas.ProcessRoundtrip
namespace Mctp
namespace Proc

end Proc
end Mctp
