/-
Helper lemmas about `process` and the operation state machine.
All names live in namespace `Mctp.Proc`.
-/
import Mctp.Model.Process
import Mctp.Lemmas.Decode
import Mctp.Lemmas.Encode
import Mctp.Spec.State
namespace Mctp
namespace Proc

/-! ### structure of `dispatch` -/

theorem respond_fst (c : Ctx) (dst : B) (e : Enc) (buf : Bytes) : (respond c dst e buf).1 = c := by
  unfold respond; split <;> rfl

/-- the part of the context `dispatch` may change: the two EID cells and the selector cell -/
theorem dispatch_fst (c : Ctx) (cmd src : B) (pay : Nat → B) (buf : Bytes) :
    ∃ r q s, (dispatch c cmd src pay buf).1 = { c with reqEid := r, respEid := q, selector := s } := by
  unfold dispatch
  split
  all_goals (try split)
  all_goals (try split)
  all_goals (try split)
  all_goals (try split)
  all_goals (simp only [respond_fst])
  all_goals exact ⟨_, _, _, rfl⟩

/-! ### normal forms of the decoder in terms of the packet bytes -/

theorem byteAt_drop (p : Bytes) (k i : Nat) : byteAt (p.drop k) i = byteAt p (k + i) := by
  simp [byteAt, List.getD_eq_getElem?_getD]

theorem isRequest_eq_msb (p : Bytes) : Spec.isRequest p = (byteAt p 9).msb := by
  unfold Spec.isRequest
  generalize byteAt p 9 = b
  revert b; apply forall_byte; decide +kernel

/-- `get_mctp_control_packet` on `&packet[9..]`, in terms of the packet -/
theorem getCtrl_nf (p : Bytes) (h10 : 10 ≤ p.length) :
    getCtrl (p.drop 9) (calcPec p) =
      if p.length < 12 then .err (.control, .ctl .len)
      else if Spec.isRequest p then
        (reqDataLen (byteAt p 10)).bind fun n =>
          if byteAt p (p.length - 1) ≠ calcPec p then .err (.control, .ctl .pec)
          else if n > 0 ∧ p.length - 12 ≠ n then .err (.control, .ctl .len)
          else .ok ⟨byteAt p 10, true, 2, p.length - 12⟩
      else if p.length < 13 then .err (.control, .ctl .len)
      else if byteAt p 11 ≠ 0x00#8 then (ccOf (byteAt p 11)).bind fun c => .err (.control, .ctl (.cc c))
      else
        (respDataLen (byteAt p 10)).bind fun n =>
          if byteAt p (p.length - 1) ≠ calcPec p then .err (.control, .ctl .pec)
          else if n > 0 ∧ p.length - 13 ≠ n then .err (.control, .ctl .len)
          else .ok ⟨byteAt p 10, false, 3, p.length - 13⟩ := by
  unfold getCtrl
  rw [ctrlSelect_eq, ctrl_cmd_get]
  simp only [byteAt_drop, List.length_drop, isRequest_eq_msb, Nat.add_zero, Nat.reduceAdd]
  have e1 : (p.length - 9 < 3) = (p.length < 12) := by simp; omega
  have e2 : (p.length - 9 < 4) = (p.length < 13) := by simp; omega
  have e3 : 9 + (p.length - 9 - 1) = p.length - 1 := by omega
  have e4 : p.length - 9 - 1 - 2 = p.length - 12 := by omega
  have e5 : p.length - 9 - 1 - 3 = p.length - 13 := by omega
  simp only [e1, e2, e3]
  by_cases hl : p.length < 12
  · simp [hl]
  · simp only [hl, if_false]
    by_cases hm : (byteAt p 9).msb = true
    · simp only [hm, if_true]
      cases reqDataLen (byteAt p 10) <;> simp [Out.map, Out.bind, e4]
    · have hm' : (byteAt p 9).msb = false := by simpa using hm
      simp only [hm', Bool.false_eq_true, if_false]
      by_cases hl2 : p.length < 13
      · simp [hl2]
      · simp only [hl2, if_false]
        by_cases hcc : byteAt p 11 = 0#8
        · simp only [ne_eq, hcc, not_true_eq_false, if_false]
          cases respDataLen (byteAt p 10) <;> simp [Out.map, Out.bind, e5]
        · simp only [ne_eq, hcc, not_false_eq_true, if_true]
          cases ccOf (byteAt p 11) <;> simp [Out.bind]

theorem srcEid_eq (p : Bytes) (h : 8 ≤ p.length) :
    BitVec.ofNat 8 (TransportHdr.sourceEndpointId.get (slice p 4 8)) = byteAt p 6 := by
  rw [slice_4_8 p h, srcEid_get]

theorem msgTypeOf_control_iff (p : Bytes) : Spec.msgTypeOf p = .control ↔ Spec.isControl p = true := by
  unfold Spec.msgTypeOf Spec.isControl
  generalize Spec.typeBits p = b
  revert b; apply forall_byte; decide +kernel

theorem msgTypeOf_ne_invalid (p : Bytes) (h : Spec.hdrOk p = true) : Spec.msgTypeOf p ≠ .invalid := by
  unfold Spec.hdrOk at h
  unfold Spec.msgTypeOf
  generalize Spec.typeBits p = b at h ⊢
  simp only [Bool.and_eq_true, Bool.or_eq_true, beq_iff_eq] at h
  rcases h.2 with (((h | h) | h) | h) | h <;> subst h <;> decide

theorem vendorArm_eq (p : Bytes) (t : MsgType) (h : p ≠ []) :
    vendorArm p (calcPec p) t =
      if Spec.pecOk p then .ok (t, 9, p.length - 10) else .err (t, .ctl .pec) := by
  unfold vendorArm
  rw [pecOk_eq p h]
  by_cases hb : byteAt p (p.length - 1) = calcPec p
  · simp [hb]; omega
  · simp [hb]

/-- `decode_packet`, second normal form: specification predicates only, control arm kept -/
theorem decode_nf (p : Bytes) :
    decode p =
      if p.length < 10 ∨ Spec.hdrOk p = false then .err (.invalid, .unknown)
      else if Spec.isControl p then
        (getCtrl (p.drop 9) (calcPec p)).bind fun c => .ok (.control, 9 + c.off, c.dataLen)
      else if Spec.pecOk p then .ok (Spec.msgTypeOf p, 9, p.length - 10)
      else .err (Spec.msgTypeOf p, .ctl .pec) := by
  rw [decode_eq]
  by_cases h10 : p.length < 10
  · simp [h10]
  by_cases hh : Spec.hdrOk p = true
  rotate_left
  · simp [hh]
  have hne : p ≠ [] := by intro h; subst h; simp at h10
  simp only [h10, hh, if_false, Bool.not_true, false_or, Bool.true_eq_false, Bool.false_eq_true]
  by_cases hc : Spec.isControl p = true
  · rw [(msgTypeOf_control_iff p).mpr hc]; simp [hc]
  · have h1 := msgTypeOf_ne_invalid p hh
    have h2 := mt (msgTypeOf_control_iff p).mp hc
    simp only [hc, if_false, Bool.false_eq_true]
    cases ht : Spec.msgTypeOf p <;> simp_all [vendorArm_eq]

end Proc
end Mctp
