/-
Helper lemmas about `process` and the operation state machine (umbrella file).
All names live in namespace `Mctp.Proc`.
-/
import Mctp.Lemmas.ProcessDecode
import Mctp.Lemmas.ProcessResp
namespace Mctp
namespace Proc

end Proc
end Mctp
