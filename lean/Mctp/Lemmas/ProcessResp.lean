/-
Helper lemmas about `process`: the response half (what each arm of `dispatch` writes).
-/
import Mctp.Lemmas.ProcessDecode
namespace Mctp
namespace Proc

/-! ### the packet a control response encoder writes -/

/-- a control response before its PEC: nine fixed bytes, `Rq=0 D=0 instance 0`, command, data -/
def respPre (a d cmdb : B) (data : Bytes) : Bytes :=
  (d &&& 0x7F#8) <<< 1 :: 0x0F#8 :: BitVec.ofNat 8 (8 + data.length) :: (((a &&& 0x7F#8) <<< 1) ||| 1#8) ::
    0x01#8 :: d :: a :: 0xC8#8 :: 0x00#8 :: 0x00#8 :: cmdb :: data

def respPkt (a d cmdb : B) (data : Bytes) : Bytes := respPre a d cmdb data ++ [crc8 (respPre a d cmdb data)]

theorem respPkt_eq (a d : B) (cmd : Cmd) (data : Bytes) :
    packetBytes a d .control (some (ctrlHeader false cmd)) data = respPkt a d cmd.toByte data := by
  have h0 : MsgType.control.toByte &&& 0x7F#8 = 0x00#8 := by decide
  rw [packetBytes_eq]
  simp [packetPre, ctrlHeader_eq, optLen, optBytes, respPre, respPkt, h0]

theorem respPre_length (a d cmdb : B) (data : Bytes) : (respPre a d cmdb data).length = 11 + data.length := by
  simp [respPre]; omega

theorem respPkt_length (a d cmdb : B) (data : Bytes) : (respPkt a d cmdb data).length = 12 + data.length := by
  simp [respPkt, respPre_length]; omega

theorem respPkt_take (a d cmdb : B) (data rest : Bytes) :
    (respPkt a d cmdb data ++ rest).take (12 + data.length) = respPkt a d cmdb data :=
  List.take_left' (respPkt_length a d cmdb data)

/-- bytes 9 .. of a response up to its last data byte -/
theorem sub_respPkt (a d cmdb : B) (data rest : Bytes) :
    Spec.sub (respPkt a d cmdb data ++ rest) 9 (11 + data.length) = 0x00#8 :: cmdb :: data := by
  unfold Spec.sub
  have : respPkt a d cmdb data ++ rest = respPre a d cmdb data ++ ([crc8 (respPre a d cmdb data)] ++ rest) := by
    simp [respPkt]
  rw [this, List.take_left' (respPre_length a d cmdb data)]
  simp [respPre]

theorem ctrlHeader_optLen (rq : Bool) (cmd : Cmd) : optLen (some (ctrlHeader rq cmd)) = 2 := by
  simp [optLen, ctrlHeader_eq]

/-- a response encoder call that fits -/
theorem respond_ctrl (c : Ctx) (dst : B) (e : Enc) (buf : Bytes) (cmd : Cmd) (data : Bytes)
    (hb : e.body c = .ok (.control, some (ctrlHeader false cmd), data)) (hs : e.isStub = false)
    (hfit : data.length ≤ 247) (hbuf : 12 + data.length ≤ buf.length) :
    respond c dst e buf =
      (c, .ok (12 + data.length), respPkt c.address dst cmd.toByte data ++ buf.drop (12 + data.length)) := by
  have h2 := ctrlHeader_optLen false cmd
  rw [respond_ok c dst e buf _ _ _ hb hs (by omega) (by omega), respPkt_eq, h2]

/-! ### the successful arms of `dispatch` -/

section arms
variable (c : Ctx) (cmd src : B) (pay : Nat → B) (buf : Bytes)

theorem dispatch_setEid_assign (h : Cmd.ofByte cmd = .setEndpointID) (hop : pay 0 = 0#8 ∨ pay 0 = 1#8)
    (hb : 16 ≤ buf.length) :
    dispatch c cmd src pay buf =
      ({ c with respEid := pay 1, reqEid := pay 1 }, .ok 16,
        respPkt c.address src 0x01#8 [0x00#8, 0x00#8, pay 1, 0x00#8] ++ buf.drop 16) := by
  rw [dispatch_setEid c cmd src pay buf h, if_pos hop]
  exact respond_ctrl _ src _ buf .setEndpointID [0x00#8, 0x00#8, pay 1, 0x00#8] rfl rfl (by simp) (by simpa using hb)

theorem dispatch_setEid_discovered (h : Cmd.ofByte cmd = .setEndpointID) (hop : pay 0 = 3#8)
    (hb : 16 ≤ buf.length) :
    dispatch c cmd src pay buf =
      (c, .ok 16, respPkt c.address src 0x01#8 [0x02#8, 0x00#8, c.respEid, 0x00#8] ++ buf.drop 16) := by
  rw [dispatch_setEid c cmd src pay buf h, if_neg (by rw [hop]; decide), if_neg (by rw [hop]; decide), if_pos hop]
  exact respond_ctrl _ src _ buf .setEndpointID [0x02#8, 0x00#8, c.respEid, 0x00#8] rfl rfl (by simp) (by simpa using hb)

theorem dispatch_getEid_ok (h : Cmd.ofByte cmd = .getEndpointID) (hb : 16 ≤ buf.length) :
    dispatch c cmd src pay buf =
      (c, .ok 16, respPkt c.address src 0x02#8 [0x00#8, c.respEid, 0x00#8, 0x00#8] ++ buf.drop 16) := by
  rw [dispatch_getEid c cmd src pay buf h]
  exact respond_ctrl _ src _ buf .getEndpointID [0x00#8, c.respEid, 0x00#8, 0x00#8] rfl rfl (by simp) (by simpa using hb)

theorem dispatch_uuid_ok (h : Cmd.ofByte cmd = .getEndpointUUID) (hu : c.uuid.length = 16) (hb : 29 ≤ buf.length) :
    dispatch c cmd src pay buf =
      (c, .ok 29, respPkt c.address src 0x03#8 (0x00#8 :: c.uuid) ++ buf.drop 29) := by
  rw [dispatch_uuid c cmd src pay buf h]
  have := respond_ctrl c src (.respUuid 0#8 c.uuid) buf .getEndpointUUID (0x00#8 :: c.uuid) rfl rfl
    (by simp [hu]) (by simp [hu]; omega)
  have e : 12 + (0x00#8 :: c.uuid).length = 29 := by simp [hu]
  rw [e] at this
  exact this

theorem dispatch_version_ok (h : Cmd.ofByte cmd = .getMCTPVersionSupport) (hb : 18 ≤ buf.length) :
    dispatch c cmd src pay buf =
      (c, .ok 18, respPkt c.address src 0x04#8 [0x00#8, 0x01#8, 0xF1#8, 0xF3#8, 0xF1#8, 0x00#8] ++ buf.drop 18) := by
  rw [dispatch_version c cmd src pay buf h]
  exact respond_ctrl _ src _ buf .getMCTPVersionSupport [0x00#8, 0x01#8, 0xF1#8, 0xF3#8, 0xF1#8, 0x00#8] rfl rfl
    (by simp) (by simpa using hb)

theorem dispatch_msgTypes_ok (h : Cmd.ofByte cmd = .getMessageTypeSupport) (ht : c.msgTypes.length ≤ 30)
    (hb : 44 ≤ buf.length) :
    dispatch c cmd src pay buf =
      (c, .ok (14 + c.msgTypes.length),
        respPkt c.address src 0x05#8 (0x00#8 :: BitVec.ofNat 8 c.msgTypes.length :: c.msgTypes) ++
          buf.drop (14 + c.msgTypes.length)) := by
  rw [dispatch_msgTypes c cmd src pay buf h]
  have hbody : (Enc.respMsgTypes 0#8 c.msgTypes).body c =
      .ok (.control, some (ctrlHeader false .getMessageTypeSupport),
        0x00#8 :: BitVec.ofNat 8 c.msgTypes.length :: c.msgTypes) := by
    simp [Enc.body]; omega
  have := respond_ctrl c src _ buf .getMessageTypeSupport _ hbody rfl (by simp; omega) (by simp; omega)
  have e : 12 + (0x00#8 :: BitVec.ofNat 8 c.msgTypes.length :: c.msgTypes).length = 14 + c.msgTypes.length := by
    simp; omega
  rw [e] at this
  exact this

theorem dispatch_vendor_ok (h : Cmd.ofByte cmd = .getVendorDefinedMessageSupport) (hsel : pay 0 ≠ 0xFF#8)
    (v : VendorId) (f : Bytes) (hv : c.vendorIds[(pay 0).toNat]? = some v) (hf : vendorField v = some f)
    (hlen : f.length ≤ 7) (hb : 21 ≤ buf.length) :
    dispatch c cmd src pay buf =
      ({ c with selector := nextSel c (pay 0) }, .ok (14 + f.length),
        respPkt c.address src 0x06#8 (0x00#8 :: nextSel c (pay 0) :: f) ++ buf.drop (14 + f.length)) := by
  rw [dispatch_vendor c cmd src pay buf h, if_neg hsel]
  simp only [hv, hf]
  have hbody : (Enc.respVendor 0#8 (nextSel c (pay 0)) f).body { c with selector := nextSel c (pay 0) } =
      .ok (.control, some (ctrlHeader false .getVendorDefinedMessageSupport), 0x00#8 :: nextSel c (pay 0) :: f) := by
    simp [Enc.body]; omega
  have := respond_ctrl { c with selector := nextSel c (pay 0) } src _ buf .getVendorDefinedMessageSupport _ hbody rfl
    (by simp; omega) (by simp; omega)
  have e : 12 + (0x00#8 :: nextSel c (pay 0) :: f).length = 14 + f.length := by simp; omega
  rw [e] at this
  exact this
end arms

end Proc
end Mctp
