/-
Helper lemmas about `process`: the response half (what each arm of `dispatch` writes).
-/
import Mctp.Lemmas.ProcessDecode
namespace Mctp
namespace Proc

/-! ### the packet a control response encoder writes -/

/-- a control response before its PEC: nine fixed bytes, `Rq=0 D=0 instance 0`, command, data -/
def respPre (a d cmdb : B) (data : Bytes) : Bytes :=
  (d &&& 0x7F#8) <<< 1 :: 0x0F#8 :: BitVec.ofNat 8 (8 + data.length) :: (((a &&& 0x7F#8) <<< 1) ||| 1#8) ::
    0x01#8 :: d :: a :: 0xC8#8 :: 0x00#8 :: 0x00#8 :: cmdb :: data

def respPkt (a d cmdb : B) (data : Bytes) : Bytes := respPre a d cmdb data ++ [crc8 (respPre a d cmdb data)]

theorem respPkt_eq (a d : B) (cmd : Cmd) (data : Bytes) :
    packetBytes a d .control (some (ctrlHeader false cmd)) data = respPkt a d cmd.toByte data := by
  have h0 : MsgType.control.toByte &&& 0x7F#8 = 0x00#8 := by decide
  rw [packetBytes_eq]
  simp [packetPre, ctrlHeader_eq, optLen, optBytes, respPre, respPkt, h0]

theorem respPre_length (a d cmdb : B) (data : Bytes) : (respPre a d cmdb data).length = 11 + data.length := by
  simp [respPre]; omega

theorem respPkt_length (a d cmdb : B) (data : Bytes) : (respPkt a d cmdb data).length = 12 + data.length := by
  simp [respPkt, respPre_length]; omega

theorem respPkt_take (a d cmdb : B) (data rest : Bytes) :
    (respPkt a d cmdb data ++ rest).take (12 + data.length) = respPkt a d cmdb data :=
  List.take_left' (respPkt_length a d cmdb data)

/-- bytes 9 .. of a response up to its last data byte -/
theorem sub_respPkt (a d cmdb : B) (data rest : Bytes) :
    Spec.sub (respPkt a d cmdb data ++ rest) 9 (11 + data.length) = 0x00#8 :: cmdb :: data := by
  unfold Spec.sub
  have : respPkt a d cmdb data ++ rest = respPre a d cmdb data ++ ([crc8 (respPre a d cmdb data)] ++ rest) := by
    simp [respPkt]
  rw [this, List.take_left' (respPre_length a d cmdb data)]
  simp [respPre]

theorem ctrlHeader_optLen (rq : Bool) (cmd : Cmd) : optLen (some (ctrlHeader rq cmd)) = 2 := by
  simp [optLen, ctrlHeader_eq]

/-- a response encoder call that fits -/
theorem respond_ctrl (c : Ctx) (dst : B) (e : Enc) (buf : Bytes) (cmd : Cmd) (data : Bytes)
    (hb : e.body c = .ok (.control, some (ctrlHeader false cmd), data)) (hs : e.isStub = false)
    (hfit : data.length ≤ 247) (hbuf : 12 + data.length ≤ buf.length) :
    respond c dst e buf =
      (c, .ok (12 + data.length), respPkt c.address dst cmd.toByte data ++ buf.drop (12 + data.length)) := by
  have h2 := ctrlHeader_optLen false cmd
  rw [respond_ok c dst e buf _ _ _ hb hs (by omega) (by omega), respPkt_eq, h2]

/-! ### the successful arms of `dispatch` -/

section arms
variable (c : Ctx) (cmd src : B) (pay : Nat → B) (buf : Bytes)

theorem dispatch_setEid_assign (h : Cmd.ofByte cmd = .setEndpointID) (hop : pay 0 = 0#8 ∨ pay 0 = 1#8)
    (hb : 16 ≤ buf.length) :
    dispatch c cmd src pay buf =
      ({ c with respEid := pay 1, reqEid := pay 1 }, .ok 16,
        respPkt c.address src 0x01#8 [0x00#8, 0x00#8, pay 1, 0x00#8] ++ buf.drop 16) := by
  rw [dispatch_setEid c cmd src pay buf h, if_pos hop]
  exact respond_ctrl _ src _ buf .setEndpointID [0x00#8, 0x00#8, pay 1, 0x00#8] rfl rfl (by simp) (by simpa using hb)

theorem dispatch_setEid_discovered (h : Cmd.ofByte cmd = .setEndpointID) (hop : pay 0 = 3#8)
    (hb : 16 ≤ buf.length) :
    dispatch c cmd src pay buf =
      (c, .ok 16, respPkt c.address src 0x01#8 [0x02#8, 0x00#8, c.respEid, 0x00#8] ++ buf.drop 16) := by
  rw [dispatch_setEid c cmd src pay buf h, if_neg (by rw [hop]; decide), if_neg (by rw [hop]; decide), if_pos hop]
  exact respond_ctrl _ src _ buf .setEndpointID [0x02#8, 0x00#8, c.respEid, 0x00#8] rfl rfl (by simp) (by simpa using hb)

theorem dispatch_getEid_ok (h : Cmd.ofByte cmd = .getEndpointID) (hb : 16 ≤ buf.length) :
    dispatch c cmd src pay buf =
      (c, .ok 16, respPkt c.address src 0x02#8 [0x00#8, c.respEid, 0x00#8, 0x00#8] ++ buf.drop 16) := by
  rw [dispatch_getEid c cmd src pay buf h]
  exact respond_ctrl _ src _ buf .getEndpointID [0x00#8, c.respEid, 0x00#8, 0x00#8] rfl rfl (by simp) (by simpa using hb)

theorem dispatch_uuid_ok (h : Cmd.ofByte cmd = .getEndpointUUID) (hu : c.uuid.length = 16) (hb : 29 ≤ buf.length) :
    dispatch c cmd src pay buf =
      (c, .ok 29, respPkt c.address src 0x03#8 (0x00#8 :: c.uuid) ++ buf.drop 29) := by
  rw [dispatch_uuid c cmd src pay buf h]
  have := respond_ctrl c src (.respUuid 0#8 c.uuid) buf .getEndpointUUID (0x00#8 :: c.uuid) rfl rfl
    (by simp [hu]) (by simp [hu]; omega)
  have e : 12 + (0x00#8 :: c.uuid).length = 29 := by simp [hu]
  rw [e] at this
  exact this

theorem dispatch_version_ok (h : Cmd.ofByte cmd = .getMCTPVersionSupport) (hb : 18 ≤ buf.length) :
    dispatch c cmd src pay buf =
      (c, .ok 18, respPkt c.address src 0x04#8 [0x00#8, 0x01#8, 0xF1#8, 0xF3#8, 0xF1#8, 0x00#8] ++ buf.drop 18) := by
  rw [dispatch_version c cmd src pay buf h]
  exact respond_ctrl _ src _ buf .getMCTPVersionSupport [0x00#8, 0x01#8, 0xF1#8, 0xF3#8, 0xF1#8, 0x00#8] rfl rfl
    (by simp) (by simpa using hb)

theorem dispatch_msgTypes_ok (h : Cmd.ofByte cmd = .getMessageTypeSupport) (ht : c.msgTypes.length ≤ 30)
    (hb : 44 ≤ buf.length) :
    dispatch c cmd src pay buf =
      (c, .ok (14 + c.msgTypes.length),
        respPkt c.address src 0x05#8 (0x00#8 :: BitVec.ofNat 8 c.msgTypes.length :: c.msgTypes) ++
          buf.drop (14 + c.msgTypes.length)) := by
  rw [dispatch_msgTypes c cmd src pay buf h]
  have hbody : (Enc.respMsgTypes 0#8 c.msgTypes).body c =
      .ok (.control, some (ctrlHeader false .getMessageTypeSupport),
        0x00#8 :: BitVec.ofNat 8 c.msgTypes.length :: c.msgTypes) := by
    simp [Enc.body]; omega
  have := respond_ctrl c src _ buf .getMessageTypeSupport _ hbody rfl (by simp; omega) (by simp; omega)
  have e : 12 + (0x00#8 :: BitVec.ofNat 8 c.msgTypes.length :: c.msgTypes).length = 14 + c.msgTypes.length := by
    simp; omega
  rw [e] at this
  exact this

theorem dispatch_vendor_ok (h : Cmd.ofByte cmd = .getVendorDefinedMessageSupport) (hsel : pay 0 ≠ 0xFF#8)
    (v : VendorId) (f : Bytes) (hv : c.vendorIds[(pay 0).toNat]? = some v) (hf : vendorField v = some f)
    (hlen : f.length ≤ 7) (hb : 21 ≤ buf.length) :
    dispatch c cmd src pay buf =
      ({ c with selector := nextSel c (pay 0) }, .ok (14 + f.length),
        respPkt c.address src 0x06#8 (0x00#8 :: nextSel c (pay 0) :: f) ++ buf.drop (14 + f.length)) := by
  rw [dispatch_vendor c cmd src pay buf h, if_neg hsel]
  simp only [hv, hf]
  have hbody : (Enc.respVendor 0#8 (nextSel c (pay 0)) f).body { c with selector := nextSel c (pay 0) } =
      .ok (.control, some (ctrlHeader false .getVendorDefinedMessageSupport), 0x00#8 :: nextSel c (pay 0) :: f) := by
    simp [Enc.body]; omega
  have := respond_ctrl { c with selector := nextSel c (pay 0) } src _ buf .getVendorDefinedMessageSupport _ hbody rfl
    (by simp; omega) (by simp; omega)
  have e : 12 + (0x00#8 :: nextSel c (pay 0) :: f).length = 14 + f.length := by simp; omega
  rw [e] at this
  exact this
end arms

/-! ### every outcome of `dispatch` -/

/-- a response encoder call either panics leaving the buffer alone or writes the response packet -/
theorem respond_ctrl_cases (c : Ctx) (dst : B) (e : Enc) (buf : Bytes) (cmd : Cmd) (data : Bytes)
    (hbody : ∀ t hd d, e.body c = .ok (t, hd, d) → t = .control ∧ hd = some (ctrlHeader false cmd) ∧ d = data) :
    (∃ k, respond c dst e buf = (c, .panic k, buf)) ∨
    (respond c dst e buf =
        (c, .ok (12 + data.length), respPkt c.address dst cmd.toByte data ++ buf.drop (12 + data.length)) ∧
      12 + data.length ≤ buf.length ∧ data.length ≤ 247) := by
  rcases respond_cases c dst e buf with ⟨n, buf', hr, he⟩ | h
  · right
    obtain ⟨t, hd, d, hb, _, hfit, hn, hle, hbuf⟩ := encode_ok_inv c dst e buf buf' n he
    obtain ⟨rfl, rfl, rfl⟩ := hbody t hd d hb
    rw [ctrlHeader_optLen] at hn hfit
    have hn' : n = 12 + d.length := by omega
    subst hn'
    rw [respPkt_eq] at hbuf
    subst hbuf
    exact ⟨hr, hle, by omega⟩
  · exact .inl h

/-- `dispatch` either panics leaving the buffer alone, or writes one control response whose first
data byte (the completion code) is Success or Invalid-Data -/
theorem dispatch_cases (c : Ctx) (cmd src : B) (pay : Nat → B) (buf : Bytes) :
    (∃ c' k, dispatch c cmd src pay buf = (c', .panic k, buf)) ∨
    (∃ c' cc rest, (cc = 0x00#8 ∨ cc = 0x02#8) ∧ 1 ≤ cmd.toNat ∧ cmd.toNat ≤ 6 ∧
      (13 + rest.length ≤ buf.length ∧ rest.length ≤ 246) ∧
      dispatch c cmd src pay buf =
        (c', .ok (13 + rest.length),
          respPkt c.address src cmd (cc :: rest) ++ buf.drop (13 + rest.length))) := by
  have key : ∀ (c' : Ctx) (e : Enc) (cm : Cmd) (cc : B) (rest : Bytes), c'.address = c.address → cm.toByte = cmd →
      (cc = 0x00#8 ∨ cc = 0x02#8) → 1 ≤ cmd.toNat → cmd.toNat ≤ 6 →
      (∀ t hd d, e.body c' = .ok (t, hd, d) → t = .control ∧ hd = some (ctrlHeader false cm) ∧ d = cc :: rest) →
      (∃ c'' k, respond c' src e buf = (c'', .panic k, buf)) ∨
      (∃ c'' cc rest, (cc = 0x00#8 ∨ cc = 0x02#8) ∧ 1 ≤ cmd.toNat ∧ cmd.toNat ≤ 6 ∧
        (13 + rest.length ≤ buf.length ∧ rest.length ≤ 246) ∧
        respond c' src e buf =
          (c'', .ok (13 + rest.length),
            respPkt c.address src cmd (cc :: rest) ++ buf.drop (13 + rest.length))) := by
    intro c' e cm cc rest ha hcm hcc h1 h6 hbody
    rcases respond_ctrl_cases c' src e buf cm (cc :: rest) hbody with ⟨k, hk⟩ | ⟨hr, hle, h247⟩
    · exact .inl ⟨_, _, hk⟩
    · right
      have e1 : 12 + (cc :: rest).length = 13 + rest.length := by simp; omega
      have e2 : (cc :: rest).length = rest.length + 1 := by simp
      rw [e1, ha, hcm] at hr
      exact ⟨c', cc, rest, hcc, h1, h6, ⟨by omega, by omega⟩, hr⟩
  rcases cmdCase cmd with ⟨h, e⟩ | ⟨h, e⟩ | ⟨h, e⟩ | ⟨h, e⟩ | ⟨h, e⟩ | ⟨h, e⟩ | ⟨h, e⟩ | ⟨h, hne⟩
  · rw [dispatch_reserved c cmd src pay buf h]; exact .inl ⟨_, _, rfl⟩
  · rw [dispatch_setEid c cmd src pay buf h]
    subst e
    split
    · exact key _ _ .setEndpointID 0x00#8 [0x00#8, pay 1, 0x00#8] rfl rfl (.inl rfl) (by decide) (by decide)
        (by intro t hd d hb; simp [Enc.body] at hb; simp [hb])
    · split
      · exact .inl ⟨_, _, rfl⟩
      · split
        · exact key _ _ .setEndpointID 0x02#8 [0x00#8, c.respEid, 0x00#8] rfl rfl (.inr rfl) (by decide) (by decide)
            (by intro t hd d hb; simp [Enc.body] at hb; simp [hb])
        · exact .inl ⟨_, _, rfl⟩
  · rw [dispatch_getEid c cmd src pay buf h]
    subst e
    exact key _ _ .getEndpointID 0x00#8 [c.respEid, 0x00#8, 0x00#8] rfl rfl (.inl rfl) (by decide) (by decide)
      (by intro t hd d hb; simp [Enc.body] at hb; simp [hb])
  · rw [dispatch_uuid c cmd src pay buf h]
    subst e
    exact key _ _ .getEndpointUUID 0x00#8 c.uuid rfl rfl (.inl rfl) (by decide) (by decide)
      (by intro t hd d hb; simp [Enc.body] at hb; simp [hb])
  · rw [dispatch_version c cmd src pay buf h]
    subst e
    exact key _ _ .getMCTPVersionSupport 0x00#8 [0x01#8, 0xF1#8, 0xF3#8, 0xF1#8, 0x00#8] rfl rfl (.inl rfl)
      (by decide) (by decide) (by intro t hd d hb; simp [Enc.body] at hb; simp [hb])
  · rw [dispatch_msgTypes c cmd src pay buf h]
    subst e
    exact key _ _ .getMessageTypeSupport 0x00#8 (BitVec.ofNat 8 c.msgTypes.length :: c.msgTypes) rfl rfl (.inl rfl)
      (by decide) (by decide) (by intro t hd d hb; simp only [Enc.body] at hb; split at hb <;> simp at hb; simp [hb])
  · rw [dispatch_vendor c cmd src pay buf h]
    subst e
    split
    · exact .inl ⟨_, _, rfl⟩
    · split
      · exact .inl ⟨_, _, rfl⟩
      · split
        · rename_i f _
          exact key _ _ .getVendorDefinedMessageSupport 0x00#8 (nextSel c (pay 0) :: f) rfl rfl (.inl rfl)
            (by decide) (by decide)
            (by intro t hd d hb; simp only [Enc.body] at hb; split at hb <;> simp at hb; simp [hb])
        · exact .inl ⟨_, _, rfl⟩
  · rw [dispatch_other c cmd src pay buf hne]; exact .inl ⟨_, _, rfl⟩

/-! ### every outcome of `process` -/

/-- the three shapes of a `process_packet` outcome -/
theorem process_cases (c : Ctx) (p buf : Bytes) :
    -- no dispatch: the decoder's outcome, nothing written, context unchanged
    ((∀ d, decode p = .ok d → (Spec.isControl p && Spec.isRequest p) = false) ∧
      process c p buf = (c, (decode p).map (fun d => (d, none)), buf)) ∨
    -- dispatch panics: nothing written
    (Spec.isAcceptedRequest p = true ∧ Spec.reqUnimpl (byteAt p 10) = false ∧
      decode p = .ok (.control, 11, p.length - 12) ∧
      ∃ c' k, dispatch c (byteAt p 10) (byteAt p 6) (fun i => byteAt p (11 + i)) buf = (c', .panic k, buf) ∧
        process c p buf = (c', .panic k, buf)) ∨
    -- dispatch answers
    (Spec.isAcceptedRequest p = true ∧ Spec.reqUnimpl (byteAt p 10) = false ∧
      decode p = .ok (.control, 11, p.length - 12) ∧
      ∃ c' cc rest, (cc = 0x00#8 ∨ cc = 0x02#8) ∧ 1 ≤ (byteAt p 10).toNat ∧ (byteAt p 10).toNat ≤ 6 ∧
        (13 + rest.length ≤ buf.length ∧ rest.length ≤ 246) ∧
        dispatch c (byteAt p 10) (byteAt p 6) (fun i => byteAt p (11 + i)) buf =
          (c', .ok (13 + rest.length),
            respPkt c.address (byteAt p 6) (byteAt p 10) (cc :: rest) ++ buf.drop (13 + rest.length)) ∧
        process c p buf =
          (c', .ok ((.control, 11, p.length - 12), some (13 + rest.length)),
            respPkt c.address (byteAt p 6) (byteAt p 10) (cc :: rest) ++ buf.drop (13 + rest.length))) := by
  by_cases hq : ∃ d, decode p = .ok d ∧ (Spec.isControl p && Spec.isRequest p) = true
  · obtain ⟨d, hd, hcr⟩ := hq
    right
    have hc : Spec.isControl p = true := by simp at hcr; exact hcr.1
    have hr : Spec.isRequest p = true := by simp at hcr; exact hcr.2
    obtain ⟨ha, hu, rfl⟩ := decode_ok_request p d hd hc hr
    rw [process_accepted c p buf ha hu]
    rcases dispatch_cases c (byteAt p 10) (byteAt p 6) (fun i => byteAt p (11 + i)) buf with
      ⟨c', k, hk⟩ | ⟨c', cc, rest, hcc, h1, h6, hle, hk⟩
    · left
      refine ⟨ha, hu, hd, c', k, hk, ?_⟩
      rw [hk]; rfl
    · right
      refine ⟨ha, hu, hd, c', cc, rest, hcc, h1, h6, hle, hk, ?_⟩
      rw [hk]; rfl
  · left
    have hq' : ∀ d, decode p = .ok d → (Spec.isControl p && Spec.isRequest p) = false := by
      intro d hd
      cases hx : (Spec.isControl p && Spec.isRequest p)
      · rfl
      · exact absurd ⟨d, hd, hx⟩ hq
    refine ⟨hq', ?_⟩
    rw [process_eq_decode]
    cases hd : decode p with
    | err e => rfl
    | panic k => rfl
    | ok d => simp [hq' d hd, Out.map]

/-- `process` changes at most the two EID cells and the selector cell -/
theorem process_fst (c : Ctx) (p buf : Bytes) :
    ∃ r q s, (process c p buf).1 = { c with reqEid := r, respEid := q, selector := s } := by
  rcases process_cases c p buf with ⟨_, h⟩ | ⟨_, _, _, c', k, hd, h⟩ | ⟨_, _, _, c', cc, rest, _, _, _, _, hd, h⟩
  · rw [h]; exact ⟨_, _, _, rfl⟩
  · obtain ⟨r, q, s, hf⟩ := dispatch_fst c (byteAt p 10) (byteAt p 6) (fun i => byteAt p (11 + i)) buf
    rw [hd] at hf; rw [h]; exact ⟨r, q, s, hf⟩
  · obtain ⟨r, q, s, hf⟩ := dispatch_fst c (byteAt p 10) (byteAt p 6) (fun i => byteAt p (11 + i)) buf
    rw [hd] at hf; rw [h]; exact ⟨r, q, s, hf⟩

theorem stepOp_process (c : Ctx) (p buf : Bytes) :
    stepOp c (.process p buf) = ((process c p buf).1, .processed (process c p buf).2.1 (process c p buf).2.2) := rfl

theorem runOps_cons (c : Ctx) (op : Op) (ops : List Op) :
    runOps c (op :: ops) = ((runOps (stepOp c op).1 ops).1, (stepOp c op).2 :: (runOps (stepOp c op).1 ops).2) := rfl

/-- an accepted request whose `dispatch` answers -/
theorem process_of_dispatch (c : Ctx) (p buf : Bytes) (ha : Spec.isAcceptedRequest p = true)
    (hu : Spec.reqUnimpl (byteAt p 10) = false) (c' : Ctx) (r : Out DErr Nat) (buf' : Bytes)
    (hd : dispatch c (byteAt p 10) (byteAt p 6) (fun i => byteAt p (11 + i)) buf = (c', r, buf')) :
    process c p buf = (c', r.map (fun n => ((MsgType.control, 11, p.length - 12), some n)), buf') := by
  rw [process_accepted c p buf ha hu, hd]

/-! ### the EID cells -/

/-- only the Set/Force arm of Set Endpoint ID moves the EID cells, and it moves both -/
theorem dispatch_eids (c : Ctx) (cmd src : B) (pay : Nat → B) (buf : Bytes) :
    ((dispatch c cmd src pay buf).1.reqEid, (dispatch c cmd src pay buf).1.respEid) =
      if cmd = 0x01#8 ∧ (pay 0 = 0#8 ∨ pay 0 = 1#8) then (pay 1, pay 1) else (c.reqEid, c.respEid) := by
  rcases cmdCase cmd with ⟨h, e⟩ | ⟨h, e⟩ | ⟨h, e⟩ | ⟨h, e⟩ | ⟨h, e⟩ | ⟨h, e⟩ | ⟨h, e⟩ | ⟨h, hne⟩
  · rw [dispatch_reserved c cmd src pay buf h]; subst e; simp
  · rw [dispatch_setEid c cmd src pay buf h]; subst e
    by_cases hop : pay 0 = 0#8 ∨ pay 0 = 1#8
    · simp only [hop, if_true, respond_fst, true_and]
    · simp only [hop, if_false, and_false]
      split
      · rfl
      · split
        · simp only [respond_fst]
        · rfl
  · rw [dispatch_getEid c cmd src pay buf h]; subst e; simp [respond_fst]
  · rw [dispatch_uuid c cmd src pay buf h]; subst e; simp [respond_fst]
  · rw [dispatch_version c cmd src pay buf h]; subst e; simp [respond_fst]
  · rw [dispatch_msgTypes c cmd src pay buf h]; subst e; simp [respond_fst]
  · rw [dispatch_vendor c cmd src pay buf h]; subst e
    have : ¬ ((6#8 : B) = 1#8 ∧ (pay 0 = 0#8 ∨ pay 0 = 1#8)) := by
      intro h; exact absurd h.1 (by decide)
    simp only [this, if_false]
    split
    · rfl
    · split
      · rfl
      · split
        · simp only [respond_fst]
        · rfl
  · rw [dispatch_other c cmd src pay buf hne]
    have : cmd ≠ 0x01#8 := by intro h1; subst h1; simp at h
    simp [this]

theorem assigns_eq (p : Bytes) (ha : Spec.isAcceptedRequest p = true) :
    Spec.assigns p =
      if byteAt p 10 = 0x01#8 ∧ (byteAt p 11 = 0#8 ∨ byteAt p 11 = 1#8) then some (byteAt p 12) else none := by
  unfold Spec.assigns Spec.cmdOf
  simp [ha]

theorem assigns_some (p : Bytes) (e : B) (h : Spec.assigns p = some e) :
    Spec.isAcceptedRequest p = true ∧ byteAt p 10 = 0x01#8 ∧ (byteAt p 11 = 0#8 ∨ byteAt p 11 = 1#8) ∧
      e = byteAt p 12 := by
  unfold Spec.assigns Spec.cmdOf at h
  split at h
  · rename_i hc
    simp at hc h
    exact ⟨hc.1.1, hc.1.2, hc.2, h.symm⟩
  · simp at h

/-- C13: the EID cells after `process` -/
theorem process_eids (c : Ctx) (p buf : Bytes) :
    ((process c p buf).1.reqEid, (process c p buf).1.respEid) =
      match Spec.assigns p with
      | some e => (e, e)
      | none => (c.reqEid, c.respEid) := by
  rcases process_cases c p buf with ⟨hn, h⟩ | ⟨ha, _, _, c', k, hd, h⟩ | ⟨ha, _, _, c', cc, rest, _, _, _, _, hd, h⟩
  · have : Spec.assigns p = none := by
      cases hs : Spec.assigns p with
      | none => rfl
      | some e =>
        exfalso
        obtain ⟨ha, hcmd, _, _⟩ := assigns_some p e hs
        have hu : Spec.reqUnimpl (byteAt p 10) = false := by rw [hcmd]; decide
        have := hn _ (decode_accepted p ha hu)
        obtain ⟨_, _, hc, hr, _, _⟩ := (acceptedRequest_iff p).mp ha
        simp [hc, hr] at this
    rw [this, h]
  · have he := dispatch_eids c (byteAt p 10) (byteAt p 6) (fun i => byteAt p (11 + i)) buf
    rw [hd] at he
    rw [h, assigns_eq p ha]
    simp only [Nat.add_zero, Nat.reduceAdd] at he
    rw [he]; split <;> rfl
  · have he := dispatch_eids c (byteAt p 10) (byteAt p 6) (fun i => byteAt p (11 + i)) buf
    rw [hd] at he
    rw [h, assigns_eq p ha]
    simp only [Nat.add_zero, Nat.reduceAdd] at he
    rw [he]; split <;> rfl

end Proc
end Mctp
