/-
Helper lemmas about `process`: the receive half (decoder normal forms, `process` as decode + dispatch).
All names live in namespace `Mctp.Proc`.
-/
import Mctp.Model.Process
import Mctp.Lemmas.Decode
import Mctp.Lemmas.Encode
import Mctp.Spec.State
namespace Mctp
namespace Proc

/-! ### structure of `dispatch` -/

theorem respond_fst (c : Ctx) (dst : B) (e : Enc) (buf : Bytes) : (respond c dst e buf).1 = c := by
  unfold respond; split <;> rfl

/-- the part of the context `dispatch` may change: the two EID cells and the selector cell -/
theorem dispatch_fst (c : Ctx) (cmd src : B) (pay : Nat → B) (buf : Bytes) :
    ∃ r q s, (dispatch c cmd src pay buf).1 = { c with reqEid := r, respEid := q, selector := s } := by
  unfold dispatch
  split
  all_goals (try split)
  all_goals (try split)
  all_goals (try split)
  all_goals (try split)
  all_goals (simp only [respond_fst])
  all_goals exact ⟨_, _, _, rfl⟩

/-! ### normal forms of the decoder in terms of the packet bytes -/

theorem byteAt_drop (p : Bytes) (k i : Nat) : byteAt (p.drop k) i = byteAt p (k + i) := by
  simp [byteAt, List.getD_eq_getElem?_getD]

theorem isRequest_eq_msb (p : Bytes) : Spec.isRequest p = (byteAt p 9).msb := by
  unfold Spec.isRequest
  generalize byteAt p 9 = b
  revert b; apply forall_byte; decide +kernel

/-- `get_mctp_control_packet` on `&packet[9..]`, in terms of the packet -/
theorem getCtrl_nf (p : Bytes) (h10 : 10 ≤ p.length) :
    getCtrl (p.drop 9) (calcPec p) =
      if p.length < 12 then .err (.control, .ctl .len)
      else if Spec.isRequest p then
        (reqDataLen (byteAt p 10)).bind fun n =>
          if byteAt p (p.length - 1) ≠ calcPec p then .err (.control, .ctl .pec)
          else if n > 0 ∧ p.length - 12 ≠ n then .err (.control, .ctl .len)
          else .ok ⟨byteAt p 10, true, 2, p.length - 12⟩
      else if p.length < 13 then .err (.control, .ctl .len)
      else if byteAt p 11 ≠ 0x00#8 then (ccOf (byteAt p 11)).bind fun c => .err (.control, .ctl (.cc c))
      else
        (respDataLen (byteAt p 10)).bind fun n =>
          if byteAt p (p.length - 1) ≠ calcPec p then .err (.control, .ctl .pec)
          else if n > 0 ∧ p.length - 13 ≠ n then .err (.control, .ctl .len)
          else .ok ⟨byteAt p 10, false, 3, p.length - 13⟩ := by
  unfold getCtrl
  rw [ctrlSelect_eq, ctrl_cmd_get]
  simp only [byteAt_drop, List.length_drop, isRequest_eq_msb, Nat.add_zero, Nat.reduceAdd]
  have e1 : (p.length - 9 < 3) = (p.length < 12) := by simp; omega
  have e2 : (p.length - 9 < 4) = (p.length < 13) := by simp; omega
  have e3 : 9 + (p.length - 9 - 1) = p.length - 1 := by omega
  have e4 : p.length - 9 - 1 - 2 = p.length - 12 := by omega
  have e5 : p.length - 9 - 1 - 3 = p.length - 13 := by omega
  simp only [e1, e2, e3]
  by_cases hl : p.length < 12
  · simp [hl]
  · simp only [hl, if_false]
    by_cases hm : (byteAt p 9).msb = true
    · simp only [hm, if_true]
      cases reqDataLen (byteAt p 10) <;> simp [Out.map, Out.bind, e4]
    · have hm' : (byteAt p 9).msb = false := by simpa using hm
      simp only [hm', Bool.false_eq_true, if_false]
      by_cases hl2 : p.length < 13
      · simp [hl2]
      · simp only [hl2, if_false]
        by_cases hcc : byteAt p 11 = 0#8
        · simp only [ne_eq, hcc, not_true_eq_false, if_false]
          cases respDataLen (byteAt p 10) <;> simp [Out.map, Out.bind, e5]
        · simp only [ne_eq, hcc, not_false_eq_true, if_true]
          cases ccOf (byteAt p 11) <;> simp [Out.bind]

theorem srcEid_eq (p : Bytes) (h : 8 ≤ p.length) :
    BitVec.ofNat 8 (TransportHdr.sourceEndpointId.get (slice p 4 8)) = byteAt p 6 := by
  rw [slice_4_8 p h, srcEid_get]

theorem msgTypeOf_control_iff (p : Bytes) : Spec.msgTypeOf p = .control ↔ Spec.isControl p = true := by
  unfold Spec.msgTypeOf Spec.isControl
  generalize Spec.typeBits p = b
  revert b; apply forall_byte; decide +kernel

theorem msgTypeOf_ne_invalid (p : Bytes) (h : Spec.hdrOk p = true) : Spec.msgTypeOf p ≠ .invalid := by
  unfold Spec.hdrOk at h
  unfold Spec.msgTypeOf
  generalize Spec.typeBits p = b at h ⊢
  simp only [Bool.and_eq_true, Bool.or_eq_true, beq_iff_eq] at h
  rcases h.2 with (((h | h) | h) | h) | h <;> subst h <;> decide

theorem vendorArm_eq (p : Bytes) (t : MsgType) (h : p ≠ []) :
    vendorArm p (calcPec p) t =
      if Spec.pecOk p then .ok (t, 9, p.length - 10) else .err (t, .ctl .pec) := by
  unfold vendorArm
  rw [pecOk_eq p h]
  by_cases hb : byteAt p (p.length - 1) = calcPec p
  · simp [hb]; omega
  · simp [hb]

/-- `decode_packet`, second normal form: specification predicates only, control arm kept -/
theorem decode_nf (p : Bytes) :
    decode p =
      if p.length < 10 ∨ Spec.hdrOk p = false then .err (.invalid, .unknown)
      else if Spec.isControl p then
        (getCtrl (p.drop 9) (calcPec p)).bind fun c => .ok (.control, 9 + c.off, c.dataLen)
      else if Spec.pecOk p then .ok (Spec.msgTypeOf p, 9, p.length - 10)
      else .err (Spec.msgTypeOf p, .ctl .pec) := by
  rw [decode_eq]
  by_cases h10 : p.length < 10
  · simp [h10]
  by_cases hh : Spec.hdrOk p = true
  rotate_left
  · simp [hh]
  have hne : p ≠ [] := by intro h; subst h; simp at h10
  simp only [h10, hh, if_false, Bool.not_true, false_or, Bool.true_eq_false, Bool.false_eq_true]
  by_cases hc : Spec.isControl p = true
  · rw [(msgTypeOf_control_iff p).mpr hc]; simp [hc]
  · have h1 := msgTypeOf_ne_invalid p hh
    have h2 := mt (msgTypeOf_control_iff p).mp hc
    simp only [hc, if_false, Bool.false_eq_true]
    cases ht : Spec.msgTypeOf p <;> simp_all [vendorArm_eq]

/-! ### normal form of `process` -/

theorem process_nf (c : Ctx) (p buf : Bytes) :
    process c p buf =
      if p.length < 10 ∨ Spec.hdrOk p = false then (c, .err (.invalid, .unknown), buf)
      else if Spec.isControl p then
        match getCtrl (p.drop 9) (calcPec p) with
        | .err e => (c, .err e, buf)
        | .panic k => (c, .panic k, buf)
        | .ok ctl =>
          if ctl.isReq then
            let r := dispatch c ctl.cmd (byteAt p 6) (fun i => byteAt p (9 + ctl.off + i)) buf
            (r.1, r.2.1.map (fun n => ((MsgType.control, 9 + ctl.off, ctl.dataLen), some n)), r.2.2)
          else (c, .ok ((.control, 9 + ctl.off, ctl.dataLen), none), buf)
      else if Spec.pecOk p then (c, .ok ((Spec.msgTypeOf p, 9, p.length - 10), none), buf)
      else (c, .err (Spec.msgTypeOf p, .ctl .pec), buf) := by
  unfold process
  rw [decode_nf]
  by_cases h1 : p.length < 10 ∨ Spec.hdrOk p = false
  · simp only [h1, if_true]
  simp only [h1, if_false]
  have h10 : 10 ≤ p.length := by omega
  have hh : Spec.hdrOk p = true := by
    cases h : Spec.hdrOk p <;> simp_all
  by_cases hc : Spec.isControl p = true
  · simp only [hc, if_true]
    have hg : getHeaders p = .ok () := by
      rw [getHeaders_eq]; simp [hh]; omega
    cases hgc : getCtrl (p.drop 9) (calcPec p) with
    | err e => simp
    | panic k => simp
    | ok ctl =>
      simp only [Out.bind_ok, hg, srcEid_eq p (by omega)]
      by_cases hr : ctl.isReq = true
      · simp only [hr, if_true]
        rcases hd : dispatch c ctl.cmd (byteAt p 6) (fun i => byteAt p (9 + ctl.off + i)) buf with ⟨c', r, b'⟩
        cases r <;> simp [Out.map]
      · simp [hr]
  · simp only [hc, if_false, Bool.false_eq_true]
    by_cases hp : Spec.pecOk p = true
    · simp only [hp, if_true]
      have h1 := msgTypeOf_ne_invalid p hh
      have h2 := mt (msgTypeOf_control_iff p).mp hc
      cases ht : Spec.msgTypeOf p <;> simp_all
    · simp [hp]

/-! ### encoder calls -/

theorem encode_of_body (c : Ctx) (dst : B) (e : Enc) (buf : Bytes) (t : MsgType) (h : Option Bytes) (d : Bytes)
    (hb : e.body c = .ok (t, h, d)) (hs : e.isStub = false) :
    encode c dst e buf = genPacket c.address dst t h d buf := by
  simp [encode, hb, hs]

/-- a successful encoder call: body, size, and the resulting buffer -/
theorem encode_ok_inv (c : Ctx) (dst : B) (e : Enc) (buf buf' : Bytes) (n : Nat)
    (h : encode c dst e buf = .ok (buf', n)) :
    ∃ t hd d, e.body c = .ok (t, hd, d) ∧ e.isStub = false ∧ 1 + optLen hd + d.length ≤ 250 ∧
      n = 10 + optLen hd + d.length ∧ n ≤ buf.length ∧
      buf' = packetBytes c.address dst t hd d ++ buf.drop n := by
  unfold encode at h
  rcases Out.bind_eq_ok.mp h with ⟨⟨t, hd, d⟩, hb, h2⟩
  refine ⟨t, hd, d, hb, ?_⟩
  simp only at h2
  by_cases hs : e.isStub = true
  · simp only [hs, if_true] at h2
    split at h2 <;> simp at h2
  have hs' : e.isStub = false := by simpa using hs
  simp only [hs', Bool.false_eq_true, if_false] at h2
  refine ⟨hs', ?_⟩
  by_cases hfit : 1 + optLen hd + d.length ≤ 250
  · by_cases hbuf : 10 + optLen hd + d.length ≤ buf.length
    · rw [genPacket_ok _ _ _ _ _ _ hfit hbuf] at h2
      simp only [Out.ok.injEq, Prod.mk.injEq] at h2
      obtain ⟨rfl, rfl⟩ := h2
      exact ⟨hfit, rfl, hbuf, rfl⟩
    · obtain ⟨k, hk⟩ := genPacket_short c.address dst t hd d buf hfit (by omega)
      rw [hk] at h2; simp at h2
  · rw [genPacket_oversize _ _ _ _ _ _ (by omega)] at h2; simp at h2

theorem respond_ok (c : Ctx) (dst : B) (e : Enc) (buf : Bytes) (t : MsgType) (h : Option Bytes) (d : Bytes)
    (hb : e.body c = .ok (t, h, d)) (hs : e.isStub = false)
    (hfit : 1 + optLen h + d.length ≤ 250) (hbuf : 10 + optLen h + d.length ≤ buf.length) :
    respond c dst e buf =
      (c, .ok (10 + optLen h + d.length),
        packetBytes c.address dst t h d ++ buf.drop (10 + optLen h + d.length)) := by
  unfold respond
  rw [encode_of_body c dst e buf t h d hb hs, genPacket_ok _ _ _ _ _ _ hfit hbuf]

/-- `respond` returns a length or panics; it never returns an error value -/
theorem respond_cases (c : Ctx) (dst : B) (e : Enc) (buf : Bytes) :
    (∃ n buf', respond c dst e buf = (c, .ok n, buf') ∧ encode c dst e buf = .ok (buf', n)) ∨
    (∃ k, respond c dst e buf = (c, .panic k, buf)) := by
  unfold respond
  cases h : encode c dst e buf with
  | ok a => exact .inl ⟨a.2, a.1, rfl, rfl⟩
  | err e => exact .inr ⟨_, rfl⟩
  | panic k => exact .inr ⟨_, rfl⟩

/-! ### `dispatch`, arm by arm -/

/-- `Cmd.ofByte` as a table: the seven commands `dispatch` has arms for, or a byte ≥ 7 -/
inductive CmdCase (cmd : B) : Prop
  | c0 (h : Cmd.ofByte cmd = .reserved) (e : cmd = 0x00#8)
  | c1 (h : Cmd.ofByte cmd = .setEndpointID) (e : cmd = 0x01#8)
  | c2 (h : Cmd.ofByte cmd = .getEndpointID) (e : cmd = 0x02#8)
  | c3 (h : Cmd.ofByte cmd = .getEndpointUUID) (e : cmd = 0x03#8)
  | c4 (h : Cmd.ofByte cmd = .getMCTPVersionSupport) (e : cmd = 0x04#8)
  | c5 (h : Cmd.ofByte cmd = .getMessageTypeSupport) (e : cmd = 0x05#8)
  | c6 (h : Cmd.ofByte cmd = .getVendorDefinedMessageSupport) (e : cmd = 0x06#8)
  | other (h : 7 ≤ cmd.toNat)
      (hne : Cmd.ofByte cmd ≠ .reserved ∧ Cmd.ofByte cmd ≠ .setEndpointID ∧ Cmd.ofByte cmd ≠ .getEndpointID ∧
        Cmd.ofByte cmd ≠ .getEndpointUUID ∧ Cmd.ofByte cmd ≠ .getMCTPVersionSupport ∧
        Cmd.ofByte cmd ≠ .getMessageTypeSupport ∧ Cmd.ofByte cmd ≠ .getVendorDefinedMessageSupport)

theorem cmdCase_table : ∀ cmd : B,
    (Cmd.ofByte cmd = .reserved ∧ cmd = 0x00#8) ∨ (Cmd.ofByte cmd = .setEndpointID ∧ cmd = 0x01#8) ∨
    (Cmd.ofByte cmd = .getEndpointID ∧ cmd = 0x02#8) ∨ (Cmd.ofByte cmd = .getEndpointUUID ∧ cmd = 0x03#8) ∨
    (Cmd.ofByte cmd = .getMCTPVersionSupport ∧ cmd = 0x04#8) ∨
    (Cmd.ofByte cmd = .getMessageTypeSupport ∧ cmd = 0x05#8) ∨
    (Cmd.ofByte cmd = .getVendorDefinedMessageSupport ∧ cmd = 0x06#8) ∨
    (7 ≤ cmd.toNat ∧ Cmd.ofByte cmd ≠ .reserved ∧ Cmd.ofByte cmd ≠ .setEndpointID ∧ Cmd.ofByte cmd ≠ .getEndpointID ∧
        Cmd.ofByte cmd ≠ .getEndpointUUID ∧ Cmd.ofByte cmd ≠ .getMCTPVersionSupport ∧
        Cmd.ofByte cmd ≠ .getMessageTypeSupport ∧ Cmd.ofByte cmd ≠ .getVendorDefinedMessageSupport) := by
  apply forall_byte; decide +kernel

theorem cmdCase (cmd : B) : CmdCase cmd := by
  rcases cmdCase_table cmd with h | h | h | h | h | h | h | h
  · exact .c0 h.1 h.2
  · exact .c1 h.1 h.2
  · exact .c2 h.1 h.2
  · exact .c3 h.1 h.2
  · exact .c4 h.1 h.2
  · exact .c5 h.1 h.2
  · exact .c6 h.1 h.2
  · exact .other h.1 h.2

variable (c : Ctx) (cmd src : B) (pay : Nat → B) (buf : Bytes)

theorem dispatch_reserved (h : Cmd.ofByte cmd = .reserved) :
    dispatch c cmd src pay buf = (c, .panic ⟨.unreachable, .smbus⟩, buf) := by
  unfold dispatch; simp only [h]

theorem dispatch_setEid (h : Cmd.ofByte cmd = .setEndpointID) :
    dispatch c cmd src pay buf =
      if pay 0 = 0#8 ∨ pay 0 = 1#8 then
        respond { c with respEid := pay 1, reqEid := pay 1 } src (.respSetEid 0#8 false 0#8) buf
      else if pay 0 = 2#8 then (c, .panic ⟨.unimplemented, .smbus⟩, buf)
      else if pay 0 = 3#8 then respond c src (.respSetEid 2#8 false 0#8) buf
      else (c, .panic ⟨.unreachable, .smbus⟩, buf) := by
  unfold dispatch; simp only [h]

theorem dispatch_getEid (h : Cmd.ofByte cmd = .getEndpointID) :
    dispatch c cmd src pay buf = respond c src (.respGetEid 0#8 0#8 0#8 false) buf := by
  unfold dispatch; simp only [h]

theorem dispatch_uuid (h : Cmd.ofByte cmd = .getEndpointUUID) :
    dispatch c cmd src pay buf = respond c src (.respUuid 0#8 c.uuid) buf := by
  unfold dispatch; simp only [h]

theorem dispatch_version (h : Cmd.ofByte cmd = .getMCTPVersionSupport) :
    dispatch c cmd src pay buf = respond c src (.respVersion 0#8) buf := by
  unfold dispatch; simp only [h]

theorem dispatch_msgTypes (h : Cmd.ofByte cmd = .getMessageTypeSupport) :
    dispatch c cmd src pay buf = respond c src (.respMsgTypes 0#8 c.msgTypes) buf := by
  unfold dispatch; simp only [h]

/-- the selector the vendor arm stores and reports -/
def nextSel (c : Ctx) (sel : B) : B :=
  if sel + 1#8 = BitVec.ofNat 8 c.vendorIds.length then 0xFF#8 else sel + 1#8

theorem dispatch_vendor (h : Cmd.ofByte cmd = .getVendorDefinedMessageSupport) :
    dispatch c cmd src pay buf =
      if pay 0 = 0xFF#8 then (c, .panic ⟨.addOverflow, .smbus⟩, buf)
      else
        match c.vendorIds[(pay 0).toNat]? with
        | none => ({ c with selector := nextSel c (pay 0) }, .panic ⟨.indexOOB, .smbus⟩, buf)
        | some v =>
          match vendorField v with
          | some f => respond { c with selector := nextSel c (pay 0) } src (.respVendor 0#8 (nextSel c (pay 0)) f) buf
          | none => ({ c with selector := nextSel c (pay 0) }, .panic ⟨.unreachable, .smbus⟩, buf) := by
  unfold dispatch nextSel; simp only [h]; rfl

theorem dispatch_other
    (hne : Cmd.ofByte cmd ≠ .reserved ∧ Cmd.ofByte cmd ≠ .setEndpointID ∧ Cmd.ofByte cmd ≠ .getEndpointID ∧
        Cmd.ofByte cmd ≠ .getEndpointUUID ∧ Cmd.ofByte cmd ≠ .getMCTPVersionSupport ∧
        Cmd.ofByte cmd ≠ .getMessageTypeSupport ∧ Cmd.ofByte cmd ≠ .getVendorDefinedMessageSupport) :
    dispatch c cmd src pay buf = (c, .panic ⟨.unimplemented, .smbus⟩, buf) := by
  unfold dispatch
  split <;> first | (exfalso; simp_all; done) | rfl

/-! ### length tables against the specification's -/

theorem reqDataLen_table : ∀ cmd : B,
    reqDataLen cmd =
      (if Spec.reqUnimpl cmd then .panic ⟨.unimplemented, .traits⟩ else .ok ((Spec.reqFixed cmd).getD 0)) ∧
    Spec.reqFixed cmd ≠ some 0 := by
  apply forall_byte; decide +kernel

theorem respDataLen_table : ∀ cmd : B,
    (Spec.respUnimpl cmd = true ∧ respDataLen cmd = .panic ⟨.unimplemented, .traits⟩) ∨
    (Spec.respUnimpl cmd = false ∧ (respDataLen cmd).isOk = true) := by
  apply forall_byte; decide +kernel

theorem ccOf_table : ∀ b : B,
    (6 ≤ b.toNat ∧ ccOf b = .panic ⟨.unreachable, .control⟩) ∨ (b.toNat < 6 ∧ (ccOf b).isOk = true) := by
  apply forall_byte; decide +kernel

theorem lenFits_iff (o : Option Nat) (m : Nat) (h : o ≠ some 0) :
    Spec.lenFits o m = true ↔ ¬ (o.getD 0 > 0 ∧ m ≠ o.getD 0) := by
  cases o with
  | none => simp [Spec.lenFits]
  | some k =>
    have : k ≠ 0 := by intro hk; exact h (by rw [hk])
    simp [Spec.lenFits]; omega

theorem pecOk_iff (p : Bytes) (h : p ≠ []) : Spec.pecOk p = true ↔ byteAt p (p.length - 1) = calcPec p := by
  rw [pecOk_eq p h]; simp

/-- the control arm for a request, in specification terms -/
theorem getCtrl_request (p : Bytes) (h12 : 12 ≤ p.length) (hr : Spec.isRequest p = true) :
    getCtrl (p.drop 9) (calcPec p) =
      if Spec.reqUnimpl (byteAt p 10) then .panic ⟨.unimplemented, .traits⟩
      else if Spec.pecOk p = false then .err (.control, .ctl .pec)
      else if Spec.lenFits (Spec.reqFixed (byteAt p 10)) (p.length - 12) = false then .err (.control, .ctl .len)
      else .ok ⟨byteAt p 10, true, 2, p.length - 12⟩ := by
  have hne : p ≠ [] := by intro h; subst h; simp at h12
  rw [getCtrl_nf p (by omega)]
  have hl : ¬ p.length < 12 := by omega
  simp only [hl, if_false, hr, if_true]
  obtain ⟨ht, h0⟩ := reqDataLen_table (byteAt p 10)
  rw [ht]
  by_cases hu : Spec.reqUnimpl (byteAt p 10) = true
  · simp [hu]
  · simp only [hu, if_false, Bool.false_eq_true, Out.bind_ok]
    have hp := pecOk_iff p hne
    have hf := lenFits_iff _ (p.length - 12) h0
    by_cases hpe : Spec.pecOk p = true
    · have := hp.mp hpe
      simp only [ne_eq, this, not_true_eq_false, if_false, hpe, Bool.true_eq_false]
      by_cases hlf : Spec.lenFits (Spec.reqFixed (byteAt p 10)) (p.length - 12) = true
      · have := hf.mp hlf
        simp only [hlf, Bool.true_eq_false, if_false]
        rw [if_neg]; simpa using this
      · have := mt hf.mpr hlf
        have hlf' : Spec.lenFits (Spec.reqFixed (byteAt p 10)) (p.length - 12) = false := by simpa using hlf
        simp only [hlf', if_true]
        rw [if_pos]; simpa using this
    · have := mt hp.mpr hpe
      have hpe' : Spec.pecOk p = false := by simpa using hpe
      simp [this, hpe']

theorem acceptedRequest_iff (p : Bytes) :
    Spec.isAcceptedRequest p = true ↔
      12 ≤ p.length ∧ Spec.hdrOk p = true ∧ Spec.isControl p = true ∧ Spec.isRequest p = true ∧
      Spec.pecOk p = true ∧ Spec.lenFits (Spec.reqFixed (byteAt p 10)) (p.length - 12) = true := by
  unfold Spec.isAcceptedRequest Spec.accept Spec.cmdOf
  by_cases hc : Spec.isControl p = true <;> by_cases hr : Spec.isRequest p = true <;>
    simp [hc, hr] <;> grind

theorem getCtrl_ok_inv (p : Bytes) (h10 : 10 ≤ p.length) (ctl : Ctrl)
    (h : getCtrl (p.drop 9) (calcPec p) = .ok ctl) :
    12 ≤ p.length ∧ Spec.pecOk p = true ∧ ctl.cmd = byteAt p 10 ∧ ctl.isReq = Spec.isRequest p ∧
    (Spec.isRequest p = true → ctl.off = 2 ∧ ctl.dataLen = p.length - 12) ∧
    (Spec.isRequest p = false → 13 ≤ p.length ∧ byteAt p 11 = 0x00#8 ∧ ctl.off = 3 ∧ ctl.dataLen = p.length - 13) := by
  have hne : p ≠ [] := by intro h; subst h; simp at h10
  have hp := pecOk_iff p hne
  rw [getCtrl_nf p h10] at h
  by_cases hl : p.length < 12
  · simp [hl] at h
  simp only [hl, if_false] at h
  by_cases hr : Spec.isRequest p = true
  · simp only [hr, if_true] at h
    rcases Out.bind_eq_ok.mp h with ⟨n, _, h2⟩
    split at h2
    · simp at h2
    · split at h2
      · simp at h2
      · rename_i h3 _
        simp only [Out.ok.injEq] at h2
        subst h2
        exact ⟨by omega, hp.mpr (by simpa using h3), rfl, hr.symm, fun _ => ⟨rfl, rfl⟩, fun h => by simp [hr] at h⟩
  · have hr' : Spec.isRequest p = false := by simpa using hr
    simp only [hr', Bool.false_eq_true, if_false] at h
    by_cases hl2 : p.length < 13
    · simp [hl2] at h
    simp only [hl2, if_false] at h
    by_cases hcc : byteAt p 11 = 0x00#8
    · simp only [ne_eq, hcc, not_true_eq_false, if_false] at h
      rcases Out.bind_eq_ok.mp h with ⟨n, _, h2⟩
      split at h2
      · simp at h2
      · split at h2
        · simp at h2
        · rename_i h3 _
          simp only [Out.ok.injEq] at h2
          subst h2
          exact ⟨by omega, hp.mpr (by simpa using h3), rfl, hr'.symm, fun h => by simp [hr'] at h,
            fun _ => ⟨by omega, hcc, rfl, rfl⟩⟩
    · simp only [ne_eq, hcc, not_false_eq_true, if_true] at h
      rcases Out.bind_eq_ok.mp h with ⟨n, _, h2⟩
      simp at h2

/-- `process_packet` is `decode_packet` followed, for an accepted control request, by `dispatch` -/
theorem process_eq_decode (c : Ctx) (p buf : Bytes) :
    process c p buf =
      match decode p with
      | .err e => (c, .err e, buf)
      | .panic k => (c, .panic k, buf)
      | .ok d =>
        if (Spec.isControl p && Spec.isRequest p) = true then
          let r := dispatch c (byteAt p 10) (byteAt p 6) (fun i => byteAt p (11 + i)) buf
          (r.1, r.2.1.map (fun n => (d, some n)), r.2.2)
        else (c, .ok (d, none), buf) := by
  rw [process_nf, decode_nf]
  by_cases h1 : p.length < 10 ∨ Spec.hdrOk p = false
  · simp only [h1, if_true]
  simp only [h1, if_false]
  have h10 : 10 ≤ p.length := by omega
  by_cases hc : Spec.isControl p = true
  · simp only [hc, if_true, Bool.true_and]
    cases hgc : getCtrl (p.drop 9) (calcPec p) with
    | err e => simp
    | panic k => simp
    | ok ctl =>
      obtain ⟨h12, hpec, hcmd, hreq, hq, hs⟩ := getCtrl_ok_inv p h10 ctl hgc
      simp only [Out.bind_ok, hreq, hcmd]
      by_cases hr : Spec.isRequest p = true
      · obtain ⟨ho, hd⟩ := hq hr
        simp only [hr, if_true, ho, hd]
      · simp only [hr, if_false, Bool.false_eq_true]
  · simp only [hc, if_false, Bool.false_eq_true, Bool.false_and]
    by_cases hp : Spec.pecOk p = true <;> simp [hp]

theorem decode_request (p : Bytes) (h12 : 12 ≤ p.length) (hh : Spec.hdrOk p = true)
    (hc : Spec.isControl p = true) (hr : Spec.isRequest p = true) :
    decode p =
      if Spec.reqUnimpl (byteAt p 10) then .panic ⟨.unimplemented, .traits⟩
      else if Spec.pecOk p = false then .err (.control, .ctl .pec)
      else if Spec.lenFits (Spec.reqFixed (byteAt p 10)) (p.length - 12) = false then .err (.control, .ctl .len)
      else .ok (.control, 11, p.length - 12) := by
  rw [decode_nf, getCtrl_request p h12 hr]
  have h1 : ¬ (p.length < 10 ∨ Spec.hdrOk p = false) := by simp [hh]; omega
  simp only [h1, if_false, hc, if_true]
  split
  · rfl
  · split
    · rfl
    · split <;> rfl

theorem decode_accepted (p : Bytes) (ha : Spec.isAcceptedRequest p = true)
    (hu : Spec.reqUnimpl (byteAt p 10) = false) :
    decode p = .ok (.control, 11, p.length - 12) := by
  obtain ⟨h12, hh, hc, hr, hp, hl⟩ := (acceptedRequest_iff p).mp ha
  rw [decode_request p h12 hh hc hr]
  simp [hu, hp, hl]

/-- an accepted control request goes to `dispatch` with the command byte, the source EID and the payload -/
theorem process_accepted (c : Ctx) (p buf : Bytes) (ha : Spec.isAcceptedRequest p = true)
    (hu : Spec.reqUnimpl (byteAt p 10) = false) :
    process c p buf =
      ((dispatch c (byteAt p 10) (byteAt p 6) (fun i => byteAt p (11 + i)) buf).1,
       (dispatch c (byteAt p 10) (byteAt p 6) (fun i => byteAt p (11 + i)) buf).2.1.map
          (fun n => ((MsgType.control, 11, p.length - 12), some n)),
       (dispatch c (byteAt p 10) (byteAt p 6) (fun i => byteAt p (11 + i)) buf).2.2) := by
  obtain ⟨h12, hh, hc, hr, hp, hl⟩ := (acceptedRequest_iff p).mp ha
  rw [process_eq_decode, decode_accepted p ha hu]
  simp [hc, hr]

/-- the decoder accepts a control request exactly when the specification does and the command has a
length-table entry -/
theorem decode_ok_request (p : Bytes) (d : Dec) (h : decode p = .ok d)
    (hc : Spec.isControl p = true) (hr : Spec.isRequest p = true) :
    Spec.isAcceptedRequest p = true ∧ Spec.reqUnimpl (byteAt p 10) = false ∧
      d = (.control, 11, p.length - 12) := by
  have h0 := h
  rw [decode_nf] at h
  by_cases h1 : p.length < 10 ∨ Spec.hdrOk p = false
  · simp [h1] at h
  have h10 : 10 ≤ p.length := by omega
  have hh : Spec.hdrOk p = true := by cases hx : Spec.hdrOk p <;> simp_all
  simp only [h1, if_false, hc, if_true] at h
  rcases Out.bind_eq_ok.mp h with ⟨ctl, hg, _⟩
  have h12 := (getCtrl_ok_inv p h10 ctl hg).1
  rw [decode_request p h12 hh hc hr] at h0
  by_cases hu : Spec.reqUnimpl (byteAt p 10) = true
  · simp [hu] at h0
  by_cases hp : Spec.pecOk p = false
  · simp [hu, hp] at h0
  by_cases hl : Spec.lenFits (Spec.reqFixed (byteAt p 10)) (p.length - 12) = false
  · simp [hu, hp, hl] at h0
  have hp' : Spec.pecOk p = true := by simpa using hp
  have hl' : Spec.lenFits (Spec.reqFixed (byteAt p 10)) (p.length - 12) = true := by simpa using hl
  have hu' : Spec.reqUnimpl (byteAt p 10) = false := by simpa using hu
  simp [hu', hp', hl'] at h0
  exact ⟨(acceptedRequest_iff p).mpr ⟨h12, hh, hc, hr, hp', hl'⟩, hu', h0.symm⟩

end Proc
end Mctp
