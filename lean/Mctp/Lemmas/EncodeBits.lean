/-
Helper lemmas: localisation of the bit-field setter loops to single bytes (used for the closed forms
of the header constructors in Lemmas/Encode.lean).
-/
import Mctp.Model.Encode
import Mctp.Lemmas.Bitfield
namespace Mctp
namespace EncAux

/-- the setter loop restricted to a single byte -/
def byteLoop (posOf : Nat → Nat) : List Nat → B × Nat → B × Nat
  | [], st => st
  | i :: is, (b, v) => byteLoop posOf is (putBit b (posOf i) (v % 2 == 1), v / 2)

theorem set_getD_self (buf : Bytes) (k : Nat) (hk : k < buf.length) : buf.set k (buf.getD k 0) = buf := by
  simp [List.getD_eq_getElem?_getD, hk]

/-- localisation: a setter loop whose indices all lie in byte `k` only rewrites byte `k` -/
theorem setLoop_local (posOf : Nat → Nat) (k : Nat) :
    ∀ (is : List Nat) (buf : Bytes) (v : Nat), (∀ i ∈ is, i / 8 = k) → k < buf.length →
      setLoop posOf is (buf, v) =
        (buf.set k (byteLoop posOf is (buf.getD k 0, v)).1, (byteLoop posOf is (buf.getD k 0, v)).2)
  | [], buf, v, _, hk => by rw [setLoop, byteLoop, set_getD_self buf k hk]
  | i :: is, buf, v, hall, hk => by
    have hi : i / 8 = k := hall i (by simp)
    rw [setLoop, setLoop_local posOf k is _ _ (fun j hj => hall j (by simp [hj])) (by simpa [setBit_length] using hk)]
    simp [byteLoop, setBit, hi, List.getD_eq_getElem?_getD, hk]

theorem setLoop_append (posOf : Nat → Nat) : ∀ (is js : List Nat) (st : Bytes × Nat),
    setLoop posOf (is ++ js) st = setLoop posOf js (setLoop posOf is st)
  | [], js, st => rfl
  | i :: is, js, (buf, v) => by simp [setLoop, setLoop_append posOf is js]

theorem byteLoop_snd (posOf : Nat → Nat) : ∀ (is : List Nat) (b : B) (v : Nat),
    (byteLoop posOf is (b, v)).2 = v / 2 ^ is.length
  | [], b, v => by simp [byteLoop]
  | i :: is, b, v => by
    rw [byteLoop, byteLoop_snd posOf is, List.length_cons, Nat.pow_succ', Nat.div_div_eq_div_mul]

theorem byteLoop_fst_mod (posOf : Nat → Nat) : ∀ (is : List Nat) (b : B) (v : Nat),
    (byteLoop posOf is (b, v)).1 = (byteLoop posOf is (b, v % 2 ^ is.length)).1
  | [], b, v => by simp [byteLoop]
  | i :: is, b, v => by
    rw [byteLoop, byteLoop, byteLoop_fst_mod posOf is _ (v / 2),
      byteLoop_fst_mod posOf is _ (v % 2 ^ (i :: is).length / 2)]
    have h1 : v % 2 ^ (i :: is).length % 2 = v % 2 := by
      rw [List.length_cons, Nat.pow_succ']; exact Nat.mod_mul_right_mod _ _ _
    have h2 : v % 2 ^ (i :: is).length / 2 % 2 ^ is.length = v / 2 % 2 ^ is.length := by
      rw [List.length_cons, Nat.pow_succ', Nat.mod_mul_right_div_self, Nat.mod_mod]
    rw [h1, h2]

end EncAux

namespace Field

def encIdxs (f : Field) : List Nat := if f.msb0 then idxDown f.msb f.lsb else idxUp f.msb f.lsb
def encPos (f : Field) : Nat → Nat := if f.msb0 then posMsb0 else posLsb0
/-- what a single-byte field setter does to its byte -/
def encPutByte (f : Field) (b : B) (v : Nat) : B := (EncAux.byteLoop f.encPos f.encIdxs (b, v % 2 ^ f.valBits)).1

theorem enc_set_eq_loop (f : Field) (buf : Bytes) (v : Nat) :
    f.set buf v = (setLoop f.encPos f.encIdxs (buf, v % 2 ^ f.valBits)).1 := by
  unfold Field.set encIdxs encPos setMsb0 setLsb0
  cases f.msb0 <;> simp

theorem enc_set_byte (f : Field) (k : Nat) (buf : Bytes) (v : Nat) (hk : k < buf.length)
    (hall : f.encIdxs.all (fun i => i / 8 == k) = true) :
    f.set buf v = buf.set k (f.encPutByte (buf.getD k 0) v) := by
  rw [enc_set_eq_loop, EncAux.setLoop_local f.encPos k f.encIdxs buf _ (by simpa using hall) hk]
  rfl

end Field


namespace EncAux

theorem setLoop_chunk (posOf : Nat → Nat) (k : Nat) (is : List Nat) (buf : Bytes) (v : Nat)
    (hall : is.all (fun i => i / 8 == k) = true) (hk : k < buf.length) :
    setLoop posOf is (buf, v) =
      (buf.set k (byteLoop posOf is (buf.getD k 0, v % 2 ^ is.length)).1, v / 2 ^ is.length) := by
  rw [setLoop_local posOf k is buf v (by simpa using hall) hk, byteLoop_snd, ← byteLoop_fst_mod]

theorem chunk3 : ∀ x : B, (byteLoop posMsb0 [31, 30, 29, 28, 27, 26, 25, 24] ((0:B), x.toNat)).1 = x := by
  apply forall_byte; decide +kernel
theorem chunk2 : ∀ x : B, (byteLoop posMsb0 [23, 22, 21, 20, 19, 18, 17, 16] ((0:B), x.toNat)).1 = x := by
  apply forall_byte; decide +kernel
theorem chunk1 : ∀ x : B, (byteLoop posMsb0 [15, 14, 13, 12, 11, 10, 9, 8] ((0:B), x.toNat)).1 = x := by
  apply forall_byte; decide +kernel
theorem chunk0 : ∀ x : B, (byteLoop posMsb0 [7, 6, 5, 4, 3, 2, 1, 0] ((0:B), x.toNat)).1 = x := by
  apply forall_byte; decide +kernel

theorem mod256 (v : Nat) : v % 2 ^ 8 = (BitVec.ofNat 8 v).toNat := by simp

end EncAux

end Mctp
