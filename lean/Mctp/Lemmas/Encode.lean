/-
Helper lemmas: closed forms of the header constructors and the normal form of an encoded packet.
-/
import Mctp.Model.Encode
import Mctp.Lemmas.Bitfield
import Mctp.Lemmas.Crc
namespace Mctp

/-! ### closed forms of the header constructors (the bit loops evaluated once and for all) -/

theorem smbusHeaderFinal_eq (a d : B) (total : Nat) :
    smbusHeaderFinal a d total =
      [(d &&& 0x7F#8) <<< 1, 0x0F#8, BitVec.ofNat 8 (total - 4), ((a &&& 0x7F#8) <<< 1) ||| 1#8] := by
  sorry

theorem transportHeader_eq (a d : B) : transportHeader a d = [0x01#8, d, a, 0xC8#8] := by
  sorry

theorem bodyHeader_eq (t : MsgType) : bodyHeader t = [t.toByte &&& 0x7F#8] := by
  sorry

theorem ctrlHeader_eq (rq : Bool) (cmd : Cmd) :
    ctrlHeader rq cmd = [if rq then 0x80#8 else 0x00#8, cmd.toByte] := by
  sorry

theorem pciHeader_eq (data : BitVec 32) :
    pciHeader data = [(data >>> 8).setWidth 8, data.setWidth 8] := by
  sorry

theorem ianaHeader_eq (data : BitVec 32) :
    ianaHeader data =
      [(data >>> 24).setWidth 8, (data >>> 16).setWidth 8, (data >>> 8).setWidth 8, data.setWidth 8] := by
  sorry

/-! ### normal form of a packet -/

/-- the nine fixed bytes, then additional header and data -/
def packetPre (a d : B) (t : MsgType) (h : Option Bytes) (data : Bytes) : Bytes :=
  (d &&& 0x7F#8) <<< 1 :: 0x0F#8 :: BitVec.ofNat 8 (6 + optLen h + data.length) ::
    (((a &&& 0x7F#8) <<< 1) ||| 1#8) :: 0x01#8 :: d :: a :: 0xC8#8 :: (t.toByte &&& 0x7F#8) ::
      (optBytes h ++ data)

theorem packetBytes_eq (a d : B) (t : MsgType) (h : Option Bytes) (data : Bytes) :
    packetBytes a d t h data = packetPre a d t h data ++ [crc8 (packetPre a d t h data)] := by
  sorry

theorem packetBytes_length (a d : B) (t : MsgType) (h : Option Bytes) (data : Bytes) :
    (packetBytes a d t h data).length = 10 + optLen h + data.length := by
  sorry

/-- `generate_*_packet_bytes` on a buffer that is long enough -/
theorem genPacket_ok (a d : B) (t : MsgType) (h : Option Bytes) (data buf : Bytes)
    (hfit : 1 + optLen h + data.length ≤ 250) (hbuf : 10 + optLen h + data.length ≤ buf.length) :
    genPacket a d t h data buf =
      .ok (packetBytes a d t h data ++ buf.drop (10 + optLen h + data.length), 10 + optLen h + data.length) := by
  sorry

theorem genPacket_oversize (a d : B) (t : MsgType) (h : Option Bytes) (data buf : Bytes)
    (hbig : 250 < 1 + optLen h + data.length) : genPacket a d t h data buf = .err () := by
  sorry

/-- on a buffer that is too short the writer panics (slice or index out of range) -/
theorem genPacket_short (a d : B) (t : MsgType) (h : Option Bytes) (data buf : Bytes)
    (hfit : 1 + optLen h + data.length ≤ 250) (hbuf : buf.length < 10 + optLen h + data.length) :
    ∃ p, genPacket a d t h data buf = .panic p := by
  sorry

end Mctp
