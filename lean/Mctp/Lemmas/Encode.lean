/-
Helper lemmas: closed forms of the header constructors and the normal form of an encoded packet.
-/
import Mctp.Model.Encode
import Mctp.Lemmas.Bitfield
import Mctp.Lemmas.EncodeBits
import Mctp.Lemmas.Crc
namespace Mctp

/-! ### closed forms of the header constructors (the bit loops evaluated once and for all) -/

theorem smbus_b0 : ∀ d : B, SMBusHdr.destSlaveAddr.encPutByte (SMBusHdr.destReadWrite.encPutByte (0:B) 0) d.toNat
    = (d &&& 0x7F#8) <<< 1 := by
  apply forall_byte; decide +kernel

theorem smbus_b3 : ∀ a : B, SMBusHdr.sourceReadWrite.encPutByte (SMBusHdr.sourceSlaveAddr.encPutByte (0:B) a.toNat) 1
    = ((a &&& 0x7F#8) <<< 1) ||| 1#8 := by
  apply forall_byte; decide +kernel

theorem smbusHeader_eq (a d : B) :
    smbusHeader a d = [(d &&& 0x7F#8) <<< 1, 0x0F#8, 0#8, ((a &&& 0x7F#8) <<< 1) ||| 1#8] := by
  unfold smbusHeader
  simp only []
  rw [Field.enc_set_byte SMBusHdr.destReadWrite 0 _ _ (by simp) (by decide)]
  rw [Field.enc_set_byte SMBusHdr.destSlaveAddr 0 _ _ (by simp) (by decide)]
  rw [Field.enc_set_byte SMBusHdr.commandCode 1 _ _ (by simp) (by decide)]
  rw [Field.enc_set_byte SMBusHdr.sourceSlaveAddr 3 _ _ (by simp) (by decide)]
  rw [Field.enc_set_byte SMBusHdr.sourceReadWrite 3 _ _ (by simp) (by decide)]
  simp only [List.set, List.getD_cons_zero, List.getD_cons_succ]
  have e1 : SMBusHdr.commandCode.encPutByte 0 15 = 0x0F#8 := by decide +kernel
  rw [smbus_b0 d, smbus_b3 a, e1]
  rfl


theorem byteCount_b : ∀ x : B, SMBusHdr.byteCount.encPutByte (0:B) x.toNat = x := by
  apply forall_byte; decide +kernel

theorem smbusHeaderFinal_eq (a d : B) (total : Nat) :
    smbusHeaderFinal a d total =
      [(d &&& 0x7F#8) <<< 1, 0x0F#8, BitVec.ofNat 8 (total - 4), ((a &&& 0x7F#8) <<< 1) ||| 1#8] := by
  unfold smbusHeaderFinal
  rw [smbusHeader_eq, Field.enc_set_byte SMBusHdr.byteCount 2 _ _ (by simp) (by decide)]
  have e : (total - 4) % 256 = (BitVec.ofNat 8 (total - 4)).toNat := by simp
  simp only [List.set, List.getD_cons_zero, List.getD_cons_succ]
  rw [e]
  exact congrArg (fun x => [_, _, x, _]) (byteCount_b _)

theorem tr_b1 : ∀ x : B, TransportHdr.destEndpointId.encPutByte (0:B) x.toNat = x := by
  apply forall_byte; decide +kernel
theorem tr_b2 : ∀ x : B, TransportHdr.sourceEndpointId.encPutByte (0:B) x.toNat = x := by
  apply forall_byte; decide +kernel

theorem transportHeader_eq (a d : B) : transportHeader a d = [0x01#8, d, a, 0xC8#8] := by
  unfold transportHeader
  simp only []
  rw [Field.enc_set_byte TransportHdr.hdrVersion 0 _ _ (by simp) (by decide)]
  rw [Field.enc_set_byte TransportHdr.destEndpointId 1 _ _ (by simp) (by decide)]
  rw [Field.enc_set_byte TransportHdr.sourceEndpointId 2 _ _ (by simp) (by decide)]
  rw [Field.enc_set_byte TransportHdr.som 3 _ _ (by simp) (by decide)]
  rw [Field.enc_set_byte TransportHdr.eom 3 _ _ (by simp) (by decide)]
  rw [Field.enc_set_byte TransportHdr.pktSeq 3 _ _ (by simp) (by decide)]
  rw [Field.enc_set_byte TransportHdr.to 3 _ _ (by simp) (by decide)]
  rw [Field.enc_set_byte TransportHdr.msgTag 3 _ _ (by simp) (by decide)]
  simp only [List.set, List.getD_cons_zero, List.getD_cons_succ]
  have e0 : TransportHdr.hdrVersion.encPutByte (0:B) 1 = 0x01#8 := by decide +kernel
  have e3 : TransportHdr.msgTag.encPutByte (TransportHdr.to.encPutByte (TransportHdr.pktSeq.encPutByte
      (TransportHdr.eom.encPutByte (TransportHdr.som.encPutByte (0:B) 1) 1) 0) 1) 0 = 0xC8#8 := by decide +kernel
  rw [tr_b1 d, tr_b2 a, e0, e3]

theorem bodyHeader_eq (t : MsgType) : bodyHeader t = [t.toByte &&& 0x7F#8] := by
  cases t <;> decide +kernel

theorem ctrlHeader_eq (rq : Bool) (cmd : Cmd) :
    ctrlHeader rq cmd = [if rq then 0x80#8 else 0x00#8, cmd.toByte] := by
  cases rq <;> cases cmd <;> decide +kernel



open EncAux in
theorem pciHeader_eq (data : BitVec 32) :
    pciHeader data = [(data >>> 8).setWidth 8, data.setWidth 8] := by
  unfold pciHeader
  rw [Field.enc_set_eq_loop]
  have hi : PciFmt.vendorId.encIdxs = [15, 14, 13, 12, 11, 10, 9, 8] ++ [7, 6, 5, 4, 3, 2, 1, 0] := by decide
  have hp : PciFmt.vendorId.encPos = posMsb0 := rfl
  rw [hi, hp, setLoop_append, setLoop_chunk posMsb0 1 [15, 14, 13, 12, 11, 10, 9, 8] _ _ (by decide) (by simp),
    setLoop_chunk posMsb0 0 [7, 6, 5, 4, 3, 2, 1, 0] _ _ (by decide) (by simp)]
  simp only [List.set, List.getD_cons_zero, List.getD_cons_succ, List.length_cons, List.length_nil]
  rw [mod256, mod256, chunk1, chunk0]
  congr 1
  · apply BitVec.eq_of_toNat_eq
    simp [BitVec.toNat_setWidth, BitVec.toNat_ushiftRight, Nat.shiftRight_eq_div_pow, PciFmt.vendorId]
    omega
  · congr 1
    apply BitVec.eq_of_toNat_eq
    simp [BitVec.toNat_setWidth, PciFmt.vendorId]


open EncAux in
theorem ianaHeader_eq (data : BitVec 32) :
    ianaHeader data =
      [(data >>> 24).setWidth 8, (data >>> 16).setWidth 8, (data >>> 8).setWidth 8, data.setWidth 8] := by
  unfold ianaHeader
  rw [Field.enc_set_eq_loop]
  have hi : IanaFmt.vendorId.encIdxs = [31, 30, 29, 28, 27, 26, 25, 24] ++ ([23, 22, 21, 20, 19, 18, 17, 16] ++
      ([15, 14, 13, 12, 11, 10, 9, 8] ++ [7, 6, 5, 4, 3, 2, 1, 0])) := by decide
  have hp : IanaFmt.vendorId.encPos = posMsb0 := rfl
  rw [hi, hp, setLoop_append, setLoop_append, setLoop_append,
    setLoop_chunk posMsb0 3 [31, 30, 29, 28, 27, 26, 25, 24] _ _ (by decide) (by simp),
    setLoop_chunk posMsb0 2 [23, 22, 21, 20, 19, 18, 17, 16] _ _ (by decide) (by simp),
    setLoop_chunk posMsb0 1 [15, 14, 13, 12, 11, 10, 9, 8] _ _ (by decide) (by simp),
    setLoop_chunk posMsb0 0 [7, 6, 5, 4, 3, 2, 1, 0] _ _ (by decide) (by simp)]
  simp only [List.set, List.getD_cons_zero, List.getD_cons_succ, List.length_cons, List.length_nil]
  rw [mod256, mod256, mod256, mod256, chunk3, chunk2, chunk1, chunk0]
  have hd : data.toNat < 2 ^ 32 := data.isLt
  congr 1
  · apply BitVec.eq_of_toNat_eq
    simp [BitVec.toNat_setWidth, BitVec.toNat_ushiftRight, Nat.shiftRight_eq_div_pow, IanaFmt.vendorId]
    omega
  congr 1
  · apply BitVec.eq_of_toNat_eq
    simp [BitVec.toNat_setWidth, BitVec.toNat_ushiftRight, Nat.shiftRight_eq_div_pow, IanaFmt.vendorId]
    omega
  congr 1
  · apply BitVec.eq_of_toNat_eq
    simp [BitVec.toNat_setWidth, BitVec.toNat_ushiftRight, Nat.shiftRight_eq_div_pow, IanaFmt.vendorId]
    omega
  congr 1
  · apply BitVec.eq_of_toNat_eq
    simp [BitVec.toNat_setWidth, IanaFmt.vendorId]

/-! ### normal form of a packet -/

/-- the nine fixed bytes, then additional header and data -/
def packetPre (a d : B) (t : MsgType) (h : Option Bytes) (data : Bytes) : Bytes :=
  (d &&& 0x7F#8) <<< 1 :: 0x0F#8 :: BitVec.ofNat 8 (6 + optLen h + data.length) ::
    (((a &&& 0x7F#8) <<< 1) ||| 1#8) :: 0x01#8 :: d :: a :: 0xC8#8 :: (t.toByte &&& 0x7F#8) ::
      (optBytes h ++ data)

theorem packetBytes_eq (a d : B) (t : MsgType) (h : Option Bytes) (data : Bytes) :
    packetBytes a d t h data = packetPre a d t h data ++ [crc8 (packetPre a d t h data)] := by
  have e : 4 + 4 + (1 + optLen h + data.length) + 1 - 4 = 6 + optLen h + data.length := by omega
  have hp : smbusHeaderFinal a d (4 + 4 + (1 + optLen h + data.length) + 1) ++ transportHeader a d ++
      bodyHeader t ++ optBytes h ++ data = packetPre a d t h data := by
    rw [smbusHeaderFinal_eq, transportHeader_eq, bodyHeader_eq, e]
    simp [packetPre]
  unfold packetBytes
  simp only []
  rw [hp]

theorem optBytes_length (h : Option Bytes) : (optBytes h).length = optLen h := by
  cases h <;> rfl

theorem packetPre_length (a d : B) (t : MsgType) (h : Option Bytes) (data : Bytes) :
    (packetPre a d t h data).length = 9 + optLen h + data.length := by
  simp [packetPre, optBytes_length]; omega

theorem packetBytes_length (a d : B) (t : MsgType) (h : Option Bytes) (data : Bytes) :
    (packetBytes a d t h data).length = 10 + optLen h + data.length := by
  rw [packetBytes_eq, List.length_append, packetPre_length]; simp; omega

theorem splice_length (buf : Bytes) (off : Nat) (src : Bytes) (h : off + src.length ≤ buf.length) :
    (splice buf off src).length = buf.length := by
  simp [splice]; omega

theorem writeAt_app (pre rest src : Bytes) (off : Nat) (file : SrcFile) (ho : off = pre.length)
    (hl : src.length ≤ rest.length) :
    writeAt (pre ++ rest) off src file = .ok ((pre ++ src) ++ rest.drop src.length) := by
  subst ho
  unfold writeAt
  rw [if_pos (by simp; omega)]
  simp [splice, List.drop_append]

theorem writeAt_ok_length {buf src : Bytes} {off : Nat} {file : SrcFile} {b : Bytes}
    (h : writeAt buf off src file = .ok b) : b.length = buf.length := by
  unfold writeAt at h
  split at h
  · cases h; exact splice_length _ _ _ (by assumption)
  · cases h

theorem writeAt_ne_err {buf src : Bytes} {off : Nat} {file : SrcFile} :
    writeAt buf off src file ≠ .err () := by
  unfold writeAt; split <;> simp


theorem packetToRaw_ok (sm tr bh : Bytes) (hdr : Option Bytes) (data buf : Bytes)
    (h1 : sm.length = 4) (h2 : tr.length = 4) (h3 : bh.length = 1)
    (hbuf : 10 + optLen hdr + data.length ≤ buf.length) :
    packetToRaw sm tr bh hdr data buf =
      .ok ((sm ++ tr ++ bh ++ optBytes hdr ++ data) ++ [crc8 (sm ++ tr ++ bh ++ optBytes hdr ++ data)] ++
        buf.drop (10 + optLen hdr + data.length), 10 + optLen hdr + data.length) := by
  have hh := optBytes_length hdr
  unfold packetToRaw
  have w1 := writeAt_app [] buf sm 0 .proto rfl (by omega)
  rw [List.nil_append] at w1
  rw [w1, Out.bind_ok, writeAt_app _ _ tr 4 .proto (by simp [h1]) (by simp; omega), Out.bind_ok,
    writeAt_app _ _ bh 8 .base (by simp [h1, h2]) (by simp; omega), Out.bind_ok,
    writeAt_app _ _ (optBytes hdr) 9 .base (by simp [h1, h2, h3]) (by simp; omega), Out.bind_ok,
    writeAt_app _ _ data (9 + optLen hdr) .base (by simp [h1, h2, h3, hh]; omega) (by simp; omega), Out.bind_ok]
  simp only [List.nil_append, List.drop_drop]
  generalize hpre : sm ++ tr ++ bh ++ optBytes hdr ++ data = pre
  have hpl : pre.length = 9 + optLen hdr + data.length := by
    rw [← hpre]; simp [h1, h2, h3, hh]; omega
  have hn : sm.length + tr.length + bh.length + (optBytes hdr).length + data.length =
      9 + optLen hdr + data.length := by omega
  rw [hn, if_pos (by simp; omega), ← hpl]
  have hlt : pre.length < buf.length := by omega
  rw [List.take_left' rfl, List.drop_eq_getElem_cons hlt, List.set_append_right _ _ (Nat.le_refl _),
    Nat.sub_self, List.set_cons_zero, hpl]
  have e : 9 + optLen hdr + data.length + 1 = 10 + optLen hdr + data.length := by omega
  rw [e]
  simp


theorem packetToRaw_ne_err (sm tr bh : Bytes) (hdr : Option Bytes) (data buf : Bytes) :
    packetToRaw sm tr bh hdr data buf ≠ .err () := by
  unfold packetToRaw
  intro h
  simp only [Out.bind_eq_err, writeAt_ne_err, false_or] at h
  obtain ⟨b1, -, b2, -, b3, -, b4, -, b5, -, h⟩ := h
  split at h <;> cases h

theorem packetToRaw_ok_inv (sm tr bh : Bytes) (hdr : Option Bytes) (data buf : Bytes) (r : Bytes × Nat)
    (h : packetToRaw sm tr bh hdr data buf = .ok r) : 10 + optLen hdr + data.length ≤ buf.length := by
  unfold packetToRaw at h
  simp only [Out.bind_eq_ok] at h
  obtain ⟨b1, w1, b2, w2, b3, w3, b4, w4, b5, w5, h⟩ := h
  have l1 := writeAt_ok_length w1
  have l2 := writeAt_ok_length w2
  have l3 := writeAt_ok_length w3
  have l4 := writeAt_ok_length w4
  have l5 := writeAt_ok_length w5
  split at h
  · omega
  · cases h

/-- `generate_*_packet_bytes` on a buffer that is long enough -/
theorem genPacket_ok (a d : B) (t : MsgType) (h : Option Bytes) (data buf : Bytes)
    (hfit : 1 + optLen h + data.length ≤ 250) (hbuf : 10 + optLen h + data.length ≤ buf.length) :
    genPacket a d t h data buf =
      .ok (packetBytes a d t h data ++ buf.drop (10 + optLen h + data.length), 10 + optLen h + data.length) := by
  unfold genPacket
  simp only []
  rw [if_neg (by unfold maxBodyLen; omega),
    packetToRaw_ok _ _ _ _ _ _ (by rw [smbusHeaderFinal_eq]; rfl) (by rw [transportHeader_eq]; rfl)
      (by rw [bodyHeader_eq]; rfl) hbuf]
  rfl

theorem genPacket_oversize (a d : B) (t : MsgType) (h : Option Bytes) (data buf : Bytes)
    (hbig : 250 < 1 + optLen h + data.length) : genPacket a d t h data buf = .err () := by
  unfold genPacket
  simp only []
  rw [if_pos (by unfold maxBodyLen; omega)]

/-- on a buffer that is too short the writer panics (slice or index out of range) -/
theorem genPacket_short (a d : B) (t : MsgType) (h : Option Bytes) (data buf : Bytes)
    (hfit : 1 + optLen h + data.length ≤ 250) (hbuf : buf.length < 10 + optLen h + data.length) :
    ∃ p, genPacket a d t h data buf = .panic p := by
  unfold genPacket
  simp only []
  rw [if_neg (by unfold maxBodyLen; omega)]
  generalize hr : packetToRaw _ _ _ h data buf = r
  cases r with
  | ok r => have := packetToRaw_ok_inv _ _ _ _ _ _ _ hr; omega
  | err e => cases e; exact absurd hr (packetToRaw_ne_err _ _ _ _ _ _)
  | panic p => exact ⟨p, rfl⟩

end Mctp
