/-
Helper lemmas: closed forms of the header constructors and the normal form of an encoded packet.
-/
import Mctp.Model.Encode
import Mctp.Lemmas.Bitfield
import Mctp.Lemmas.Crc
namespace Mctp

end Mctp
