/-
The tie by translation, part 2: the two expected-data-length tables of `mctp_traits.rs`
(`get_request_data_len`, `get_response_data_len`), translated from MIR, against the model's
`reqDataLen` / `respDataLen` - including which commands hit `unimplemented!()`.
-/
import Mctp.Tie.Names
import Mctp.Model.Decode
namespace Mctp.Tie
open Mctp.Mir

/-- the model's outcome as a MIR result -/
def resOfLen : Out DErr Nat → Res
  | .ok n => .ret n
  | .panic ⟨.unimplemented, _⟩ => .panic .unimplemented
  | _ => .stuck

theorem req_len : ∀ b : B,
    run Gen.prog Gen.idx_get_request_data_len [b.toNat] = resOfLen (reqDataLen b) := by
  apply forall_byte; decide +kernel

theorem resp_len : ∀ b : B,
    run Gen.prog Gen.idx_get_response_data_len [b.toNat] = resOfLen (respDataLen b) := by
  apply forall_byte; decide +kernel

/-- non-vacuity: neither side is stuck anywhere, and both values and panics occur -/
example : run Gen.prog Gen.idx_get_request_data_len [1] = .ret 2 ∧
    run Gen.prog Gen.idx_get_request_data_len [0x0F] = .panic .unimplemented ∧
    run Gen.prog Gen.idx_get_response_data_len [3] = .ret 16 := by decide +kernel

theorem len_never_stuck : ∀ b : B,
    run Gen.prog Gen.idx_get_request_data_len [b.toNat] ≠ .stuck ∧
    run Gen.prog Gen.idx_get_response_data_len [b.toNat] ≠ .stuck := by
  apply forall_byte; decide +kernel

end Mctp.Tie
