/-
The tie by translation, part 1b: the three `From<u8>` conversions, translated from MIR, run by the
interpreter of `Mir/Sem.lean`, against the hand-written model (`Model/Enums.lean`): the same variant for
every one of the 256 bytes (and the same `unreachable!()` above completion code 5).
-/
import Mctp.Tie.Names
namespace Mctp.Tie
open Mctp.Mir

/-- the translated `CommandCode::from` returns, for every byte, the variant the model returns -/
theorem cmd_from : ∀ b : B,
    run Gen.prog Gen.idx_from_CommandCode [b.toNat] = .ret (genOfCmd (Cmd.ofByte b)).discr := by
  apply forall_byte; decide +kernel

theorem msg_from : ∀ b : B,
    run Gen.prog Gen.idx_from_MessageType [b.toNat] = .ret (genOfMsg (MsgType.ofByte b)).discr := by
  apply forall_byte; decide +kernel

/-- what the model's `CC.ofByte` outcome looks like as a MIR result -/
def resOfCC : Out Unit CC → Res
  | .ok c => .ret (genOfCC c).discr
  | .panic ⟨.unreachable, _⟩ => .panic .unreachable
  | _ => .stuck

/-- the translated `CompletionCode::from`: the same variant for 0-5, the same `unreachable!()` panic above -/
theorem cc_from : ∀ b : B,
    run Gen.prog Gen.idx_from_CompletionCode [b.toNat] = resOfCC (CC.ofByte b) := by
  apply forall_byte; decide +kernel

end Mctp.Tie
