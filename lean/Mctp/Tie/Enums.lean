/-
The tie by translation, part 1: the three `From<u8>` conversions and the enums' numeric values.

`Mctp.Gen` is regenerated from /repo's working tree on every run (checker/translate.py): the enums as
Lean inductive types with their discriminants, the conversion functions as MIR.  The theorems below
say that this *translated code* and the hand-written model (`Model/Enums.lean`) are the same function,
for all 256 bytes, variant by variant (by NAME: the maps `genOf*` pair each model constructor with the
Rust variant of the same name and are checked to be bijections that preserve the numeric value, so a
consistent renumbering of two variants does not slip through).
-/
import Mctp.Gen.Source
import Mctp.Model.Enums
namespace Mctp.Tie
open Mctp.Mir

theorem forall_byte (P : B → Prop) (h : ∀ i : Fin 256, P (BitVec.ofFin i)) : ∀ b, P b :=
  fun b => h b.toFin

/-! ### command codes -/

def genOfCmd : Cmd → Gen.CommandCode
  | .reserved => .Reserved | .setEndpointID => .SetEndpointID | .getEndpointID => .GetEndpointID
  | .getEndpointUUID => .GetEndpointUUID | .getMCTPVersionSupport => .GetMCTPVersionSupport
  | .getMessageTypeSupport => .GetMessageTypeSupport
  | .getVendorDefinedMessageSupport => .GetVendorDefinedMessageSupport
  | .resolveEndpointID => .ResolveEndpointID | .allocateEndpointIDs => .AllocateEndpointIDs
  | .routingInformationUpdate => .RoutingInformationUpdate
  | .getRoutingTableEntries => .GetRoutingTableEntries
  | .prepareForEndpointDiscovery => .PrepareForEndpointDiscovery
  | .endpointDiscovery => .EndpointDiscovery | .discoveryNotify => .DiscoveryNotify
  | .getNetworkID => .GetNetworkID | .queryHop => .QueryHop | .resolveUUID => .ResolveUUID
  | .queryRateLimit => .QueryRateLimit | .requestTXRateLimit => .RequestTXRateLimit
  | .updateRateLimit => .UpdateRateLimit | .querySupportedInterfaces => .QuerySupportedInterfaces
  | .unknown => .Unknown

def cmdOfGen : Gen.CommandCode → Cmd
  | .Reserved => .reserved | .SetEndpointID => .setEndpointID | .GetEndpointID => .getEndpointID
  | .GetEndpointUUID => .getEndpointUUID | .GetMCTPVersionSupport => .getMCTPVersionSupport
  | .GetMessageTypeSupport => .getMessageTypeSupport
  | .GetVendorDefinedMessageSupport => .getVendorDefinedMessageSupport
  | .ResolveEndpointID => .resolveEndpointID | .AllocateEndpointIDs => .allocateEndpointIDs
  | .RoutingInformationUpdate => .routingInformationUpdate
  | .GetRoutingTableEntries => .getRoutingTableEntries
  | .PrepareForEndpointDiscovery => .prepareForEndpointDiscovery
  | .EndpointDiscovery => .endpointDiscovery | .DiscoveryNotify => .discoveryNotify
  | .GetNetworkID => .getNetworkID | .QueryHop => .queryHop | .ResolveUUID => .resolveUUID
  | .QueryRateLimit => .queryRateLimit | .RequestTXRateLimit => .requestTXRateLimit
  | .UpdateRateLimit => .updateRateLimit | .QuerySupportedInterfaces => .querySupportedInterfaces
  | .Unknown => .unknown

/-- the Rust enum has exactly the model's variants (no variant added, removed or renamed) -/
theorem cmd_variants : (∀ c, cmdOfGen (genOfCmd c) = c) ∧ (∀ g, genOfCmd (cmdOfGen g) = g) :=
  ⟨fun c => by cases c <;> rfl, fun g => by cases g <;> rfl⟩

/-- `variant as u8` in the code = `Cmd.toByte` in the model -/
theorem cmd_discr (c : Cmd) : (genOfCmd c).discr = c.toByte.toNat := by cases c <;> rfl

/-- the translated `CommandCode::from` returns, for every byte, the variant the model returns -/
theorem cmd_from : ∀ b : B,
    run Gen.prog Gen.idx_from_CommandCode [b.toNat] = .ret (genOfCmd (Cmd.ofByte b)).discr := by
  apply forall_byte; decide +kernel

/-! ### message types -/

def genOfMsg : MsgType → Gen.MessageType
  | .control => .MCtpControl | .spdm => .SpdmOverMctp | .secured => .SecuredMessages
  | .pci => .VendorDefinedPCI | .iana => .VendorDefinedIANA | .invalid => .Invalid

def msgOfGen : Gen.MessageType → MsgType
  | .MCtpControl => .control | .SpdmOverMctp => .spdm | .SecuredMessages => .secured
  | .VendorDefinedPCI => .pci | .VendorDefinedIANA => .iana | .Invalid => .invalid

theorem msg_variants : (∀ c, msgOfGen (genOfMsg c) = c) ∧ (∀ g, genOfMsg (msgOfGen g) = g) :=
  ⟨fun c => by cases c <;> rfl, fun g => by cases g <;> rfl⟩

theorem msg_discr (c : MsgType) : (genOfMsg c).discr = c.toByte.toNat := by cases c <;> rfl

theorem msg_from : ∀ b : B,
    run Gen.prog Gen.idx_from_MessageType [b.toNat] = .ret (genOfMsg (MsgType.ofByte b)).discr := by
  apply forall_byte; decide +kernel

/-! ### completion codes -/

def genOfCC : CC → Gen.CompletionCode
  | .success => .Success | .error => .Error | .errorInvalidData => .ErrorInvalidData
  | .errorInvalidLength => .ErrorInvalidLength | .errorNotReady => .ErrorNotReady
  | .errorUnsupportedCmd => .ErrorUnsupportedCmd

def ccOfGen : Gen.CompletionCode → CC
  | .Success => .success | .Error => .error | .ErrorInvalidData => .errorInvalidData
  | .ErrorInvalidLength => .errorInvalidLength | .ErrorNotReady => .errorNotReady
  | .ErrorUnsupportedCmd => .errorUnsupportedCmd

theorem cc_variants : (∀ c, ccOfGen (genOfCC c) = c) ∧ (∀ g, genOfCC (ccOfGen g) = g) :=
  ⟨fun c => by cases c <;> rfl, fun g => by cases g <;> rfl⟩

theorem cc_discr (c : CC) : (genOfCC c).discr = c.toByte.toNat := by cases c <;> rfl

/-- what the model's `CC.ofByte` outcome looks like as a MIR result -/
def resOfCC : Out Unit CC → Res
  | .ok c => .ret (genOfCC c).discr
  | .panic ⟨.unreachable, _⟩ => .panic .unreachable
  | _ => .stuck

/-- the translated `CompletionCode::from`: the same variant for 0-5, the same `unreachable!()` panic above -/
theorem cc_from : ∀ b : B,
    run Gen.prog Gen.idx_from_CompletionCode [b.toNat] = resOfCC (CC.ofByte b) := by
  apply forall_byte; decide +kernel

end Mctp.Tie
