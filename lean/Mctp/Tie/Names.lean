/-
The tie by translation, part 1a: the three code-point enums of the crate, as regenerated from the
`const E::V::{constant#0}` items of the MIR dump of /repo's working tree, against the model's `Cmd`,
`MsgType`, `CC`: same variants (by NAME - the maps `genOf*` pair each model constructor with the Rust
variant of the same name and are checked to be bijections) with the same numeric values, so that a
consistent renumbering of two variants does not slip through.  No translated function is run here.
-/
import Mctp.Gen.Source
import Mctp.Model.Enums
namespace Mctp.Tie
open Mctp.Mir

theorem forall_byte (P : B → Prop) (h : ∀ i : Fin 256, P (BitVec.ofFin i)) : ∀ b, P b :=
  fun b => h b.toFin

/-! ### command codes -/

def genOfCmd : Cmd → Gen.CommandCode
  | .reserved => .Reserved | .setEndpointID => .SetEndpointID | .getEndpointID => .GetEndpointID
  | .getEndpointUUID => .GetEndpointUUID | .getMCTPVersionSupport => .GetMCTPVersionSupport
  | .getMessageTypeSupport => .GetMessageTypeSupport
  | .getVendorDefinedMessageSupport => .GetVendorDefinedMessageSupport
  | .resolveEndpointID => .ResolveEndpointID | .allocateEndpointIDs => .AllocateEndpointIDs
  | .routingInformationUpdate => .RoutingInformationUpdate
  | .getRoutingTableEntries => .GetRoutingTableEntries
  | .prepareForEndpointDiscovery => .PrepareForEndpointDiscovery
  | .endpointDiscovery => .EndpointDiscovery | .discoveryNotify => .DiscoveryNotify
  | .getNetworkID => .GetNetworkID | .queryHop => .QueryHop | .resolveUUID => .ResolveUUID
  | .queryRateLimit => .QueryRateLimit | .requestTXRateLimit => .RequestTXRateLimit
  | .updateRateLimit => .UpdateRateLimit | .querySupportedInterfaces => .QuerySupportedInterfaces
  | .unknown => .Unknown

def cmdOfGen : Gen.CommandCode → Cmd
  | .Reserved => .reserved | .SetEndpointID => .setEndpointID | .GetEndpointID => .getEndpointID
  | .GetEndpointUUID => .getEndpointUUID | .GetMCTPVersionSupport => .getMCTPVersionSupport
  | .GetMessageTypeSupport => .getMessageTypeSupport
  | .GetVendorDefinedMessageSupport => .getVendorDefinedMessageSupport
  | .ResolveEndpointID => .resolveEndpointID | .AllocateEndpointIDs => .allocateEndpointIDs
  | .RoutingInformationUpdate => .routingInformationUpdate
  | .GetRoutingTableEntries => .getRoutingTableEntries
  | .PrepareForEndpointDiscovery => .prepareForEndpointDiscovery
  | .EndpointDiscovery => .endpointDiscovery | .DiscoveryNotify => .discoveryNotify
  | .GetNetworkID => .getNetworkID | .QueryHop => .queryHop | .ResolveUUID => .resolveUUID
  | .QueryRateLimit => .queryRateLimit | .RequestTXRateLimit => .requestTXRateLimit
  | .UpdateRateLimit => .updateRateLimit | .QuerySupportedInterfaces => .querySupportedInterfaces
  | .Unknown => .unknown

/-- the Rust enum has exactly the model's variants (no variant added, removed or renamed) -/
theorem cmd_variants : (∀ c, cmdOfGen (genOfCmd c) = c) ∧ (∀ g, genOfCmd (cmdOfGen g) = g) :=
  ⟨fun c => by cases c <;> rfl, fun g => by cases g <;> rfl⟩

/-- `variant as u8` in the code = `Cmd.toByte` in the model -/
theorem cmd_discr (c : Cmd) : (genOfCmd c).discr = c.toByte.toNat := by cases c <;> rfl

/-! ### message types -/

def genOfMsg : MsgType → Gen.MessageType
  | .control => .MCtpControl | .spdm => .SpdmOverMctp | .secured => .SecuredMessages
  | .pci => .VendorDefinedPCI | .iana => .VendorDefinedIANA | .invalid => .Invalid

def msgOfGen : Gen.MessageType → MsgType
  | .MCtpControl => .control | .SpdmOverMctp => .spdm | .SecuredMessages => .secured
  | .VendorDefinedPCI => .pci | .VendorDefinedIANA => .iana | .Invalid => .invalid

theorem msg_variants : (∀ c, msgOfGen (genOfMsg c) = c) ∧ (∀ g, genOfMsg (msgOfGen g) = g) :=
  ⟨fun c => by cases c <;> rfl, fun g => by cases g <;> rfl⟩

theorem msg_discr (c : MsgType) : (genOfMsg c).discr = c.toByte.toNat := by cases c <;> rfl

/-! ### completion codes -/

def genOfCC : CC → Gen.CompletionCode
  | .success => .Success | .error => .Error | .errorInvalidData => .ErrorInvalidData
  | .errorInvalidLength => .ErrorInvalidLength | .errorNotReady => .ErrorNotReady
  | .errorUnsupportedCmd => .ErrorUnsupportedCmd

def ccOfGen : Gen.CompletionCode → CC
  | .Success => .success | .Error => .error | .ErrorInvalidData => .errorInvalidData
  | .ErrorInvalidLength => .errorInvalidLength | .ErrorNotReady => .errorNotReady
  | .ErrorUnsupportedCmd => .errorUnsupportedCmd

theorem cc_variants : (∀ c, ccOfGen (genOfCC c) = c) ∧ (∀ g, genOfCC (ccOfGen g) = g) :=
  ⟨fun c => by cases c <;> rfl, fun g => by cases g <;> rfl⟩

theorem cc_discr (c : CC) : (genOfCC c).discr = c.toByte.toNat := by cases c <;> rfl

end Mctp.Tie
