/-
The tie by translation, part 3: the seven `bitfield!` declarations of the crate, as read from the
source text of /repo's working tree (struct, bit order, accessor names, msb, lsb, value type), against
the `Field` records of `Model/Views.lean` that every C18 theorem (and, through the header builders and
parsers, every encoder and decoder theorem) is about.  Each statement says: the struct declares exactly
these accessors, in this order, with exactly these bit ranges.
-/
import Mctp.Gen.Source
import Mctp.Model.Views
namespace Mctp.Tie

theorem smbus_header_fields : Gen.MCTPSMBusHeader.fields =
    [("dest_read_write", "set_dest_read_write", SMBusHdr.destReadWrite),
     ("dest_slave_addr", "set_dest_slave_addr", SMBusHdr.destSlaveAddr),
     ("command_code", "set_command_code", SMBusHdr.commandCode),
     ("byte_count", "set_byte_count", SMBusHdr.byteCount),
     ("source_read_write", "set_source_read_write", SMBusHdr.sourceReadWrite),
     ("source_slave_addr", "set_source_slave_addr", SMBusHdr.sourceSlaveAddr)] := rfl

theorem routing_entry_fields : Gen.SMBusRoutingInformationUpdateEntry.fields =
    [("entry_type", "set_entry_type", RoutingEntry.entryType),
     ("_rsvd", "_", ⟨false, 7, 4, 8⟩),
     ("eid_range_size", "set_eid_range_size", RoutingEntry.eidRangeSize),
     ("first_eid", "set_first_eid", RoutingEntry.firstEid),
     ("physical_address", "set_physical_address", RoutingEntry.physicalAddress)] := rfl

theorem transport_header_fields : Gen.MCTPTransportHeader.fields =
    [("rsvd", "_", TransportHdr.rsvd),
     ("hdr_version", "set_hdr_version", TransportHdr.hdrVersion),
     ("dest_endpoint_id", "set_dest_endpoint_id", TransportHdr.destEndpointId),
     ("source_endpoint_id", "set_source_endpoint_id", TransportHdr.sourceEndpointId),
     ("som", "set_som", TransportHdr.som),
     ("eom", "set_eom", TransportHdr.eom),
     ("pkt_seq", "set_pkt_seq", TransportHdr.pktSeq),
     ("to", "set_to", TransportHdr.to),
     ("msg_tag", "set_msg_tag", TransportHdr.msgTag)] := rfl

theorem body_header_fields : Gen.MCTPMessageBodyHeader.fields =
    [("ic", "set_ic", BodyHdr.ic), ("msg_type", "set_msg_type", BodyHdr.msgType)] := rfl

theorem control_header_fields : Gen.MCTPControlMessageHeader.fields =
    [("rq", "set_rq", CtrlHdr.rq), ("d", "set_d", CtrlHdr.d), ("rsvd", "_", CtrlHdr.rsvd),
     ("instance_id", "set_instance_id", CtrlHdr.instanceId),
     ("command_code", "set_command_code", CtrlHdr.commandCode)] := rfl

theorem pci_format_fields : Gen.PCIMessageFormat.fields =
    [("vendor_id", "set_vendor_id", PciFmt.vendorId)] := rfl

theorem iana_format_fields : Gen.IANAMessageFormat.fields =
    [("vendor_id", "set_vendor_id", IanaFmt.vendorId)] := rfl

/-- the crate declares these seven views and no other -/
theorem views : Gen.bitfieldStructs =
    ["MCTPTransportHeader", "MCTPMessageBodyHeader", "MCTPControlMessageHeader", "MCTPSMBusHeader",
     "SMBusRoutingInformationUpdateEntry", "PCIMessageFormat", "IANAMessageFormat"] := rfl

end Mctp.Tie
