/-
The tie by translation, part 5: property statements about the TRANSLATED code itself, measured against
the L2 specification tables - the hand-written model does not appear in these statements.  They are what
C19 (code points) and the length clauses of C09 / C10 say, for the functions `rustc` compiled from
/repo's working tree; what is trusted for them is the translator and `Mir/Sem.lean` only.
-/
import Mctp.Tie.Tables
import Mctp.Tie.Enums
import Mctp.Mir.Meta
import Mctp.Spec.Layout
import Mctp.Spec.Accept
namespace Mctp.Tie
open Mctp.Mir

/-! ### C19, on the translated conversions -/

/-- every byte of DSP0236 table 12 converts to the variant of that name, every other byte to `Unknown` -/
theorem cmd_code_points : ∀ b : B,
    run Gen.prog Gen.idx_from_CommandCode [b.toNat] =
      .ret (match C19.cmdTable.lookup b with
            | some c => (genOfCmd c).discr
            | none => Gen.CommandCode.Unknown.discr) := by
  apply forall_byte; decide +kernel

/-- the conversion inverts `variant as u8` on every defined variant -/
theorem cmd_inverts (g : Gen.CommandCode) (h : g ≠ .Unknown) :
    run Gen.prog Gen.idx_from_CommandCode [g.discr] = .ret g.discr := by
  cases g <;> first | (exact absurd rfl h) | decide +kernel

theorem msg_code_points : ∀ b : B,
    run Gen.prog Gen.idx_from_MessageType [b.toNat] =
      .ret (match C19.msgTable.lookup b with
            | some c => (genOfMsg c).discr
            | none => Gen.MessageType.Invalid.discr) := by
  apply forall_byte; decide +kernel

theorem msg_inverts (g : Gen.MessageType) (h : g ≠ .Invalid) :
    run Gen.prog Gen.idx_from_MessageType [g.discr] = .ret g.discr := by
  cases g <;> first | (exact absurd rfl h) | decide +kernel

/-- completion codes 0-5 convert to their own variants; anything above is `unreachable!()` (finding D10) -/
theorem cc_code_points : ∀ b : B,
    run Gen.prog Gen.idx_from_CompletionCode [b.toNat] =
      (match C19.ccTable.lookup b with
       | some c => .ret (genOfCC c).discr
       | none => .panic .unreachable) := by
  apply forall_byte; decide +kernel

theorem cc_inverts (g : Gen.CompletionCode) :
    run Gen.prog Gen.idx_from_CompletionCode [g.discr] = .ret g.discr := by
  cases g <;> decide +kernel

/-! ### the expected-length tables, against the acceptance predicate of C09 and the panic classes of C10 -/

/-- request commands: exactly the commands from 0x09 up hit `unimplemented!()` (finding D3); every other
command has the fixed length the specification's acceptance predicate uses (0 = any length) -/
theorem req_len_spec : ∀ b : B,
    run Gen.prog Gen.idx_get_request_data_len [b.toNat] =
      if Spec.reqUnimpl b then .panic .unimplemented else .ret ((Spec.reqFixed b).getD 0) := by
  apply forall_byte; decide +kernel

/-- response commands: `unimplemented!()` exactly on the class of finding D3; otherwise, outside the three
commands C09 excludes (0x02, 0x08, 0x09), the fixed length of the acceptance predicate -/
theorem resp_len_spec : ∀ b : B,
    run Gen.prog Gen.idx_get_response_data_len [b.toNat] =
      if Spec.respUnimpl b then .panic .unimplemented
      else if b = 0x02#8 then .ret 4          -- finding D2: the encoder writes 3
      else if b = 0x08#8 then .ret 4
      else if b = 0x09#8 then .ret 1
      else .ret ((Spec.respFixed b).getD 0) := by
  apply forall_byte; decide +kernel

/-! ### the fuel bound in these statements is not part of their meaning (`Mir/Meta.lean`) -/

theorem cmd_code_points_any_fuel (b : B) (k : Nat) :
    run Gen.prog Gen.idx_from_CommandCode [b.toNat] (64 + k) =
      .ret (match C19.cmdTable.lookup b with
            | some c => (genOfCmd c).discr
            | none => Gen.CommandCode.Unknown.discr) :=
  run_fuel_mono _ _ _ 64 k _ (cmd_code_points b) (by simp)

theorem req_len_spec_any_fuel (b : B) (k : Nat) :
    run Gen.prog Gen.idx_get_request_data_len [b.toNat] (64 + k) =
      if Spec.reqUnimpl b then .panic .unimplemented else .ret ((Spec.reqFixed b).getD 0) :=
  run_fuel_mono _ _ _ 64 k _ (req_len_spec b) (by split <;> simp)

end Mctp.Tie
