/-
The tie by translation, part 4: the crate's integer constants and the `as u8` values of the enums
that encoder arguments are drawn from, against the places where the model uses them.
-/
import Mctp.Gen.Source
import Mctp.Lemmas.Encode
import Mctp.Props.C17
namespace Mctp.Tie

/-- `MCTP_SMBUS_MAX_BODY_LEN` is the model's `maxBodyLen` (C04 / C16: the refusal threshold) -/
theorem max_body_len : Gen.MCTP_SMBUS_MAX_BODY_LEN = maxBodyLen := rfl

/-- `HDR_VERSION` is the version every modelled transport header carries (C05) -/
theorem hdr_version (a d : B) : byteAt (transportHeader a d) 0 = BitVec.ofNat 8 Gen.HDR_VERSION := by
  rw [transportHeader_eq]; rfl

/-- `MCTP_SMBUS_COMMAND_CODE` is the command byte every modelled SMBus header carries (C04) and the one
the modelled length probe compares with (C17) -/
theorem smbus_command_code (a d : B) :
    byteAt (smbusHeader a d) 1 = BitVec.ofNat 8 Gen.MCTP_SMBUS_COMMAND_CODE := by
  rw [smbusHeader_eq]; rfl

theorem probe_command_code (p : Bytes) (n : Nat) (h : getLength p = .ok n) :
    (byteAt p 1).toNat = Gen.MCTP_SMBUS_COMMAND_CODE := by
  rw [C17.spec] at h
  split at h
  · cases h
  · split at h
    · rename_i hb; rw [hb]; rfl
    · cases h

/-! ### the numeric values of the argument enums (`variant as u8`), in declaration order -/

theorem set_eid_operations : Gen.MCTPSetEndpointIDOperations.all.map (·.discr) = ArgEnum.setEidOp := rfl
theorem version_query : Gen.MCTPVersionQuery.all.map (·.discr) = ArgEnum.versionQuery := rfl
theorem allocate_operation : Gen.AllocateEndpointIDOperation.all.map (·.discr) = ArgEnum.allocOp := rfl
theorem message_type_values : Gen.MessageType.all.map (·.discr) = ArgEnum.msgType := rfl
theorem completion_code_values : Gen.CompletionCode.all.map (·.discr) = ArgEnum.completionCode := rfl
theorem assignment_status : Gen.MCTPSetEndpointIDAssignmentStatus.all.map (·.discr) = ArgEnum.assignStatus := rfl
theorem allocation_status : Gen.MCTPSetEndpointIDAllocationStatus.all.map (·.discr) = ArgEnum.allocStatus := rfl
theorem endpoint_type : Gen.MCTPGetEndpointIDEndpointType.all.map (·.discr) = ArgEnum.endpointType := rfl
theorem endpoint_id_type : Gen.MCTPGetEndpointIDEndpointIDType.all.map (·.discr) = ArgEnum.endpointIdType := rfl
theorem routing_entry_type : Gen.RoutingInformationUpdateEntryType.all.map (·.discr) = ArgEnum.routingEntryType := rfl

/-- the crate declares these field-less enums and no other -/
theorem enums : Gen.enumNames =
    ["AllocateEndpointIDOperation", "CommandCode", "CompletionCode", "MCTPGetEndpointIDEndpointIDType",
     "MCTPGetEndpointIDEndpointType", "MCTPSetEndpointIDAllocationStatus", "MCTPSetEndpointIDAssignmentStatus",
     "MCTPSetEndpointIDOperations", "MCTPVersionQuery", "MessageType", "RoutingInformationUpdateEntryType"] := rfl

end Mctp.Tie
