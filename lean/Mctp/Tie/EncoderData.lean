/-
The tie by translation, part 7: the message data of the 18 request encoders that write it as one array
literal (all but `routing_information_update`, `resolve_uuid` and `vendor_defined`).  From each method's
MIR the translator resolves the array handed to `generate_control_packet_bytes` back to the method's
parameters (following moves, reborrows, the unsizing coercion and `discriminant … as u8` casts; any
second assignment, indexed write or `&mut` borrow of the array makes the method "skipped").
`encoder_data` says every resolved layout is the entry of `dataTable` for that method; `model_data` says that the model's encoders (`Enc.body`)
emit exactly those parameters, in that order, and nothing else - the parameter clause of C06.
-/
import Mctp.Tie.Encoders
import Mctp.Mir.Data
namespace Mctp.Tie
open Mctp.Mir

/-- the command's own arguments of a modelled call, in the order of the Rust method's parameters
(`_3`, `_4`, …; enum arguments as their `as u8` value, which is how the model takes them) -/
def callArgs : Enc → List B
  | .reqSetEid op e => [op, e]
  | .reqVersion q => [q]
  | .reqVendor s => [s]
  | .reqResolveEid e => [e]
  | .reqAllocate op n f => [op, n, f]
  | .reqGetRouting h => [h]
  | .reqQueryHop e t => [e, t]
  | _ => []

def evalElem (as : List B) : DataElem → B
  | .param i => as.getD (i - 3) 0
  | .enumU8 i => as.getD (i - 3) 0
  | .const v => BitVec.ofNat 8 v

def dataTable : List (String × List DataElem) :=
  [("smbus_request::set_endpoint_id", [.enumU8 3, .param 4]),
   ("smbus_request::get_endpoint_id", []),
   ("smbus_request::get_endpoint_uuid", []),
   ("smbus_request::get_mctp_version_support", [.enumU8 3]),
   ("smbus_request::get_message_type_suport", []),
   ("smbus_request::get_vendor_defined_message_support", [.param 3]),
   ("smbus_request::resolve_endpoint_id", [.param 3]),
   ("smbus_request::allocate_endpoint_ids", [.enumU8 3, .param 4, .param 5]),
   ("smbus_request::get_routing_table_entries", [.param 3]),
   ("smbus_request::prepare_for_endpoint_discovery", []),
   ("smbus_request::endpoint_discovery", []),
   ("smbus_request::discovery_notify", []),
   ("smbus_request::get_network_id", []),
   ("smbus_request::query_hop", [.param 3, .enumU8 4]),
   ("smbus_request::query_rate_limit", []),
   ("smbus_request::request_tx_rate_limit", []),
   ("smbus_request::update_rate_limmit", []),
   ("smbus_request::query_supported_interfaces", [])]

/-- every message-data layout the translator could resolve from the MIR of a request encoder is the
table's entry for that method.  (Methods it cannot resolve are listed in `Gen.encoderDataSkipped` and in
the evidence, and are tied by the correspondence run only; on the pinned tree 18 are resolved and
`routing_information_update`, `resolve_uuid`, `vendor_defined` are skipped.) -/
theorem encoder_data : Gen.encoderData.all (fun x => dataTable.contains x) = true := by decide

/-- the model's encoders emit exactly the table's elements, evaluated on the call's arguments -/
theorem model_data (c : Ctx) (e : Enc) (t : MsgType) (h : Option Bytes) (d : Bytes) (n : String)
    (l : List DataElem) (hb : e.body c = .ok (t, h, d)) (hn : rustName e = some n)
    (hl : (n, l) ∈ dataTable) : d = l.map (evalElem (callArgs e)) := by
  cases e <;> simp only [rustName, Option.some.injEq, reduceCtorEq] at hn <;> subst hn <;>
    simp only [Enc.body] at hb <;> (try split at hb) <;> (try split at hb) <;>
    first
      | (cases hb; done)
      | (simp [dataTable] at hl; done)
      | (simp only [Out.ok.injEq, Prod.mk.injEq] at hb
         obtain ⟨rfl, rfl, rfl⟩ := hb
         simp [dataTable] at hl
         subst hl
         simp [evalElem, callArgs])

end Mctp.Tie
