/-
The tie by translation, part 8: the dispatch of `process_packet` on the request's command.  From the
MIR of `process_packet` the translator takes the one `switchInt` over the discriminant of a
`CommandCode` that has an arm for every variant, and records for each variant what only that arm does
(the blocks reachable from it and from no other arm): the response encoders it calls
(`respond:<method>`), whether it stores an EID (`store-eid:request` / `store-eid:response`) and the
panics it contains (`panic:unimplemented`, `panic:unreachable`).

The statements below are what C13, C11 / C12 and C10 need from that dispatch, in a form that a
refactoring cannot break by moving code into helpers (tokens may disappear, they must not appear in the
wrong arm):
* `stores_only_in_set_eid` - no arm other than Set Endpoint ID stores an EID (C13: "nothing else changes it");
* `responds_with_own_encoder` - an arm that calls a response encoder calls the encoder of its own command
  and no other (C11 / C12: the response has the request's command code);
* `panics_only_in_known_arms` - `unimplemented!()` / `unreachable!()` occur only in the arms the known
  finding D11 names (C10): command 0, Set Endpoint ID (operations 2 and >= 4), Get Vendor Defined
  Message Support (`unreachable!()` on a vendor format other than 0 / 1, excluded by the valid-configuration
  hypothesis), Resolve / Allocate and the commands without a handler.
The model side of the same facts: `C13.frame`, `C11.requests_answered`, `C12.answer_partial`,
`C10.process_panic_iff`.
-/
import Mctp.Gen.Source
namespace Mctp.Tie

/-- the response encoder a command's arm may call -/
def ownEncoder : Gen.CommandCode → Option String
  | .SetEndpointID => some "respond:set_endpoint_id"
  | .GetEndpointID => some "respond:get_endpoint_id"
  | .GetEndpointUUID => some "respond:get_endpoint_uuid"
  | .GetMCTPVersionSupport => some "respond:get_mctp_version_support"
  | .GetMessageTypeSupport => some "respond:get_message_type_suport"
  | .GetVendorDefinedMessageSupport => some "respond:get_vendor_defined_message_support"
  | _ => none

def respondTokens : List String :=
  ["respond:set_endpoint_id", "respond:get_endpoint_id", "respond:get_endpoint_uuid",
   "respond:get_mctp_version_support", "respond:get_message_type_suport",
   "respond:get_vendor_defined_message_support"]

/-- the six commands the responder answers: their arms must not contain `unimplemented!()`, and only
Set Endpoint ID and Get Vendor Defined Message Support may contain `unreachable!()` -/
def mayPanic (v : Gen.CommandCode) (t : String) : Bool :=
  match v with
  | .GetEndpointID | .GetEndpointUUID | .GetMCTPVersionSupport | .GetMessageTypeSupport => false
  | .GetVendorDefinedMessageSupport => t == "panic:unreachable"
  | _ => true

theorem stores_only_in_set_eid :
    Gen.processDispatch.all (fun (v, ts) =>
      (!ts.contains "store-eid:request" && !ts.contains "store-eid:response") || v == .SetEndpointID) = true := by
  decide

theorem responds_with_own_encoder :
    Gen.processDispatch.all (fun (v, ts) =>
      ts.all fun t => !respondTokens.contains t || ownEncoder v == some t) = true := by
  decide

theorem panics_only_in_known_arms :
    Gen.processDispatch.all (fun (v, ts) =>
      ts.all fun t => !(t == "panic:unimplemented" || t == "panic:unreachable" || t == "panic:other") || mayPanic v t) = true := by
  decide

/-- every variant has an arm (the dispatch the translator found is total) -/
theorem dispatch_total : Gen.processDispatch.map (·.1) = Gen.CommandCode.all := by decide

end Mctp.Tie
