/-
The tie by translation, part 6: the control-header constants of the 26 public control encoders
(20 requests, 6 responses).  From the MIR of every method of `smbus_request.rs` / `smbus_response.rs`
that returns `Result<usize, ()>` the translator reads the one call
`MCTPControlMessageHeader::new(<Rq>, <D>, <instance id>, CommandCode::<V>)` and the back end the method
hands its data to.  `encoder_headers` says that every entry of this list is the entry of `rustTable` for
that method (with D = 0, instance id 0 and `generate_control_packet_bytes`); `model_uses_table` says that `rustTable` is what
the model's encoders (`Enc.body`) put in front of their data.  Together: the Rq bit, D bit, instance id
and command code of C06 / C07 are read from the source, not transcribed.  The entry for `query_hop`
(`GetNetworkID`, finding D5) and the three stubs that reuse `RequestTXRateLimit` are as in the source.
-/
import Mctp.Tie.Names
import Mctp.Model.Encode
namespace Mctp.Tie

/-- the Rust method a modelled encoder call stands for (`none`: not a control encoder) -/
def rustName : Enc → Option String
  | .reqSetEid .. => some "smbus_request::set_endpoint_id"
  | .reqGetEid => some "smbus_request::get_endpoint_id"
  | .reqGetUuid => some "smbus_request::get_endpoint_uuid"
  | .reqVersion .. => some "smbus_request::get_mctp_version_support"
  | .reqMsgTypes => some "smbus_request::get_message_type_suport"
  | .reqVendor .. => some "smbus_request::get_vendor_defined_message_support"
  | .reqResolveEid .. => some "smbus_request::resolve_endpoint_id"
  | .reqAllocate .. => some "smbus_request::allocate_endpoint_ids"
  | .reqRouting .. => some "smbus_request::routing_information_update"
  | .reqGetRouting .. => some "smbus_request::get_routing_table_entries"
  | .reqPrepare => some "smbus_request::prepare_for_endpoint_discovery"
  | .reqDiscovery => some "smbus_request::endpoint_discovery"
  | .reqNotify => some "smbus_request::discovery_notify"
  | .reqNetworkId => some "smbus_request::get_network_id"
  | .reqQueryHop .. => some "smbus_request::query_hop"
  | .reqResolveUuid .. => some "smbus_request::resolve_uuid"
  | .reqQueryRate => some "smbus_request::query_rate_limit"
  | .reqTxRate => some "smbus_request::request_tx_rate_limit"
  | .reqUpdateRate => some "smbus_request::update_rate_limmit"
  | .reqQueryIfaces => some "smbus_request::query_supported_interfaces"
  | .respSetEid .. => some "smbus_response::set_endpoint_id"
  | .respGetEid .. => some "smbus_response::get_endpoint_id"
  | .respUuid .. => some "smbus_response::get_endpoint_uuid"
  | .respVersion .. => some "smbus_response::get_mctp_version_support"
  | .respMsgTypes .. => some "smbus_response::get_message_type_suport"
  | .respVendor .. => some "smbus_response::get_vendor_defined_message_support"
  | .vendorDefined .. | .genControl .. | .genPci .. | .genIana .. | .genSpdm .. => none

/-- method, Rq bit, command code -/
def rustTable : List (String × Bool × Cmd) :=
  [("smbus_request::set_endpoint_id", true, .setEndpointID),
   ("smbus_request::get_endpoint_id", true, .getEndpointID),
   ("smbus_request::get_endpoint_uuid", true, .getEndpointUUID),
   ("smbus_request::get_mctp_version_support", true, .getMCTPVersionSupport),
   ("smbus_request::get_message_type_suport", true, .getMessageTypeSupport),
   ("smbus_request::get_vendor_defined_message_support", true, .getVendorDefinedMessageSupport),
   ("smbus_request::resolve_endpoint_id", true, .resolveEndpointID),
   ("smbus_request::allocate_endpoint_ids", true, .allocateEndpointIDs),
   ("smbus_request::routing_information_update", true, .routingInformationUpdate),
   ("smbus_request::get_routing_table_entries", true, .getRoutingTableEntries),
   ("smbus_request::prepare_for_endpoint_discovery", true, .prepareForEndpointDiscovery),
   ("smbus_request::endpoint_discovery", true, .endpointDiscovery),
   ("smbus_request::discovery_notify", true, .discoveryNotify),
   ("smbus_request::get_network_id", true, .getNetworkID),
   ("smbus_request::query_hop", true, .getNetworkID),                  -- finding D5
   ("smbus_request::resolve_uuid", true, .resolveUUID),
   ("smbus_request::query_rate_limit", true, .queryRateLimit),
   ("smbus_request::request_tx_rate_limit", true, .requestTXRateLimit),
   ("smbus_request::update_rate_limmit", true, .requestTXRateLimit),      -- stub, ends in unimplemented!()
   ("smbus_request::query_supported_interfaces", true, .requestTXRateLimit),   -- stub
   ("smbus_response::set_endpoint_id", false, .setEndpointID),
   ("smbus_response::get_endpoint_id", false, .getEndpointID),
   ("smbus_response::get_endpoint_uuid", false, .getEndpointUUID),
   ("smbus_response::get_mctp_version_support", false, .getMCTPVersionSupport),
   ("smbus_response::get_message_type_suport", false, .getMessageTypeSupport),
   ("smbus_response::get_vendor_defined_message_support", false, .getVendorDefinedMessageSupport)]

/-- the table in the shape the translator emits: D = 0 and instance id 0 everywhere, and every encoder
hands its data to `generate_control_packet_bytes` -/
def expectedHeaders : List (String × Bool × Bool × Nat × Gen.CommandCode × String) :=
  rustTable.map fun (n, rq, c) => (n, rq, false, 0, genOfCmd c, "generate_control_packet_bytes")

/-- every header the translator could read from the MIR of a public encoder is the table's entry for
that method.  (A method whose header is not built by one call with constant arguments - after a
refactoring through a helper, say - is not in `Gen.encoderHeaders`; it is listed as skipped in the
evidence and is tied by the correspondence run only.  On the pinned tree all 26 are read.) -/
theorem encoder_headers : Gen.encoderHeaders.all (fun x => expectedHeaders.contains x) = true := by
  decide

/-- and the table is what the model's encoders use: whenever a modelled control encoder produces a body,
it is a control message whose additional header is `MCTPControlMessageHeader::new(rq, false, 0, cmd)` for
the table's entry of that method -/
theorem model_uses_table (c : Ctx) (e : Enc) (t : MsgType) (h : Option Bytes) (d : Bytes) (n : String)
    (hb : e.body c = .ok (t, h, d)) (hn : rustName e = some n) :
    ∃ rq cmd, (n, rq, cmd) ∈ rustTable ∧ t = .control ∧ h = some (ctrlHeader rq cmd) := by
  cases e <;> simp only [rustName, Option.some.injEq, reduceCtorEq] at hn <;> subst hn <;>
    simp only [Enc.body] at hb <;> (try split at hb) <;> (try split at hb) <;>
    first
      | (cases hb; done)
      | (simp only [Out.ok.injEq, Prod.mk.injEq] at hb
         obtain ⟨rfl, rfl, rfl⟩ := hb
         refine ⟨_, _, ?_, rfl, rfl⟩
         simp [rustTable])

/-- every method of the table is modelled by some constructor (nothing the translator found is left out) -/
theorem table_covered : ∀ r ∈ rustTable, ∃ e : Enc, rustName e = some r.1 := by
  intro r hr
  simp only [rustTable, List.mem_cons, List.mem_nil_iff, or_false] at hr
  rcases hr with rfl | rfl | rfl | rfl | rfl | rfl | rfl | rfl | rfl | rfl | rfl | rfl | rfl | rfl | rfl | rfl |
    rfl | rfl | rfl | rfl | rfl | rfl | rfl | rfl | rfl | rfl
  · exact ⟨.reqSetEid 0 0, rfl⟩
  · exact ⟨.reqGetEid, rfl⟩
  · exact ⟨.reqGetUuid, rfl⟩
  · exact ⟨.reqVersion 0, rfl⟩
  · exact ⟨.reqMsgTypes, rfl⟩
  · exact ⟨.reqVendor 0, rfl⟩
  · exact ⟨.reqResolveEid 0, rfl⟩
  · exact ⟨.reqAllocate 0 0 0, rfl⟩
  · exact ⟨.reqRouting [], rfl⟩
  · exact ⟨.reqGetRouting 0, rfl⟩
  · exact ⟨.reqPrepare, rfl⟩
  · exact ⟨.reqDiscovery, rfl⟩
  · exact ⟨.reqNotify, rfl⟩
  · exact ⟨.reqNetworkId, rfl⟩
  · exact ⟨.reqQueryHop 0 0, rfl⟩
  · exact ⟨.reqResolveUuid [] 0, rfl⟩
  · exact ⟨.reqQueryRate, rfl⟩
  · exact ⟨.reqTxRate, rfl⟩
  · exact ⟨.reqUpdateRate, rfl⟩
  · exact ⟨.reqQueryIfaces, rfl⟩
  · exact ⟨.respSetEid 0 false 0, rfl⟩
  · exact ⟨.respGetEid 0 0 0 false, rfl⟩
  · exact ⟨.respUuid 0 [], rfl⟩
  · exact ⟨.respVersion 0, rfl⟩
  · exact ⟨.respMsgTypes 0 [], rfl⟩
  · exact ⟨.respVendor 0 0 [], rfl⟩

end Mctp.Tie
