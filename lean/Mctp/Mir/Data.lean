/-
How a request encoder writes its message data, as the translator reads it from the method's MIR: an
array literal whose elements are parameters of the method (by MIR local index: `_1` is `self`, `_2` the
destination address, `_3 …` the command's own parameters), enum parameters cast with `as u8`, or
constants.
-/
namespace Mctp.Mir

inductive DataElem
  | param (i : Nat)
  | enumU8 (i : Nat)
  | const (v : Nat)
  deriving DecidableEq, Repr

end Mctp.Mir
