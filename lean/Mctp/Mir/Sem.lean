/-
A small-step semantics, in Lean, for the fragment of rustc's MIR (mir-opt-level 0) that the scalar
table functions of libmctp compile to: integer locals, constants, copies, casts, comparisons and
bit operations, `discriminant`, `switchInt`, `goto`, `return`, calls of other translated functions and
calls of `panic`.  `checker/translate.py` parses the MIR text that `rustc --emit=mir` prints for
/repo's *current* working tree into values of `Fn` (a purely syntactic step); what that syntax MEANS is
fixed here, once, and `Mctp/Tie/*.lean` proves that the functions so obtained compute exactly what the
hand-written model says, for every input.

Conventions of the translation (trusted, listed in DESIGN.md):
* every value is a natural number: integers are themselves, `bool` is 0/1, a field-less enum value is
  its discriminant (`_0 = CommandCode::GetEndpointID` becomes `assign 0 (const 2)`, the number being
  read from the `const CommandCode::GetEndpointID::{constant#0}` item of the same MIR dump);
* `&(*_1)` and moves are copies (no aliasing can be observed in this fragment: nothing is written
  through a reference);
* the trait accessor `Self::command_code(&self)` of `MCTPControlMessageRequest` is abstract in the two
  length tables: `self` stands for the command byte it returns;
* anything outside the fragment is translated to `Term.unsupported`, on which evaluation is `stuck`
  (so no theorem about such a function can be proved by accident).
-/
namespace Mctp.Mir

inductive BinOp
  | bitAnd | bitOr | bitXor | eq | ne | lt | le | gt | ge
  deriving DecidableEq, Repr

inductive Operand
  | loc (i : Nat)
  | const (v : Nat)
  deriving DecidableEq, Repr

inductive Stmt
  | assign (dst : Nat) (src : Operand)
  | binop (dst : Nat) (op : BinOp) (a b : Operand)
  | cast (dst : Nat) (src : Operand) (bits : Nat)
  deriving DecidableEq, Repr

inductive PanicMsg
  | unimplemented | unreachable | other
  deriving DecidableEq, Repr

inductive Term
  | goto (bb : Nat)
  | switch (d : Operand) (arms : List (Nat × Nat)) (otherwise : Nat)
  | ret
  | panic (k : PanicMsg)
  | call (dst : Nat) (fn : Nat) (args : List Operand) (next : Nat)
  | unreachable
  | unsupported
  deriving Repr

structure Block where
  stmts : List Stmt
  term : Term
  deriving Repr

structure Fn where
  nlocals : Nat
  blocks : List Block
  deriving Repr

abbrev Prog := List Fn

inductive Res
  | ret (v : Nat)
  | panic (k : PanicMsg)
  | stuck
  deriving DecidableEq, Repr

def getL (ls : List Nat) (i : Nat) : Nat := ls.getD i 0

def evalOp (ls : List Nat) : Operand → Nat
  | .loc i => getL ls i
  | .const v => v

def b2n (b : Bool) : Nat := if b then 1 else 0

def evalBin (op : BinOp) (a b : Nat) : Nat :=
  match op with
  | .bitAnd => a &&& b
  | .bitOr => a ||| b
  | .bitXor => a ^^^ b
  | .eq => b2n (a == b)
  | .ne => b2n (a != b)
  | .lt => b2n (decide (a < b))
  | .le => b2n (decide (a ≤ b))
  | .gt => b2n (decide (a > b))
  | .ge => b2n (decide (a ≥ b))

def execStmt (ls : List Nat) : Stmt → List Nat
  | .assign d s => ls.set d (evalOp ls s)
  | .binop d op a b => ls.set d (evalBin op (evalOp ls a) (evalOp ls b))
  | .cast d s bits => ls.set d (evalOp ls s % 2 ^ bits)

def lookupArm (v : Nat) : List (Nat × Nat) → Nat → Nat
  | [], o => o
  | (k, bb) :: rest, o => if v = k then bb else lookupArm v rest o

/-- locals of a fresh frame: `_0` (return place), then the arguments, then zeros -/
def frame (f : Fn) (args : List Nat) : List Nat :=
  (0 :: args) ++ List.replicate (f.nlocals - (args.length + 1)) 0

/-- run block `bb` of function `fi` with locals `ls`; every block entered costs one unit of fuel -/
def exec (p : Prog) : Nat → Nat → List Nat → Nat → Res
  | 0, _, _, _ => .stuck
  | fuel + 1, fi, ls, bb =>
    match p[fi]? with
    | none => .stuck
    | some f =>
      match f.blocks[bb]? with
      | none => .stuck
      | some blk =>
        let ls := blk.stmts.foldl execStmt ls
        match blk.term with
        | .goto n => exec p fuel fi ls n
        | .switch d arms o => exec p fuel fi ls (lookupArm (evalOp ls d) arms o)
        | .ret => .ret (getL ls 0)
        | .panic k => .panic k
        | .unreachable => .stuck
        | .unsupported => .stuck
        | .call dst g args next =>
          match p[g]? with
          | none => .stuck
          | some gf =>
            match exec p fuel g (frame gf (args.map (evalOp ls))) 0 with
            | .ret v => exec p fuel fi (ls.set dst v) next
            | r => r

/-- call function `fi` of program `p` on `args` -/
def run (p : Prog) (fi : Nat) (args : List Nat) (fuel : Nat := 64) : Res :=
  match p[fi]? with
  | none => .stuck
  | some f => exec p fuel fi (frame f args) 0

end Mctp.Mir
