/-
Meta-theory of the MIR-fragment interpreter: the fuel argument is not part of the meaning.  A result
that is reached (`ret` or `panic`) is the same for every larger amount of fuel, so the default fuel of
`Mir.run` (64 block entries) in the statements of `Mctp/Tie` is only a bound that happens to suffice.
-/
import Mctp.Mir.Sem
namespace Mctp.Mir

/-- more fuel never changes a result that was reached: the default fuel of `run` is not part of the meaning -/
theorem exec_fuel_mono (p : Prog) : ∀ (n : Nat) (fi : Nat) (ls : List Nat) (bb : Nat) (r : Res),
    exec p n fi ls bb = r → r ≠ .stuck → ∀ k, exec p (n + k) fi ls bb = r := by
  intro n
  induction n with
  | zero => intro fi ls bb r h hr; simp [exec] at h; exact absurd h.symm hr
  | succ n ih =>
    intro fi ls bb r h hr k
    have e : n + 1 + k = (n + k) + 1 := by omega
    rw [e]
    unfold exec at h ⊢
    cases hf : p[fi]? with
    | none => simp only [hf] at h; exact absurd h.symm hr
    | some f =>
      simp only [hf] at h ⊢
      cases hb : f.blocks[bb]? with
      | none => simp only [hb] at h; exact absurd h.symm hr
      | some blk =>
        simp only [hb] at h ⊢
        cases ht : blk.term with
        | goto n' => simp only [ht] at h ⊢; exact ih _ _ _ _ h hr k
        | switch d arms o => simp only [ht] at h ⊢; exact ih _ _ _ _ h hr k
        | ret => simp only [ht] at h ⊢; exact h
        | panic kk => simp only [ht] at h ⊢; exact h
        | unreachable => simp only [ht] at h; exact absurd h.symm hr
        | unsupported => simp only [ht] at h; exact absurd h.symm hr
        | call dst g args next =>
          simp only [ht] at h ⊢
          cases hg : p[g]? with
          | none => simp only [hg] at h; exact absurd h.symm hr
          | some gf =>
            simp only [hg] at h ⊢
            cases hc : exec p n g (frame gf (List.map (evalOp (List.foldl execStmt ls blk.stmts)) args)) 0 with
            | ret v =>
              simp only [hc] at h
              have hv' := ih _ _ _ (.ret v) hc (by simp) k
              simp only [hv']
              exact ih _ _ _ _ h hr k
            | panic kk =>
              simp only [hc] at h
              have hv' := ih _ _ _ (.panic kk) hc (by simp) k
              simp only [hv']
              exact h
            | stuck =>
              simp only [hc] at h
              exact absurd h.symm hr

/-- `run` with any larger fuel gives the same answer once it gives one -/
theorem run_fuel_mono (p : Prog) (fi : Nat) (args : List Nat) (n k : Nat) (r : Res)
    (h : run p fi args n = r) (hr : r ≠ .stuck) : run p fi args (n + k) = r := by
  unfold run at h ⊢
  cases hf : p[fi]? with
  | none => simp only [hf] at h; exact absurd h.symm hr
  | some f => simp only [hf] at h ⊢; exact exec_fuel_mono p n fi _ 0 r h hr k
end Mctp.Mir
