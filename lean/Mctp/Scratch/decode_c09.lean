import Mctp.Lemmas.Decode
import Mctp.Lemmas.DecodeNF
import Mctp.Spec.Accept
namespace Mctp

theorem Out.isOk_bind_ok {ε α β : Type} (x : Out ε α) (f : α → β) :
    (x.bind fun a => .ok (f a)).isOk = x.isOk := by
  cases x <;> rfl

theorem ctrlFin_isOk (p : Bytes) (pec : B) (off : Nat) (r : Bool) (n : Nat) :
    (ctrlFin p pec off r n).isOk =
      (byteAt p (p.length - 1) == pec && !decide (n > 0 ∧ p.length - 10 - off ≠ n)) := by
  unfold ctrlFin
  by_cases h1 : byteAt p (p.length - 1) = pec
  · by_cases h2 : n > 0 ∧ p.length - 10 - off ≠ n
    · simp [h1, h2, Out.isOk]
    · simp only [h1, h2, ne_eq, not_true, if_false, Out.isOk]; simp
  · simp [h1, Out.isOk]

namespace C09

theorem accept_iff (p : Bytes) (h : Spec.inClaim p = true) :
    (decode p).isOk = Spec.accept p := by
  unfold Spec.inClaim at h
  simp only [Bool.and_eq_true] at h
  obtain ⟨⟨hlong, hexcl⟩, hpan⟩ := h
  unfold Spec.longEnough at hlong
  simp only [Bool.and_eq_true, decide_eq_true_eq] at hlong
  obtain ⟨h10, hlong⟩ := hlong
  have hne : p ≠ [] := by intro h; subst h; simp at h10
  have h10' : ¬ p.length < 10 := by omega
  rw [decode_nf, if_neg h10']
  unfold Spec.accept
  cases hh : Spec.hdrOk p
  · simp [Out.isOk]
  · simp only [Bool.not_true, Bool.false_eq_true, if_false, Bool.true_and]
    rw [pecOk_eq p hne]
    cases hc : Spec.isControl p
    · simp only [Bool.false_eq_true, if_false, Bool.and_true]
      unfold vendorArm
      by_cases hp : byteAt p (p.length-1) = calcPec p
      · simp [hp, Out.isOk]
      · simp [hp, Out.isOk]
    · simp only [if_true]
      unfold Spec.decodePanicClass at hpan
      rw [hc] at hlong hexcl
      rw [hh, hc] at hpan
      simp only [if_true, Bool.true_and, Bool.and_true, decide_eq_true_eq, h10, decide_true] at hlong hexcl hpan
      rw [getCtrl_drop9 p _ h10]
      cases hr : Spec.isRequest p
      · rw [hr] at hlong hexcl hpan
        simp at hlong hexcl hpan
        have h12' : ¬ p.length < 12 := by omega
        have h13' : ¬ p.length < 13 := by omega
        rw [if_neg h12', if_neg h13']
        simp only [Bool.false_eq_true, if_false]
        have hpan := hpan (by omega) hlong
        by_cases hcc : Spec.ccByte p = 0x00#8
        · have hcc6 : ¬ 6 ≤ (Spec.ccByte p).toNat := by rw [hcc]; decide
          rw [if_neg hcc6] at hpan
          have hun : Spec.respUnimpl (Spec.cmdOf p) = false := by
            cases hu : Spec.respUnimpl (Spec.cmdOf p)
            · rfl
            · simp [hcc, hu] at hpan
          obtain ⟨hresp, hfix⟩ := respDataLen_tbl _ hun (by simp [hexcl])
          simp only [hcc, ne_eq, not_true, if_false]
          rw [hresp, Out.bind_ok, lenFits_eq _ _ hfix, Out.isOk_bind_ok, ctrlFin_isOk]
          simp only [beq_self_eq_true, Bool.true_and]
          rfl
        · have hcc6 : (Spec.ccByte p).toNat < 6 := by
            by_cases h6 : 6 ≤ (Spec.ccByte p).toNat
            · simp [h6] at hpan
            · omega
          obtain ⟨c, hc'⟩ := ccOf_lt _ hcc6
          simp [hcc, hc', Out.isOk]
      · rw [hr] at hlong hexcl hpan
        simp at hlong hexcl hpan
        have h12' : ¬ p.length < 12 := by omega
        rw [if_neg h12']; simp only [if_true]
        obtain ⟨hreq, hfix⟩ := reqDataLen_tbl _ (hpan hlong)
        rw [hreq, Out.bind_ok, lenFits_eq _ _ hfix, Out.isOk_bind_ok, ctrlFin_isOk]
        rfl

end C09
end Mctp
