import Mctp.Model.Encode
import Mctp.Lemmas.Bitfield
import Mctp.Lemmas.Crc
namespace Mctp
namespace EncAux

/-- the setter loop restricted to a single byte -/
def byteLoop (posOf : Nat → Nat) : List Nat → B × Nat → B × Nat
  | [], st => st
  | i :: is, (b, v) => byteLoop posOf is (putBit b (posOf i) (v % 2 == 1), v / 2)

theorem set_getD_self (buf : Bytes) (k : Nat) (hk : k < buf.length) : buf.set k (buf.getD k 0) = buf := by
  simp [List.getD_eq_getElem?_getD, hk]

/-- localisation: a setter loop whose indices all lie in byte `k` only rewrites byte `k` -/
theorem setLoop_local (posOf : Nat → Nat) (k : Nat) :
    ∀ (is : List Nat) (buf : Bytes) (v : Nat), (∀ i ∈ is, i / 8 = k) → k < buf.length →
      setLoop posOf is (buf, v) =
        (buf.set k (byteLoop posOf is (buf.getD k 0, v)).1, (byteLoop posOf is (buf.getD k 0, v)).2)
  | [], buf, v, _, hk => by rw [setLoop, byteLoop, set_getD_self buf k hk]
  | i :: is, buf, v, hall, hk => by
    have hi : i / 8 = k := hall i (by simp)
    rw [setLoop, setLoop_local posOf k is _ _ (fun j hj => hall j (by simp [hj])) (by simpa [setBit_length] using hk)]
    simp [byteLoop, setBit, hi, List.getD_eq_getElem?_getD, hk]

theorem setLoop_append (posOf : Nat → Nat) : ∀ (is js : List Nat) (st : Bytes × Nat),
    setLoop posOf (is ++ js) st = setLoop posOf js (setLoop posOf is st)
  | [], js, st => rfl
  | i :: is, js, (buf, v) => by simp [setLoop, setLoop_append posOf is js]

theorem byteLoop_snd (posOf : Nat → Nat) : ∀ (is : List Nat) (b : B) (v : Nat),
    (byteLoop posOf is (b, v)).2 = v / 2 ^ is.length
  | [], b, v => by simp [byteLoop]
  | i :: is, b, v => by
    rw [byteLoop, byteLoop_snd posOf is, List.length_cons, Nat.pow_succ', Nat.div_div_eq_div_mul]

theorem byteLoop_fst_mod (posOf : Nat → Nat) : ∀ (is : List Nat) (b : B) (v : Nat),
    (byteLoop posOf is (b, v)).1 = (byteLoop posOf is (b, v % 2 ^ is.length)).1
  | [], b, v => by simp [byteLoop]
  | i :: is, b, v => by
    rw [byteLoop, byteLoop, byteLoop_fst_mod posOf is _ (v / 2),
      byteLoop_fst_mod posOf is _ (v % 2 ^ (i :: is).length / 2)]
    have h1 : v % 2 ^ (i :: is).length % 2 = v % 2 := by
      rw [List.length_cons, Nat.pow_succ']; exact Nat.mod_mul_right_mod _ _ _
    have h2 : v % 2 ^ (i :: is).length / 2 % 2 ^ is.length = v / 2 % 2 ^ is.length := by
      rw [List.length_cons, Nat.pow_succ', Nat.mod_mul_right_div_self, Nat.mod_mod]
    rw [h1, h2]

end EncAux

namespace Field

def idxs (f : Field) : List Nat := if f.msb0 then idxDown f.msb f.lsb else idxUp f.msb f.lsb
def posOf (f : Field) : Nat → Nat := if f.msb0 then posMsb0 else posLsb0
/-- what a single-byte field setter does to its byte -/
def putByte (f : Field) (b : B) (v : Nat) : B := (EncAux.byteLoop f.posOf f.idxs (b, v % 2 ^ f.valBits)).1

theorem set_eq_loop (f : Field) (buf : Bytes) (v : Nat) :
    f.set buf v = (setLoop f.posOf f.idxs (buf, v % 2 ^ f.valBits)).1 := by
  unfold Field.set idxs posOf setMsb0 setLsb0
  cases f.msb0 <;> simp

theorem set_byte (f : Field) (k : Nat) (buf : Bytes) (v : Nat) (hk : k < buf.length)
    (hall : f.idxs.all (fun i => i / 8 == k) = true) :
    f.set buf v = buf.set k (f.putByte (buf.getD k 0) v) := by
  rw [set_eq_loop, EncAux.setLoop_local f.posOf k f.idxs buf _ (by simpa using hall) hk]
  rfl

end Field

/-! closed forms -/

theorem smbus_b0 : ∀ d : B, SMBusHdr.destSlaveAddr.putByte (SMBusHdr.destReadWrite.putByte (0:B) 0) d.toNat
    = (d &&& 0x7F#8) <<< 1 := by
  apply forall_byte; decide +kernel

theorem smbus_b3 : ∀ a : B, SMBusHdr.sourceReadWrite.putByte (SMBusHdr.sourceSlaveAddr.putByte (0:B) a.toNat) 1
    = ((a &&& 0x7F#8) <<< 1) ||| 1#8 := by
  apply forall_byte; decide +kernel

theorem smbusHeader_eq (a d : B) :
    smbusHeader a d = [(d &&& 0x7F#8) <<< 1, 0x0F#8, 0#8, ((a &&& 0x7F#8) <<< 1) ||| 1#8] := by
  unfold smbusHeader
  simp only []
  rw [Field.set_byte SMBusHdr.destReadWrite 0 _ _ (by simp) (by decide)]
  rw [Field.set_byte SMBusHdr.destSlaveAddr 0 _ _ (by simp) (by decide)]
  rw [Field.set_byte SMBusHdr.commandCode 1 _ _ (by simp) (by decide)]
  rw [Field.set_byte SMBusHdr.sourceSlaveAddr 3 _ _ (by simp) (by decide)]
  rw [Field.set_byte SMBusHdr.sourceReadWrite 3 _ _ (by simp) (by decide)]
  simp only [List.set, List.getD_cons_zero, List.getD_cons_succ]
  have e1 : SMBusHdr.commandCode.putByte 0 15 = 0x0F#8 := by decide +kernel
  rw [smbus_b0 d, smbus_b3 a, e1]
  rfl


theorem byteCount_b : ∀ x : B, SMBusHdr.byteCount.putByte (0:B) x.toNat = x := by
  apply forall_byte; decide +kernel

theorem smbusHeaderFinal_eq (a d : B) (total : Nat) :
    smbusHeaderFinal a d total =
      [(d &&& 0x7F#8) <<< 1, 0x0F#8, BitVec.ofNat 8 (total - 4), ((a &&& 0x7F#8) <<< 1) ||| 1#8] := by
  unfold smbusHeaderFinal
  rw [smbusHeader_eq, Field.set_byte SMBusHdr.byteCount 2 _ _ (by simp) (by decide)]
  have e : (total - 4) % 256 = (BitVec.ofNat 8 (total - 4)).toNat := by simp
  simp only [List.set, List.getD_cons_zero, List.getD_cons_succ]
  rw [e]
  exact congrArg (fun x => [_, _, x, _]) (byteCount_b _)

theorem tr_b1 : ∀ x : B, TransportHdr.destEndpointId.putByte (0:B) x.toNat = x := by
  apply forall_byte; decide +kernel
theorem tr_b2 : ∀ x : B, TransportHdr.sourceEndpointId.putByte (0:B) x.toNat = x := by
  apply forall_byte; decide +kernel

theorem transportHeader_eq (a d : B) : transportHeader a d = [0x01#8, d, a, 0xC8#8] := by
  unfold transportHeader
  simp only []
  rw [Field.set_byte TransportHdr.hdrVersion 0 _ _ (by simp) (by decide)]
  rw [Field.set_byte TransportHdr.destEndpointId 1 _ _ (by simp) (by decide)]
  rw [Field.set_byte TransportHdr.sourceEndpointId 2 _ _ (by simp) (by decide)]
  rw [Field.set_byte TransportHdr.som 3 _ _ (by simp) (by decide)]
  rw [Field.set_byte TransportHdr.eom 3 _ _ (by simp) (by decide)]
  rw [Field.set_byte TransportHdr.pktSeq 3 _ _ (by simp) (by decide)]
  rw [Field.set_byte TransportHdr.to 3 _ _ (by simp) (by decide)]
  rw [Field.set_byte TransportHdr.msgTag 3 _ _ (by simp) (by decide)]
  simp only [List.set, List.getD_cons_zero, List.getD_cons_succ]
  have e0 : TransportHdr.hdrVersion.putByte (0:B) 1 = 0x01#8 := by decide +kernel
  have e3 : TransportHdr.msgTag.putByte (TransportHdr.to.putByte (TransportHdr.pktSeq.putByte
      (TransportHdr.eom.putByte (TransportHdr.som.putByte (0:B) 1) 1) 0) 1) 0 = 0xC8#8 := by decide +kernel
  rw [tr_b1 d, tr_b2 a, e0, e3]

theorem bodyHeader_eq (t : MsgType) : bodyHeader t = [t.toByte &&& 0x7F#8] := by
  cases t <;> decide +kernel

theorem ctrlHeader_eq (rq : Bool) (cmd : Cmd) :
    ctrlHeader rq cmd = [if rq then 0x80#8 else 0x00#8, cmd.toByte] := by
  cases rq <;> cases cmd <;> decide +kernel

namespace EncAux

theorem setLoop_chunk (posOf : Nat → Nat) (k : Nat) (is : List Nat) (buf : Bytes) (v : Nat)
    (hall : is.all (fun i => i / 8 == k) = true) (hk : k < buf.length) :
    setLoop posOf is (buf, v) =
      (buf.set k (byteLoop posOf is (buf.getD k 0, v % 2 ^ is.length)).1, v / 2 ^ is.length) := by
  rw [setLoop_local posOf k is buf v (by simpa using hall) hk, byteLoop_snd, ← byteLoop_fst_mod]

theorem chunk3 : ∀ x : B, (byteLoop posMsb0 [31, 30, 29, 28, 27, 26, 25, 24] ((0:B), x.toNat)).1 = x := by
  apply forall_byte; decide +kernel
theorem chunk2 : ∀ x : B, (byteLoop posMsb0 [23, 22, 21, 20, 19, 18, 17, 16] ((0:B), x.toNat)).1 = x := by
  apply forall_byte; decide +kernel
theorem chunk1 : ∀ x : B, (byteLoop posMsb0 [15, 14, 13, 12, 11, 10, 9, 8] ((0:B), x.toNat)).1 = x := by
  apply forall_byte; decide +kernel
theorem chunk0 : ∀ x : B, (byteLoop posMsb0 [7, 6, 5, 4, 3, 2, 1, 0] ((0:B), x.toNat)).1 = x := by
  apply forall_byte; decide +kernel

theorem mod256 (v : Nat) : v % 2 ^ 8 = (BitVec.ofNat 8 v).toNat := by simp

end EncAux

open EncAux in
theorem pciHeader_eq (data : BitVec 32) :
    pciHeader data = [(data >>> 8).setWidth 8, data.setWidth 8] := by
  unfold pciHeader
  rw [Field.set_eq_loop]
  have hi : PciFmt.vendorId.idxs = [15, 14, 13, 12, 11, 10, 9, 8] ++ [7, 6, 5, 4, 3, 2, 1, 0] := by decide
  have hp : PciFmt.vendorId.posOf = posMsb0 := rfl
  rw [hi, hp, setLoop_append, setLoop_chunk posMsb0 1 [15, 14, 13, 12, 11, 10, 9, 8] _ _ (by decide) (by simp),
    setLoop_chunk posMsb0 0 [7, 6, 5, 4, 3, 2, 1, 0] _ _ (by decide) (by simp)]
  simp only [List.set, List.getD_cons_zero, List.getD_cons_succ, List.length_cons, List.length_nil]
  rw [mod256, mod256, chunk1, chunk0]
  congr 1
  · apply BitVec.eq_of_toNat_eq
    simp [BitVec.toNat_setWidth, BitVec.toNat_ushiftRight, Nat.shiftRight_eq_div_pow, PciFmt.vendorId]
    omega
  · congr 1
    apply BitVec.eq_of_toNat_eq
    simp [BitVec.toNat_setWidth, PciFmt.vendorId]


open EncAux in
theorem ianaHeader_eq (data : BitVec 32) :
    ianaHeader data =
      [(data >>> 24).setWidth 8, (data >>> 16).setWidth 8, (data >>> 8).setWidth 8, data.setWidth 8] := by
  unfold ianaHeader
  rw [Field.set_eq_loop]
  have hi : IanaFmt.vendorId.idxs = [31, 30, 29, 28, 27, 26, 25, 24] ++ ([23, 22, 21, 20, 19, 18, 17, 16] ++
      ([15, 14, 13, 12, 11, 10, 9, 8] ++ [7, 6, 5, 4, 3, 2, 1, 0])) := by decide
  have hp : IanaFmt.vendorId.posOf = posMsb0 := rfl
  rw [hi, hp, setLoop_append, setLoop_append, setLoop_append,
    setLoop_chunk posMsb0 3 [31, 30, 29, 28, 27, 26, 25, 24] _ _ (by decide) (by simp),
    setLoop_chunk posMsb0 2 [23, 22, 21, 20, 19, 18, 17, 16] _ _ (by decide) (by simp),
    setLoop_chunk posMsb0 1 [15, 14, 13, 12, 11, 10, 9, 8] _ _ (by decide) (by simp),
    setLoop_chunk posMsb0 0 [7, 6, 5, 4, 3, 2, 1, 0] _ _ (by decide) (by simp)]
  simp only [List.set, List.getD_cons_zero, List.getD_cons_succ, List.length_cons, List.length_nil]
  rw [mod256, mod256, mod256, mod256, chunk3, chunk2, chunk1, chunk0]
  have hd : data.toNat < 2 ^ 32 := data.isLt
  congr 1
  · apply BitVec.eq_of_toNat_eq
    simp [BitVec.toNat_setWidth, BitVec.toNat_ushiftRight, Nat.shiftRight_eq_div_pow, IanaFmt.vendorId]
    omega
  congr 1
  · apply BitVec.eq_of_toNat_eq
    simp [BitVec.toNat_setWidth, BitVec.toNat_ushiftRight, Nat.shiftRight_eq_div_pow, IanaFmt.vendorId]
    omega
  congr 1
  · apply BitVec.eq_of_toNat_eq
    simp [BitVec.toNat_setWidth, BitVec.toNat_ushiftRight, Nat.shiftRight_eq_div_pow, IanaFmt.vendorId]
    omega
  congr 1
  · apply BitVec.eq_of_toNat_eq
    simp [BitVec.toNat_setWidth, BitVec.toNat_ushiftRight, Nat.shiftRight_eq_div_pow, IanaFmt.vendorId]

end Mctp
