import Mctp.Props.C18
#print axioms Mctp.C18.table_facts
#print axioms Mctp.C18.get_layout
#print axioms Mctp.C18.set_layout
#print axioms Mctp.C18.get_set
#print axioms Mctp.C18.set_preserves
#print axioms Mctp.C18.set_length
#print axioms Mctp.C18.pci_get
#print axioms Mctp.C18.pci_set
#print axioms Mctp.C18.iana_get
#print axioms Mctp.C18.iana_set
#print axioms Mctp.C18.transport_from_buf
#print axioms Mctp.C18.body_from_buf
