import Mctp.Lemmas.Process
namespace Mctp
namespace Proc

/-! ### encoder calls -/

theorem encode_of_body (c : Ctx) (dst : B) (e : Enc) (buf : Bytes) (t : MsgType) (h : Option Bytes) (d : Bytes)
    (hb : e.body c = .ok (t, h, d)) (hs : e.isStub = false) :
    encode c dst e buf = genPacket c.address dst t h d buf := by
  simp [encode, hb, hs]

/-- a successful encoder call: body, size, and the resulting buffer -/
theorem encode_ok_inv (c : Ctx) (dst : B) (e : Enc) (buf buf' : Bytes) (n : Nat)
    (h : encode c dst e buf = .ok (buf', n)) :
    ∃ t hd d, e.body c = .ok (t, hd, d) ∧ e.isStub = false ∧ 1 + optLen hd + d.length ≤ 250 ∧
      n = 10 + optLen hd + d.length ∧ n ≤ buf.length ∧
      buf' = packetBytes c.address dst t hd d ++ buf.drop n := by
  unfold encode at h
  rcases Out.bind_eq_ok.mp h with ⟨⟨t, hd, d⟩, hb, h2⟩
  refine ⟨t, hd, d, hb, ?_⟩
  simp only at h2
  by_cases hs : e.isStub = true
  · simp only [hs, if_true] at h2
    split at h2 <;> simp at h2
  have hs' : e.isStub = false := by simpa using hs
  simp only [hs', Bool.false_eq_true, if_false] at h2
  refine ⟨hs', ?_⟩
  by_cases hfit : 1 + optLen hd + d.length ≤ 250
  · by_cases hbuf : 10 + optLen hd + d.length ≤ buf.length
    · rw [genPacket_ok _ _ _ _ _ _ hfit hbuf] at h2
      simp only [Out.ok.injEq, Prod.mk.injEq] at h2
      obtain ⟨rfl, rfl⟩ := h2
      exact ⟨hfit, rfl, hbuf, rfl⟩
    · obtain ⟨k, hk⟩ := genPacket_short c.address dst t hd d buf hfit (by omega)
      rw [hk] at h2; simp at h2
  · rw [genPacket_oversize _ _ _ _ _ _ (by omega)] at h2; simp at h2

theorem respond_ok (c : Ctx) (dst : B) (e : Enc) (buf : Bytes) (t : MsgType) (h : Option Bytes) (d : Bytes)
    (hb : e.body c = .ok (t, h, d)) (hs : e.isStub = false)
    (hfit : 1 + optLen h + d.length ≤ 250) (hbuf : 10 + optLen h + d.length ≤ buf.length) :
    respond c dst e buf =
      (c, .ok (10 + optLen h + d.length),
        packetBytes c.address dst t h d ++ buf.drop (10 + optLen h + d.length)) := by
  unfold respond
  rw [encode_of_body c dst e buf t h d hb hs, genPacket_ok _ _ _ _ _ _ hfit hbuf]

/-- `respond` returns a length or panics; it never returns an error value -/
theorem respond_cases (c : Ctx) (dst : B) (e : Enc) (buf : Bytes) :
    (∃ n buf', respond c dst e buf = (c, .ok n, buf') ∧ encode c dst e buf = .ok (buf', n)) ∨
    (∃ k, respond c dst e buf = (c, .panic k, buf)) := by
  unfold respond
  cases h : encode c dst e buf with
  | ok a => exact .inl ⟨a.2, a.1, rfl, rfl⟩
  | err e => exact .inr ⟨_, rfl⟩
  | panic k => exact .inr ⟨_, rfl⟩

end Proc
end Mctp
