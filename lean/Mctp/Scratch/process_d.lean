import Mctp.Lemmas.Process
namespace Mctp
namespace Proc

theorem process_nf (c : Ctx) (p buf : Bytes) :
    process c p buf =
      if p.length < 10 ∨ Spec.hdrOk p = false then (c, .err (.invalid, .unknown), buf)
      else if Spec.isControl p then
        match getCtrl (p.drop 9) (calcPec p) with
        | .err e => (c, .err e, buf)
        | .panic k => (c, .panic k, buf)
        | .ok ctl =>
          if ctl.isReq then
            let r := dispatch c ctl.cmd (byteAt p 6) (fun i => byteAt p (9 + ctl.off + i)) buf
            (r.1, r.2.1.map (fun n => ((MsgType.control, 9 + ctl.off, ctl.dataLen), some n)), r.2.2)
          else (c, .ok ((.control, 9 + ctl.off, ctl.dataLen), none), buf)
      else if Spec.pecOk p then (c, .ok ((Spec.msgTypeOf p, 9, p.length - 10), none), buf)
      else (c, .err (Spec.msgTypeOf p, .ctl .pec), buf) := by
  unfold process
  rw [decode_nf]
  by_cases h1 : p.length < 10 ∨ Spec.hdrOk p = false
  · simp only [h1, if_true]
  simp only [h1, if_false]
  have h10 : 10 ≤ p.length := by omega
  have hh : Spec.hdrOk p = true := by
    cases h : Spec.hdrOk p <;> simp_all
  by_cases hc : Spec.isControl p = true
  · simp only [hc, if_true]
    have hg : getHeaders p = .ok () := by
      rw [getHeaders_eq]; simp [hh]; omega
    cases hgc : getCtrl (p.drop 9) (calcPec p) with
    | err e => simp
    | panic k => simp
    | ok ctl =>
      simp only [Out.bind_ok, hg, srcEid_eq p (by omega)]
      by_cases hr : ctl.isReq = true
      · simp only [hr, if_true]
        rcases hd : dispatch c ctl.cmd (byteAt p 6) (fun i => byteAt p (9 + ctl.off + i)) buf with ⟨c', r, b'⟩
        cases r <;> simp [Out.map]
      · simp [hr]
  · simp only [hc, if_false, Bool.false_eq_true]
    by_cases hp : Spec.pecOk p = true
    · simp only [hp, if_true]
      have h1 := msgTypeOf_ne_invalid p hh
      have h2 := mt (msgTypeOf_control_iff p).mp hc
      cases ht : Spec.msgTypeOf p <;> simp_all
    · simp [hp]

end Proc
end Mctp
