import Mctp.Lemmas.Encode
namespace Mctp
namespace Scr

theorem packetBytes_eq (a d : B) (t : MsgType) (h : Option Bytes) (data : Bytes) :
    packetBytes a d t h data = packetPre a d t h data ++ [crc8 (packetPre a d t h data)] := by
  have e : 4 + 4 + (1 + optLen h + data.length) + 1 - 4 = 6 + optLen h + data.length := by omega
  have hp : smbusHeaderFinal a d (4 + 4 + (1 + optLen h + data.length) + 1) ++ transportHeader a d ++
      bodyHeader t ++ optBytes h ++ data = packetPre a d t h data := by
    rw [smbusHeaderFinal_eq, transportHeader_eq, bodyHeader_eq, e]
    simp [packetPre]
  unfold packetBytes
  simp only []
  rw [hp]

theorem optBytes_length (h : Option Bytes) : (optBytes h).length = optLen h := by
  cases h <;> rfl

theorem packetPre_length (a d : B) (t : MsgType) (h : Option Bytes) (data : Bytes) :
    (packetPre a d t h data).length = 9 + optLen h + data.length := by
  simp [packetPre, optBytes_length]; omega

theorem packetBytes_length (a d : B) (t : MsgType) (h : Option Bytes) (data : Bytes) :
    (packetBytes a d t h data).length = 10 + optLen h + data.length := by
  rw [packetBytes_eq, List.length_append, packetPre_length]; simp; omega

theorem splice_length (buf : Bytes) (off : Nat) (src : Bytes) (h : off + src.length ≤ buf.length) :
    (splice buf off src).length = buf.length := by
  simp [splice]; omega

theorem writeAt_app (pre rest src : Bytes) (off : Nat) (file : SrcFile) (ho : off = pre.length)
    (hl : src.length ≤ rest.length) :
    writeAt (pre ++ rest) off src file = .ok ((pre ++ src) ++ rest.drop src.length) := by
  subst ho
  unfold writeAt
  rw [if_pos (by simp; omega)]
  simp [splice, List.drop_append]

theorem writeAt_ok_length {buf src : Bytes} {off : Nat} {file : SrcFile} {b : Bytes}
    (h : writeAt buf off src file = .ok b) : b.length = buf.length := by
  unfold writeAt at h
  split at h
  · cases h; exact splice_length _ _ _ (by assumption)
  · cases h

theorem writeAt_ne_err {buf src : Bytes} {off : Nat} {file : SrcFile} :
    writeAt buf off src file ≠ .err () := by
  unfold writeAt; split <;> simp


theorem packetToRaw_ok (sm tr bh : Bytes) (hdr : Option Bytes) (data buf : Bytes)
    (h1 : sm.length = 4) (h2 : tr.length = 4) (h3 : bh.length = 1)
    (hbuf : 10 + optLen hdr + data.length ≤ buf.length) :
    packetToRaw sm tr bh hdr data buf =
      .ok ((sm ++ tr ++ bh ++ optBytes hdr ++ data) ++ [crc8 (sm ++ tr ++ bh ++ optBytes hdr ++ data)] ++
        buf.drop (10 + optLen hdr + data.length), 10 + optLen hdr + data.length) := by
  have hh := optBytes_length hdr
  unfold packetToRaw
  have w1 := writeAt_app [] buf sm 0 .proto rfl (by omega)
  rw [List.nil_append] at w1
  rw [w1, Out.bind_ok, writeAt_app _ _ tr 4 .proto (by simp [h1]) (by simp; omega), Out.bind_ok,
    writeAt_app _ _ bh 8 .base (by simp [h1, h2]) (by simp; omega), Out.bind_ok,
    writeAt_app _ _ (optBytes hdr) 9 .base (by simp [h1, h2, h3]) (by simp; omega), Out.bind_ok,
    writeAt_app _ _ data (9 + optLen hdr) .base (by simp [h1, h2, h3, hh]; omega) (by simp; omega), Out.bind_ok]
  simp only [List.nil_append, List.drop_drop]
  generalize hpre : sm ++ tr ++ bh ++ optBytes hdr ++ data = pre
  have hpl : pre.length = 9 + optLen hdr + data.length := by
    rw [← hpre]; simp [h1, h2, h3, hh]; omega
  have hn : sm.length + tr.length + bh.length + (optBytes hdr).length + data.length =
      9 + optLen hdr + data.length := by omega
  rw [hn, if_pos (by simp; omega), ← hpl]
  have hlt : pre.length < buf.length := by omega
  rw [List.take_left' rfl, List.drop_eq_getElem_cons hlt, List.set_append_right _ _ (Nat.le_refl _),
    Nat.sub_self, List.set_cons_zero, hpl]
  have e : 9 + optLen hdr + data.length + 1 = 10 + optLen hdr + data.length := by omega
  rw [e]
  simp


theorem packetToRaw_ne_err (sm tr bh : Bytes) (hdr : Option Bytes) (data buf : Bytes) :
    packetToRaw sm tr bh hdr data buf ≠ .err () := by
  unfold packetToRaw
  intro h
  simp only [Out.bind_eq_err, writeAt_ne_err, false_or] at h
  obtain ⟨b1, -, b2, -, b3, -, b4, -, b5, -, h⟩ := h
  split at h <;> cases h

theorem packetToRaw_ok_inv (sm tr bh : Bytes) (hdr : Option Bytes) (data buf : Bytes) (r : Bytes × Nat)
    (h : packetToRaw sm tr bh hdr data buf = .ok r) : 10 + optLen hdr + data.length ≤ buf.length := by
  unfold packetToRaw at h
  simp only [Out.bind_eq_ok] at h
  obtain ⟨b1, w1, b2, w2, b3, w3, b4, w4, b5, w5, h⟩ := h
  have l1 := writeAt_ok_length w1
  have l2 := writeAt_ok_length w2
  have l3 := writeAt_ok_length w3
  have l4 := writeAt_ok_length w4
  have l5 := writeAt_ok_length w5
  split at h
  · omega
  · cases h

theorem genPacket_ok (a d : B) (t : MsgType) (h : Option Bytes) (data buf : Bytes)
    (hfit : 1 + optLen h + data.length ≤ 250) (hbuf : 10 + optLen h + data.length ≤ buf.length) :
    genPacket a d t h data buf =
      .ok (packetBytes a d t h data ++ buf.drop (10 + optLen h + data.length), 10 + optLen h + data.length) := by
  unfold genPacket
  simp only []
  rw [if_neg (by unfold maxBodyLen; omega),
    packetToRaw_ok _ _ _ _ _ _ (by rw [smbusHeaderFinal_eq]; rfl) (by rw [transportHeader_eq]; rfl)
      (by rw [bodyHeader_eq]; rfl) hbuf]
  rfl

theorem genPacket_oversize (a d : B) (t : MsgType) (h : Option Bytes) (data buf : Bytes)
    (hbig : 250 < 1 + optLen h + data.length) : genPacket a d t h data buf = .err () := by
  unfold genPacket
  simp only []
  rw [if_pos (by unfold maxBodyLen; omega)]

theorem genPacket_short (a d : B) (t : MsgType) (h : Option Bytes) (data buf : Bytes)
    (hfit : 1 + optLen h + data.length ≤ 250) (hbuf : buf.length < 10 + optLen h + data.length) :
    ∃ p, genPacket a d t h data buf = .panic p := by
  unfold genPacket
  simp only []
  rw [if_neg (by unfold maxBodyLen; omega)]
  generalize hr : packetToRaw _ _ _ h data buf = r
  cases r with
  | ok r => have := packetToRaw_ok_inv _ _ _ _ _ _ _ hr; omega
  | err e => cases e; exact absurd hr (packetToRaw_ne_err _ _ _ _ _ _)
  | panic p => exact ⟨p, rfl⟩

end Scr
end Mctp
