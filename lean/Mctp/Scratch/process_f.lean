import Mctp.Lemmas.Process
namespace Mctp
namespace Proc

/-- `Cmd.ofByte` as a table: the seven commands `dispatch` has arms for, or a byte ≥ 7 -/
inductive CmdCase (cmd : B) : Prop
  | c0 (h : Cmd.ofByte cmd = .reserved) (e : cmd = 0x00#8)
  | c1 (h : Cmd.ofByte cmd = .setEndpointID) (e : cmd = 0x01#8)
  | c2 (h : Cmd.ofByte cmd = .getEndpointID) (e : cmd = 0x02#8)
  | c3 (h : Cmd.ofByte cmd = .getEndpointUUID) (e : cmd = 0x03#8)
  | c4 (h : Cmd.ofByte cmd = .getMCTPVersionSupport) (e : cmd = 0x04#8)
  | c5 (h : Cmd.ofByte cmd = .getMessageTypeSupport) (e : cmd = 0x05#8)
  | c6 (h : Cmd.ofByte cmd = .getVendorDefinedMessageSupport) (e : cmd = 0x06#8)
  | other (h : 7 ≤ cmd.toNat)
      (hne : Cmd.ofByte cmd ≠ .reserved ∧ Cmd.ofByte cmd ≠ .setEndpointID ∧ Cmd.ofByte cmd ≠ .getEndpointID ∧
        Cmd.ofByte cmd ≠ .getEndpointUUID ∧ Cmd.ofByte cmd ≠ .getMCTPVersionSupport ∧
        Cmd.ofByte cmd ≠ .getMessageTypeSupport ∧ Cmd.ofByte cmd ≠ .getVendorDefinedMessageSupport)

theorem cmdCase_table : ∀ cmd : B,
    (Cmd.ofByte cmd = .reserved ∧ cmd = 0x00#8) ∨ (Cmd.ofByte cmd = .setEndpointID ∧ cmd = 0x01#8) ∨
    (Cmd.ofByte cmd = .getEndpointID ∧ cmd = 0x02#8) ∨ (Cmd.ofByte cmd = .getEndpointUUID ∧ cmd = 0x03#8) ∨
    (Cmd.ofByte cmd = .getMCTPVersionSupport ∧ cmd = 0x04#8) ∨
    (Cmd.ofByte cmd = .getMessageTypeSupport ∧ cmd = 0x05#8) ∨
    (Cmd.ofByte cmd = .getVendorDefinedMessageSupport ∧ cmd = 0x06#8) ∨
    (7 ≤ cmd.toNat ∧ Cmd.ofByte cmd ≠ .reserved ∧ Cmd.ofByte cmd ≠ .setEndpointID ∧ Cmd.ofByte cmd ≠ .getEndpointID ∧
        Cmd.ofByte cmd ≠ .getEndpointUUID ∧ Cmd.ofByte cmd ≠ .getMCTPVersionSupport ∧
        Cmd.ofByte cmd ≠ .getMessageTypeSupport ∧ Cmd.ofByte cmd ≠ .getVendorDefinedMessageSupport) := by
  apply forall_byte; decide +kernel

theorem cmdCase (cmd : B) : CmdCase cmd := by
  rcases cmdCase_table cmd with h | h | h | h | h | h | h | h
  · exact .c0 h.1 h.2
  · exact .c1 h.1 h.2
  · exact .c2 h.1 h.2
  · exact .c3 h.1 h.2
  · exact .c4 h.1 h.2
  · exact .c5 h.1 h.2
  · exact .c6 h.1 h.2
  · exact .other h.1 h.2

variable (c : Ctx) (cmd src : B) (pay : Nat → B) (buf : Bytes)

theorem dispatch_reserved (h : Cmd.ofByte cmd = .reserved) :
    dispatch c cmd src pay buf = (c, .panic ⟨.unreachable, .smbus⟩, buf) := by
  unfold dispatch; simp only [h]

theorem dispatch_setEid (h : Cmd.ofByte cmd = .setEndpointID) :
    dispatch c cmd src pay buf =
      if pay 0 = 0#8 ∨ pay 0 = 1#8 then
        respond { c with respEid := pay 1, reqEid := pay 1 } src (.respSetEid 0#8 false 0#8) buf
      else if pay 0 = 2#8 then (c, .panic ⟨.unimplemented, .smbus⟩, buf)
      else if pay 0 = 3#8 then respond c src (.respSetEid 2#8 false 0#8) buf
      else (c, .panic ⟨.unreachable, .smbus⟩, buf) := by
  unfold dispatch; simp only [h]

theorem dispatch_getEid (h : Cmd.ofByte cmd = .getEndpointID) :
    dispatch c cmd src pay buf = respond c src (.respGetEid 0#8 0#8 0#8 false) buf := by
  unfold dispatch; simp only [h]

theorem dispatch_uuid (h : Cmd.ofByte cmd = .getEndpointUUID) :
    dispatch c cmd src pay buf = respond c src (.respUuid 0#8 c.uuid) buf := by
  unfold dispatch; simp only [h]

theorem dispatch_version (h : Cmd.ofByte cmd = .getMCTPVersionSupport) :
    dispatch c cmd src pay buf = respond c src (.respVersion 0#8) buf := by
  unfold dispatch; simp only [h]

theorem dispatch_msgTypes (h : Cmd.ofByte cmd = .getMessageTypeSupport) :
    dispatch c cmd src pay buf = respond c src (.respMsgTypes 0#8 c.msgTypes) buf := by
  unfold dispatch; simp only [h]

/-- the selector the vendor arm stores and reports -/
def nextSel (c : Ctx) (sel : B) : B :=
  if sel + 1#8 = BitVec.ofNat 8 c.vendorIds.length then 0xFF#8 else sel + 1#8

theorem dispatch_vendor (h : Cmd.ofByte cmd = .getVendorDefinedMessageSupport) :
    dispatch c cmd src pay buf =
      if pay 0 = 0xFF#8 then (c, .panic ⟨.addOverflow, .smbus⟩, buf)
      else
        match c.vendorIds[(pay 0).toNat]? with
        | none => ({ c with selector := nextSel c (pay 0) }, .panic ⟨.indexOOB, .smbus⟩, buf)
        | some v =>
          match vendorField v with
          | some f => respond { c with selector := nextSel c (pay 0) } src (.respVendor 0#8 (nextSel c (pay 0)) f) buf
          | none => ({ c with selector := nextSel c (pay 0) }, .panic ⟨.unreachable, .smbus⟩, buf) := by
  unfold dispatch nextSel; simp only [h]; rfl

theorem dispatch_other
    (hne : Cmd.ofByte cmd ≠ .reserved ∧ Cmd.ofByte cmd ≠ .setEndpointID ∧ Cmd.ofByte cmd ≠ .getEndpointID ∧
        Cmd.ofByte cmd ≠ .getEndpointUUID ∧ Cmd.ofByte cmd ≠ .getMCTPVersionSupport ∧
        Cmd.ofByte cmd ≠ .getMessageTypeSupport ∧ Cmd.ofByte cmd ≠ .getVendorDefinedMessageSupport) :
    dispatch c cmd src pay buf = (c, .panic ⟨.unimplemented, .smbus⟩, buf) := by
  unfold dispatch
  split <;> first | (exfalso; simp_all; done) | rfl

end Proc
end Mctp
