import Mctp.Model.Basic
import Mctp.Model.Crc8
import Mctp.Model.Bitfield
import Mctp.Model.Enums
import Mctp.Model.Views
import Mctp.Model.Encode
import Mctp.Model.Decode
import Mctp.Model.Process
