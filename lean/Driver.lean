/-
Line-protocol driver: one request per line on stdin, one answer per line on stdout.
Runs the executable L1 model (and the L2 specification predicates) so that the
orchestrator can compare them with what the real library did on the same input.
Imports only Mctp.Model / Mctp.Spec (no Mathlib), so it links as a native executable.
-/
import Mctp.Model.Process
import Mctp.Model.Ctors
import Mctp.Spec.Judge
import Mctp.Spec.JudgeView
open Mctp

namespace Drv

def hexVal (c : Char) : Option Nat :=
  if '0' ≤ c ∧ c ≤ '9' then some (c.toNat - '0'.toNat)
  else if 'a' ≤ c ∧ c ≤ 'f' then some (c.toNat - 'a'.toNat + 10)
  else if 'A' ≤ c ∧ c ≤ 'F' then some (c.toNat - 'A'.toNat + 10)
  else none

def parseHexNat (s : String) : Option Nat :=
  if s.isEmpty then none
  else s.toList.foldl (fun acc c => match acc, hexVal c with
    | some a, some v => some (a * 16 + v)
    | _, _ => none) (some 0)

partial def parseBytesAux : List Char → List B → Option Bytes
  | [], acc => some acc.reverse
  | a :: b :: rest, acc =>
    match hexVal a, hexVal b with
    | some x, some y => parseBytesAux rest (BitVec.ofNat 8 (x * 16 + y) :: acc)
    | _, _ => none
  | _, _ => none

def parseBytes (s : String) : Option Bytes :=
  if s = "-" then some [] else parseBytesAux s.toList []

def parseByte (s : String) : Option B :=
  match parseBytes s with
  | some [b] => some b
  | _ => none

def parseOptBytes (s : String) : Option (Option Bytes) :=
  if s = "none" then some none else (parseBytes s).map some

def hexDigit (n : Nat) : Char :=
  if n < 10 then Char.ofNat ('0'.toNat + n) else Char.ofNat ('a'.toNat + n - 10)

def hexByte (b : B) : String :=
  String.ofList [hexDigit (b.toNat / 16), hexDigit (b.toNat % 16)]

def hexBytes (bs : Bytes) : String :=
  if bs.isEmpty then "-" else String.join (bs.map hexByte)

def showType : MsgType → String
  | .control => "control" | .spdm => "spdm" | .secured => "secured"
  | .pci => "pci" | .iana => "iana" | .invalid => "invalid"

def showErr : DecErr → String
  | .unknown => "unknown"
  | .ctl .unknown => "ctl-unknown"
  | .ctl .len => "len"
  | .ctl .hdr => "hdr"
  | .ctl (.cc c) => s!"cc:{c.toByte.toNat}"
  | .ctl .pec => "pec"

def showKind : PanicKind → String
  | .indexOOB => "oob" | .sliceRange => "slice" | .unimplemented => "unimplemented"
  | .unreachable => "unreachable" | .addOverflow => "addoverflow" | .subOverflow => "suboverflow"
  | .unwrapErr => "unwrap" | .copyLen => "copylen" | .explicit => "explicit"

def showFile : SrcFile → String
  | .smbus => "smbus.rs" | .traits => "mctp_traits.rs" | .control => "control_packet.rs"
  | .proto => "smbus_proto.rs" | .base => "base_packet.rs" | .request => "smbus_request.rs"
  | .response => "smbus_response.rs" | .vendor => "vendor_packets.rs"

def showPanic (p : Panic) : String := s!"panic {showKind p.kind} {showFile p.file}"

def showDec : Out DErr Dec → String
  | .ok (t, off, len) => s!"ok {showType t} {off} {len}"
  | .err (t, e) => s!"err {showType t} {showErr e}"
  | .panic p => showPanic p

def showProc : ProcRes → String
  | .ok ((t, off, len), some n) => s!"ok {showType t} {off} {len} some {n}"
  | .ok ((t, off, len), none) => s!"ok {showType t} {off} {len} none"
  | .err (t, e) => s!"err {showType t} {showErr e}"
  | .panic p => showPanic p

def showLen : Out DErr Nat → String
  | .ok n => s!"ok {n}"
  | .err (t, e) => s!"err {showType t} {showErr e}"
  | .panic p => showPanic p

def showEnc : Out Unit (Bytes × Nat) → Bytes → String
  | .ok (b, n), _ => s!"ok {n} {hexBytes b}"
  | .err _, old => s!"err {hexBytes old}"
  | .panic p, _ => showPanic p

def parseType (s : String) : Option MsgType :=
  match s with
  | "control" => some .control | "spdm" => some .spdm | "secured" => some .secured
  | "pci" => some .pci | "iana" => some .iana | "invalid" => some .invalid
  | _ => none

def parseVendor (s : String) : Option VendorId :=
  match s.splitOn "." with
  | [f, d, n] => do
      let f ← parseHexNat f; let d ← parseHexNat d; let n ← parseHexNat n
      pure ⟨BitVec.ofNat 8 f, BitVec.ofNat 32 d, BitVec.ofNat 16 n⟩
  | _ => none

def parseVendors (s : String) : Option (List VendorId) :=
  if s = "-" then some [] else (s.splitOn ",").mapM parseVendor

def parseBool (s : String) : Option Bool :=
  match s with | "0" => some false | "1" => some true | _ => none

/-- a byte argument that stands for a Rust enum: only the values the enum has can be expressed
through the API, so anything else is not an operation (the executor refuses it the same way) -/
def parseByteIn (s : String) (vals : List Nat) : Option B :=
  match parseByte s with
  | some b => if vals.contains b.toNat then some b else none
  | none => none

/-- 16-byte array arguments -/
def parseBytes16 (s : String) : Option Bytes :=
  match parseBytes s with
  | some b => if b.length = 16 then some b else none
  | none => none

/-- encoder name + argument tokens (without the trailing buffer) -/
def parseEnc (name : String) (a : List String) : Option Enc :=
  match name, a with
  | "reqSetEid", [op, e] => do pure (.reqSetEid (← parseByteIn op ArgEnum.setEidOp) (← parseByte e))
  | "reqGetEid", [] => some .reqGetEid
  | "reqGetUuid", [] => some .reqGetUuid
  | "reqVersion", [q] => do pure (.reqVersion (← parseByteIn q ArgEnum.versionQuery))
  | "reqMsgTypes", [] => some .reqMsgTypes
  | "reqVendor", [s] => do pure (.reqVendor (← parseByte s))
  | "reqResolveEid", [e] => do pure (.reqResolveEid (← parseByte e))
  | "reqAllocate", [op, n, f] => do pure (.reqAllocate (← parseByteIn op ArgEnum.allocOp) (← parseByte n) (← parseByte f))
  | "reqRouting", [es] => do
      let raw ← parseBytes es
      if raw.length % 4 = 0 then pure (.reqRouting raw) else none
  | "reqRoutingNew", [es] => do     -- entries built by `::new`: the entry type is an enum (0-3)
      let raw ← parseBytes es
      let typesOk := (List.range (raw.length / 4)).all fun i => ArgEnum.routingEntryType.contains (byteAt raw (4 * i)).toNat
      if raw.length % 4 = 0 && typesOk then pure (.reqRouting raw) else none
  | "reqGetRouting", [h] => do pure (.reqGetRouting (← parseByte h))
  | "reqPrepare", [] => some .reqPrepare
  | "reqDiscovery", [] => some .reqDiscovery
  | "reqNotify", [] => some .reqNotify
  | "reqNetworkId", [] => some .reqNetworkId
  | "reqQueryHop", [e, t] => do pure (.reqQueryHop (← parseByte e) (← parseByteIn t ArgEnum.msgType))
  | "reqResolveUuid", [u, h] => do pure (.reqResolveUuid (← parseBytes16 u) (← parseByte h))
  | "reqQueryRate", [] => some .reqQueryRate
  | "reqTxRate", [] => some .reqTxRate
  | "reqUpdateRate", [] => some .reqUpdateRate
  | "reqQueryIfaces", [] => some .reqQueryIfaces
  | "vendorDefined", [v, msg] => do pure (.vendorDefined (← parseVendor v) (← parseBytes msg))
  | "respSetEid", [cc, rej, al] => do pure (.respSetEid (← parseByteIn cc ArgEnum.completionCode) (← parseBool rej) (← parseByteIn al ArgEnum.allocStatus))
  | "respGetEid", [cc, et, it, f] => do
      pure (.respGetEid (← parseByteIn cc ArgEnum.completionCode) (← parseByteIn et ArgEnum.endpointType) (← parseByteIn it ArgEnum.endpointIdType) (← parseBool f))
  | "respUuid", [cc, u] => do pure (.respUuid (← parseByteIn cc ArgEnum.completionCode) (← parseBytes16 u))
  | "respVersion", [cc] => do pure (.respVersion (← parseByteIn cc ArgEnum.completionCode))
  | "respMsgTypes", [cc, ts] => do pure (.respMsgTypes (← parseByteIn cc ArgEnum.completionCode) (← parseBytes ts))
  | "respVendor", [cc, s, v] => do pure (.respVendor (← parseByteIn cc ArgEnum.completionCode) (← parseByte s) (← parseBytes v))
  | "genControl", [h, d] => do pure (.genControl (← parseOptBytes h) (← parseBytes d))
  | "genPci", [h, d] => do pure (.genPci (← parseOptBytes h) (← parseBytes d))
  | "genIana", [h, d] => do pure (.genIana (← parseOptBytes h) (← parseBytes d))
  | "genSpdm", [t, h, d] => do pure (.genSpdm (← parseType t) (← parseOptBytes h) (← parseBytes d))
  | _, _ => none

/-- the Rust names of the variants (what `{:?}` prints) -/
def cmdName : Cmd → String
  | .reserved => "Reserved" | .setEndpointID => "SetEndpointID" | .getEndpointID => "GetEndpointID"
  | .getEndpointUUID => "GetEndpointUUID" | .getMCTPVersionSupport => "GetMCTPVersionSupport"
  | .getMessageTypeSupport => "GetMessageTypeSupport"
  | .getVendorDefinedMessageSupport => "GetVendorDefinedMessageSupport"
  | .resolveEndpointID => "ResolveEndpointID" | .allocateEndpointIDs => "AllocateEndpointIDs"
  | .routingInformationUpdate => "RoutingInformationUpdate" | .getRoutingTableEntries => "GetRoutingTableEntries"
  | .prepareForEndpointDiscovery => "PrepareForEndpointDiscovery" | .endpointDiscovery => "EndpointDiscovery"
  | .discoveryNotify => "DiscoveryNotify" | .getNetworkID => "GetNetworkID" | .queryHop => "QueryHop"
  | .resolveUUID => "ResolveUUID" | .queryRateLimit => "QueryRateLimit" | .requestTXRateLimit => "RequestTXRateLimit"
  | .updateRateLimit => "UpdateRateLimit" | .querySupportedInterfaces => "QuerySupportedInterfaces"
  | .unknown => "Unknown"

def msgName : MsgType → String
  | .control => "MCtpControl" | .spdm => "SpdmOverMctp" | .secured => "SecuredMessages"
  | .pci => "VendorDefinedPCI" | .iana => "VendorDefinedIANA" | .invalid => "Invalid"

def ccName : CC → String
  | .success => "Success" | .error => "Error" | .errorInvalidData => "ErrorInvalidData"
  | .errorInvalidLength => "ErrorInvalidLength" | .errorNotReady => "ErrorNotReady"
  | .errorUnsupportedCmd => "ErrorUnsupportedCmd"

/-- the source file that declares the view (where a `bitfield!`-generated accessor panics) -/
def fileOfView (s : String) : SrcFile :=
  if s.startsWith "smbus." || s.startsWith "routing." then .proto
  else if s.startsWith "transport." || s.startsWith "body." then .base
  else if s.startsWith "ctrl." then .control
  else .vendor

def fieldOf (s : String) : Option Field :=
  match s with
  | "smbus.dest_read_write" => some SMBusHdr.destReadWrite
  | "smbus.dest_slave_addr" => some SMBusHdr.destSlaveAddr
  | "smbus.command_code" => some SMBusHdr.commandCode
  | "smbus.byte_count" => some SMBusHdr.byteCount
  | "smbus.source_read_write" => some SMBusHdr.sourceReadWrite
  | "smbus.source_slave_addr" => some SMBusHdr.sourceSlaveAddr
  | "routing.entry_type" => some RoutingEntry.entryType
  | "routing.eid_range_size" => some RoutingEntry.eidRangeSize
  | "routing.first_eid" => some RoutingEntry.firstEid
  | "routing.physical_address" => some RoutingEntry.physicalAddress
  | "transport.hdr_version" => some TransportHdr.hdrVersion
  | "transport.dest_endpoint_id" => some TransportHdr.destEndpointId
  | "transport.source_endpoint_id" => some TransportHdr.sourceEndpointId
  | "transport.som" => some TransportHdr.som
  | "transport.eom" => some TransportHdr.eom
  | "transport.pkt_seq" => some TransportHdr.pktSeq
  | "transport.to" => some TransportHdr.to
  | "transport.msg_tag" => some TransportHdr.msgTag
  | "body.msg_type" => some BodyHdr.msgType
  | "ctrl.rq" => some CtrlHdr.rq
  | "ctrl.d" => some CtrlHdr.d
  | "ctrl.instance_id" => some CtrlHdr.instanceId
  | "ctrl.command_code" => some CtrlHdr.commandCode
  | "pci.vendor_id" => some PciFmt.vendorId
  | "iana.vendor_id" => some IanaFmt.vendorId
  | _ => none

structure CtxSt where
  model : Ctx
  spec : Spec.SpecSt

abbrev St := List (String × CtxSt)

def St.get (st : St) (id : String) : Option CtxSt := (st.find? (·.1 = id)).map (·.2)
def St.put (st : St) (id : String) (c : CtxSt) : St := (id, c) :: st.filter (·.1 ≠ id)

def showEids (c : Ctx) : String := s!"{hexByte c.reqEid}{hexByte c.respEid}"

/-! parsing observations back (the implementation's, and the model's own for the tripwire) -/

def parseKind (s : String) : PanicKind :=
  match s with
  | "oob" => .indexOOB | "slice" => .sliceRange | "unimplemented" => .unimplemented
  | "unreachable" => .unreachable | "addoverflow" => .addOverflow | "suboverflow" => .subOverflow
  | "unwrap" => .unwrapErr | "copylen" => .copyLen | _ => .explicit

def parseFile (s : String) : Option SrcFile :=
  match s with
  | "smbus.rs" => some .smbus | "mctp_traits.rs" => some .traits | "control_packet.rs" => some .control
  | "smbus_proto.rs" => some .proto | "base_packet.rs" => some .base | "smbus_request.rs" => some .request
  | "smbus_response.rs" => some .response | "vendor_packets.rs" => some .vendor | _ => none

/-- a panic in a file the model does not know is mapped to a value no finding class uses -/
def parsePanic (k f : String) : Panic :=
  match parseFile f with
  | some file => ⟨parseKind k, file⟩
  | none => ⟨.explicit, .base⟩

def parseErr (s : String) : Option DecErr :=
  match s with
  | "unknown" => some .unknown
  | "ctl-unknown" => some (.ctl .unknown)
  | "len" => some (.ctl .len)
  | "hdr" => some (.ctl .hdr)
  | "pec" => some (.ctl .pec)
  | "cc:0" => some (.ctl (.cc .success))
  | "cc:1" => some (.ctl (.cc .error))
  | "cc:2" => some (.ctl (.cc .errorInvalidData))
  | "cc:3" => some (.ctl (.cc .errorInvalidLength))
  | "cc:4" => some (.ctl (.cc .errorNotReady))
  | "cc:5" => some (.ctl (.cc .errorUnsupportedCmd))
  | _ => none

/-- decode observation and "payload lies outside the input" flag -/
def parseDecObs (t : List String) : Option (Spec.DecObs × Bool) :=
  match t with
  | ["ok", ty, off, len] => do
      let ty ← parseType ty; let len ← len.toNat?
      match off.toNat? with
      | some o => pure (.ok (ty, o, len), false)
      | none => pure (.ok (ty, 0, len), true)
  | ["err", ty, e] => do pure (.err (← parseType ty, ← parseErr e), false)
  | ["panic", k, f] => some (.panic (parsePanic k f), false)
  | _ => none

def parseProcRes (t : List String) : Option (Spec.ProcObs × Bool) :=
  match t with
  | ["ok", ty, off, len, "some", n] => do
      let ty ← parseType ty; let len ← len.toNat?; let n ← n.toNat?
      match off.toNat? with
      | some o => pure (.ok ((ty, o, len), some n), false)
      | none => pure (.ok ((ty, 0, len), some n), true)
  | ["ok", ty, off, len, "none"] => do
      let ty ← parseType ty; let len ← len.toNat?
      match off.toNat? with
      | some o => pure (.ok ((ty, o, len), none), false)
      | none => pure (.ok ((ty, 0, len), none), true)
  | ["err", ty, e] => do pure (.err (← parseType ty, ← parseErr e), false)
  | ["panic", k, f] => some (.panic (parsePanic k f), false)
  | _ => none

def toks (s : String) : List String := (s.trimAscii.toString.splitOn " ").filter (· ≠ "")

/-- `<res> | <buf> | <eids>` -/
def parseProcObs (s : String) : Option (Spec.ProcObs × Bool × Bytes × (B × B)) :=
  match s.splitOn " | " with
  | [r, b, e] => do
      let (res, outside) ← parseProcRes (toks r)
      let buf ← parseBytes b.trimAscii.toString
      match ← parseBytes e.trimAscii.toString with
      | [x, y] => pure (res, outside, buf, (x, y))
      | _ => none
  | _ => none

def parseLenObs (t : List String) : Option (Out DErr Nat) :=
  match t with
  | ["ok", n] => do pure (.ok (← n.toNat?))
  | ["err", ty, e] => do pure (.err (← parseType ty, ← parseErr e))
  | ["panic", k, f] => some (.panic (parsePanic k f))
  | _ => none

/-- encoder observation and the buffer reported with an error -/
def parseEncObs (t : List String) : Option (Spec.EncObs × Bytes) :=
  match t with
  | ["ok", n, b] => do pure (.ok (← parseBytes b, ← n.toNat?), [])
  | ["err", b] => do pure (.err (), ← parseBytes b)
  | ["panic", k, f] => some (.panic (parsePanic k f), [])
  | _ => none

def parseSetObs (t : List String) : Option (B × B) :=
  match t with
  | ["ok", e] => match parseBytes e with | some [x, y] => some (x, y) | _ => none
  | _ => none

def showVerdicts (vs : List (String × Spec.Verdict)) (all : Bool) : String :=
  let keep := vs.filter fun (_, v) =>
    match v with
    | .na => false
    | .ok => all
    | _ => true
  if keep.isEmpty then "-" else ",".intercalate (keep.map fun (p, v) => s!"{p}={v.toString}")

def encProps : List String := ["C03", "C04", "C05", "C06", "C07", "C08", "C16"]
def decProps : List String := ["C02", "C09", "C10"]
def lenProps : List String := ["C04", "C10", "C17"]
def procProps : List String := ["C02", "C03", "C04", "C05", "C10", "C11", "C12", "C13", "C14", "C15"]

/-- answer = model observation, verdicts on the implementation's observation (all that apply),
verdicts on the model's own observation that are not ok (tripwire: must print `-`) -/
def answer (m : String) (judge : String → Option (List (String × Spec.Verdict))) (impl : Option String) : String :=
  match impl with
  | none =>
    let mv := match judge m with
      | some vs => showVerdicts vs true
      | none => "unparsed"
    s!"{m} ## I:- M:{mv}"
  | some o =>
    let iv := match judge o with
      | some vs => showVerdicts vs true
      | none => "unparsed"
    -- identical observations get identical verdicts: judge once
    let mv := if o == m then iv else
      match judge m with
      | some vs => showVerdicts vs true
      | none => "unparsed"
    s!"{m} ## I:{iv} M:{mv}"

/-! bulk sweeps (thorough tier): 65 536 variants of one packet, two byte positions swept, answered
by a digest of all observations so that no text crosses the pipe per case -/

def fnv (h : UInt64) (s : String) : UInt64 :=
  (s.toUTF8.foldl (fun h b => (h ^^^ b.toUInt64) * 0x100000001b3) h ^^^ 10) * 0x100000001b3

def refixPec (q : Bytes) : Bytes :=
  match q with
  | [] => []
  | _ => q.dropLast ++ [crc8 q.dropLast]

def decSweep (p : Bytes) (i j : Nat) (fix : Bool) : String := Id.run do
  let mut h : UInt64 := 0xcbf29ce484222325
  let mut nok := 0
  let mut nerr := 0
  let mut npanic := 0
  for a in [0:256] do
    for b in [0:256] do
      let q := (p.set i (BitVec.ofNat 8 a)).set j (BitVec.ofNat 8 b)
      let q := if fix then refixPec q else q
      let r := decode q
      match r with
      | .ok _ => nok := nok + 1
      | .err _ => nerr := nerr + 1
      | .panic _ => npanic := npanic + 1
      h := fnv h (showDec r)
  return s!"sweep {h.toNat} {nok} {nerr} {npanic}"

def procSweep (c : Ctx) (p : Bytes) (i j : Nat) (buf : Bytes) : Ctx × String := Id.run do
  let mut h : UInt64 := 0xcbf29ce484222325
  let mut c := c
  let mut nok := 0
  let mut nerr := 0
  let mut npanic := 0
  for a in [0:256] do
    for b in [0:256] do
      let q := refixPec ((p.set i (BitVec.ofNat 8 a)).set j (BitVec.ofNat 8 b))
      let (c', r, b') := process c q buf
      c := c'
      match r with
      | .ok _ => nok := nok + 1
      | .err _ => nerr := nerr + 1
      | .panic _ => npanic := npanic + 1
      h := fnv h s!"{showProc r} | {hexBytes b'} | {showEids c'}"
  return (c, s!"sweep {h.toNat} {nok} {nerr} {npanic}")

/-- the property whose verdicts are wanted (`prop Cnn` line); `none` = all -/
def activeProp (st : St) : Option String :=
  match st.find? (fun e => e.1.startsWith "__prop__") with
  | some e => some ((e.1.drop 8).toString)
  | none => none

def keepProps (st : St) (ps : List String) : List String :=
  match activeProp st with
  | some p => ps.filter (· == p)
  | none => ps

/-! observations of view / constructor / conversion operations -/

def parseNatObs (t : List String) : Option (Out Unit Nat) :=
  match t with
  | [n] => n.toNat?.map .ok
  | ["panic", k, f] => some (.panic (parsePanic k f))
  | _ => none

def parseBytesObs (t : List String) : Option (Out Unit Bytes) :=
  match t with
  | [b] => (parseBytes b).map .ok
  | ["panic", k, f] => some (.panic (parsePanic k f))
  | _ => none

def parseBoolObs (t : List String) : Option Bool :=
  match t with
  | ["ok"] => some true
  | ["err"] => some false
  | _ => none

def allCmds : List Cmd := C19.cmdTable.map (·.2) ++ [.unknown]
def allMsgs : List MsgType := C19.msgTable.map (·.2) ++ [.invalid]
def allCcs : List CC := C19.ccTable.map (·.2)

def parseConvObs {α : Type} (all : List α) (name : α → String) (t : List String) : Option (Out Unit (B × α)) :=
  match t with
  | [v, n] => do
      let v ← parseByte v
      let x ← all.find? (fun x => name x == n)
      pure (.ok (v, x))
  | ["panic", k, f] => some (.panic (parsePanic k f))
  | _ => none

def viewJudge (st : St) (prop : String) (parse : List String → Option α) (j : α → Spec.Verdict) :
    String → Option (List (String × Spec.Verdict)) :=
  fun o => (parse (toks o)).map fun x => (keepProps st [prop]).map fun pr => (pr, j x)

def handle (st : St) (line : String) : St × String :=
  let (opPart, impl) : String × Option String :=
    match line.splitOn " => " with
    | [a, b] => (a, some b.trimAscii.toString)
    | _ => (line, none)
  let tk := toks opPart
  match tk with
  | ["prop", name] =>
    ((s!"__prop__{name}", ⟨Ctx.new 0 [] [], Spec.SpecSt.new 0 [] []⟩) :: st.filter (fun e => !e.1.startsWith "__prop__"), "ok")
  | ["ctx", id, addr, types, vendors] =>
    match parseByte addr, parseBytes types, parseVendors vendors with
    | some a, some t, some v => (st.put id ⟨Ctx.new a t v, Spec.SpecSt.new a t v⟩, "ok")
    | _, _, _ => (st, "bad-op")
  | ["dec", pkt] | ["dec", _, pkt] =>
    match parseBytes pkt with
    | some p =>
      let m := showDec (decode p)
      let judge := fun (o : String) => (parseDecObs (toks o)).map fun (d, outside) =>
        (keepProps st decProps).map fun pr => (pr, Spec.judgeDec pr p d outside)
      (st, answer m judge impl)
    | none => (st, "bad-op")
  | "rtdec" :: _recv :: id :: _dst :: name :: rest =>
    -- the real encoder's output (last token) handed to the decoder of context `_recv`;
    -- `id` is the context that encoded it, `name rest` the call that made it
    match st.get id, rest.getLast? with
    | some c, some pkts =>
      match parseEnc name rest.dropLast, parseBytes pkts with
      | some e, some p =>
        let m := showDec (decode p)
        let judge := fun (o : String) => (parseDecObs (toks o)).map fun (d, outside) =>
          [("C01", Spec.judgeRt c.spec e p d outside)]
        (st, answer m judge impl)
      | _, _ => (st, "bad-op")
    | _, _ => (st, "bad-op")
  | ["len", pkt] | ["len", _, pkt] =>
    match parseBytes pkt with
    | some p =>
      let m := showLen (getLength p)
      let judge := fun (o : String) => (parseLenObs (toks o)).map fun d =>
        (keepProps st lenProps).map fun pr => (pr, Spec.judgeLen pr p d)
      (st, answer m judge impl)
    | none => (st, "bad-op")
  | ["proc", id, pkt, buf] =>
    match st.get id, parseBytes pkt, parseBytes buf with
    | some c, some p, some b =>
      let (c', r, b') := process c.model p b
      let m := s!"{showProc r} | {hexBytes b'} | {showEids c'}"
      let judge := fun (o : String) => (parseProcObs o).map fun (res, outside, ob, oe) =>
        (keepProps st procProps).map fun pr => (pr, Spec.judgeProc pr c.spec p b res outside ob oe)
      (st.put id ⟨c', c.spec.step (.process p b)⟩, answer m judge impl)
    | _, _, _ => (st, "bad-op")
  | ["seteid", id, which, e] =>
    match st.get id, parseByte e with
    | some c, some e =>
      if which = "req" ∨ which = "resp" then
        let op : Op := if which = "req" then .setEidReq e else .setEidResp e
        let c' := (stepOp c.model op).1
        let m := s!"ok {showEids c'}"
        let judge := fun (o : String) => (parseSetObs (toks o)).map fun oe =>
          [("C13", Spec.judgeSet "C13" c.spec op oe)]
        (st.put id ⟨c', c.spec.step op⟩, answer m judge impl)
      else (st, "bad-op")
    | _, _ => (st, "bad-op")
  | ["setuuid", id, u] =>
    match st.get id, parseBytes u with
    | some c, some u =>
      match stepOp c.model (.setUuid u) with
      | (c', .panicked p) => (st.put id ⟨c', c.spec⟩, s!"{showPanic p} ## I:- M:-")
      | (c', _) =>
        let m := s!"ok {showEids c'}"
        let judge := fun (o : String) => (parseSetObs (toks o)).map fun oe =>
          [("C13", Spec.judgeSet "C13" c.spec (.setUuid u) oe)]
        (st.put id ⟨c', c.spec.step (.setUuid u)⟩, answer m judge impl)
    | _, _ => (st, "bad-op")
  | ["encalias", id, dst, name, k, data, bufs] =>
    -- the header is the first `k` bytes of the data (in the Rust call: a sub-slice of the same memory)
    match st.get id, parseByte dst, k.toNat?, parseBytes data, parseBytes bufs with
    | some c, some d, some k, some dat, some b =>
      let e? : Option Enc :=
        if k > dat.length then none
        else match name with
          | "genControl" => some (.genControl (some (dat.take k)) dat)
          | "genPci" => some (.genPci (some (dat.take k)) dat)
          | "genIana" => some (.genIana (some (dat.take k)) dat)
          | "genSpdm" => some (.genSpdm .spdm (some (dat.take k)) dat)
          | _ => none
      match e? with
      | some e =>
        let m := showEnc (encode c.model d e b) b
        let judge := fun (o : String) => (parseEncObs (toks o)).map fun (eo, eb) =>
          (keepProps st encProps).map fun pr => (pr, Spec.judgeEnc pr c.spec d e b eo eb)
        (st, answer m judge impl)
      | none => (st, "bad-op")
    | _, _, _, _, _ => (st, "bad-op")
  | "enc" :: id :: dst :: name :: rest | "encr" :: id :: dst :: name :: rest =>
    match st.get id, parseByte dst, rest.getLast? with
    | some c, some d, some bufs =>
      match parseEnc name rest.dropLast, parseBytes bufs with
      | some e, some b =>
        let m := showEnc (encode c.model d e b) b
        let judge := fun (o : String) => (parseEncObs (toks o)).map fun (eo, eb) =>
          (keepProps st encProps).map fun pr => (pr, Spec.judgeEnc pr c.spec d e b eo eb)
        (st, answer m judge impl)
      | _, _ => (st, "bad-op")
    | _, _, _ => (st, "bad-op")
  | ["decsweep", pkt, i, j, mode] =>
    match parseBytes pkt, i.toNat?, j.toNat? with
    | some p, some i, some j => (st, decSweep p i j (mode == "fix"))
    | _, _, _ => (st, "bad-op")
  | ["procsweep", id, pkt, i, j, buf] =>
    match st.get id, parseBytes pkt, i.toNat?, j.toNat?, parseBytes buf with
    | some c, some p, some i, some j, some b =>
      let (c', ans) := procSweep c.model p i j b
      -- the specification state follows the same 65 536 operations
      let spec' := Id.run do
        let mut s := c.spec
        for a in [0:256] do
          for bb in [0:256] do
            s := s.step (.process (refixPec ((p.set i (BitVec.ofNat 8 a)).set j (BitVec.ofNat 8 bb))) b)
        return s
      (st.put id ⟨c', spec'⟩, ans)
    | _, _, _, _, _ => (st, "bad-op")
  | ["view", "get", fname, raw] =>
    match fieldOf fname, parseBytes raw with
    | some f, some r =>
      let file := fileOfView fname
      let judge := viewJudge st "C18" parseNatObs (Spec.judgeViewGet f file r)
      match f.getC file r with
      | .ok v => (st, answer s!"{v}" judge impl)
      | .err _ => (st, "bad-op")
      | .panic p => (st, answer (showPanic p) judge impl)
    | _, _ => (st, "bad-op")
  | ["view", "set", fname, v, raw] =>
    match fieldOf fname, parseHexNat v, parseBytes raw with
    | some f, some v, some r =>
      let file := fileOfView fname
      let judge := viewJudge st "C18" parseBytesObs (Spec.judgeViewSet f file r v)
      match f.setC file r v with
      | .ok b => (st, answer (hexBytes b) judge impl)
      | .err _ => (st, "bad-op")
      | .panic p => (st, answer (showPanic p) judge impl)
    | _, _, _ => (st, "bad-op")
  | ["view", "tfb", raw, ver] =>
    match parseBytes raw, parseByte ver with
    | some r, some v =>
      (st, answer (if transportFromBufOk r v then "ok" else "err") (viewJudge st "C18" parseBoolObs (Spec.judgeTfb r v)) impl)
    | _, _ => (st, "bad-op")
  | ["view", "bfb", raw] =>
    match parseBytes raw with
    | some r => (st, answer (if bodyFromBufOk r then "ok" else "err") (viewJudge st "C18" parseBoolObs (Spec.judgeBfb r)) impl)
    | _ => (st, "bad-op")
  | ["new", "ctrl", rq, d, iid, cmd] =>
    match parseBool rq, parseBool d, parseByte iid, parseByte cmd with
    | some rq, some d, some iid, some cmd =>
      -- the command is given by its numeric value; 0xFF is `Unknown`
      if (Cmd.ofByte cmd).toByte = cmd then
        (st, answer (hexBytes (ctrlHeaderNew rq d iid (Cmd.ofByte cmd)))
          (viewJudge st "C18" parseBytesObs (Spec.judgeNewCtrl rq d iid cmd)) impl)
      else (st, "bad-op")
    | _, _, _, _ => (st, "bad-op")
  | ["new", "transport", v] =>
    match parseByte v with
    | some v => (st, answer (hexBytes (transportHeaderNew v)) (viewJudge st "C18" parseBytesObs (Spec.judgeNewTransport v)) impl)
    | none => (st, "bad-op")
  | ["new", "body", ic, t] =>
    match parseBool ic, parseType t with
    | some ic, some t =>
      let judge := viewJudge st "C18" parseBytesObs (Spec.judgeNewBody ic t)
      match bodyHeaderNew ic t with
      | .ok b => (st, answer (hexBytes b) judge impl)
      | .err _ => (st, "bad-op")
      | .panic p => (st, answer (showPanic p) judge impl)
    | _, _ => (st, "bad-op")
  | ["new", "routing", t, sz, f, ph] =>
    match parseByteIn t [0, 1, 2, 3], parseByte sz, parseByte f, parseByte ph with
    | some t, some sz, some f, some ph =>
      (st, answer (hexBytes (routingEntryNew t sz f ph)) (viewJudge st "C18" parseBytesObs (Spec.judgeNewRouting t sz f ph)) impl)
    | _, _, _, _ => (st, "bad-op")
  | ["new", "pci", v] =>
    match parseHexNat v with
    | some v => (st, answer (hexBytes (pciFormatNew (BitVec.ofNat 16 v))) (viewJudge st "C18" parseBytesObs (Spec.judgeNewBe 2 v)) impl)
    | none => (st, "bad-op")
  | ["new", "iana", v] =>
    match parseHexNat v with
    | some v => (st, answer (hexBytes (ianaFormatNew (BitVec.ofNat 32 v))) (viewJudge st "C18" parseBytesObs (Spec.judgeNewBe 4 v)) impl)
    | none => (st, "bad-op")
  | ["hdr", "smbus", id, dst] =>
    match st.get id, parseByte dst with
    | some c, some d =>
      (st, answer (hexBytes (smbusHeader c.model.address d)) (viewJudge st "C18" parseBytesObs (Spec.judgeHdrSmbus c.spec.addr d)) impl)
    | _, _ => (st, "bad-op")
  | ["hdr", "transport", id, dst] =>
    match st.get id, parseByte dst with
    | some c, some d =>
      (st, answer (hexBytes (transportHeader c.model.address d)) (viewJudge st "C18" parseBytesObs (Spec.judgeHdrTransport c.spec.addr d)) impl)
    | _, _ => (st, "bad-op")
  | ["conv", "cmd", b] =>
    match parseByte b with
    | some b =>
      (st, answer s!"{hexByte (Cmd.ofByte b).toByte} {cmdName (Cmd.ofByte b)}"
        (viewJudge st "C19" (parseConvObs allCmds cmdName) (Spec.judgeConvCmd b)) impl)
    | none => (st, "bad-op")
  | ["conv", "msg", b] =>
    match parseByte b with
    | some b =>
      (st, answer s!"{hexByte (MsgType.ofByte b).toByte} {msgName (MsgType.ofByte b)}"
        (viewJudge st "C19" (parseConvObs allMsgs msgName) (Spec.judgeConvMsg b)) impl)
    | none => (st, "bad-op")
  | ["conv", "cc", b] =>
    match parseByte b with
    | some b =>
      let judge := viewJudge st "C19" (parseConvObs allCcs ccName) (Spec.judgeConvCc b)
      match CC.ofByte b with
      | .ok c => (st, answer s!"{hexByte c.toByte} {ccName c}" judge impl)
      | .err _ => (st, "bad-op")
      | .panic p => (st, answer (showPanic p) judge impl)
    | none => (st, "bad-op")
  | _ => (st, "bad-op")

partial def loop (h : IO.FS.Stream) (out : IO.FS.Stream) (st : St) : IO Unit := do
  let line ← h.getLine
  if line.isEmpty then return ()
  let (st', ans) := handle st line
  out.putStrLn ans
  loop h out st'

end Drv

def main : IO Unit := do
  let stdin ← IO.getStdin
  let stdout ← IO.getStdout
  Drv.loop stdin stdout []
  stdout.flush
